"""C12 — build and inline are pure, repeatable and independent of process history.

Model: coq/Store.v (save / rename / restore of Var._name around the builder) + coq/Build.v (the model has no input other
than the reachable program and the request); theorems: coq/props/C12.v.  Correspondence: every build of every history is
compared (exact rendering) with the model evaluated on the program as reflected just before that build.  Direct oracle:
snapshots of name / type / value of every reachable Var and of the bytes of every inlined model before and after each
step; equal requests must give byte-identical models (deterministic serialisation) whatever happened in between, and in
fresh processes under 4 PYTHONHASHSEEDs with different amounts of prior allocation."""

from __future__ import annotations

import collections
import hashlib
import json
import os
import subprocess
import sys

import numpy as np

from harness import buildlib as B
from harness.common import Run

CONE = ["Base.v", "IR.v", "Show.v", "Build.v", "Sem.v", "Plan.v", "Named.v", "Validate.v", "BuildFacts.v", "Store.v", "StoreFacts.v", "StoreFacts2.v", "DfsFacts.v", "CompilePres.v", "ScopeFacts.v", "EmitFacts.v"]
PROPS = "props/C12.v"


def reachable_vars(outs):
    seen, out = set(), []

    def visit(v):
        if id(v) in seen:
            return
        seen.add(id(v))
        out.append(v)
        opn = v._op
        for w in opn.outputs.get_vars().values():
            if id(w) not in seen:
                seen.add(id(w)); out.append(w)
        for x in opn.inputs:
            if x is not None:
                visit(x)
        for a in opn.attrs.get_fields().values():
            if isinstance(a, B.AttrGraph):
                for r in a.value.requested_results.values():
                    visit(r)
                for r in a.value.requested_arguments or ():
                    visit(r)

    for v in outs:
        visit(v)
    return out


def snapshot(vars_):
    snap = []
    for v in vars_:
        val = v._value
        vb = None
        if val is not None and isinstance(val.value, np.ndarray):
            vb = (str(val.value.dtype), val.value.shape, val.value.tobytes())
        snap.append((v._name, id(v.type), repr(v.type), id(val), vb))
    return snap


def model_bytes(v):
    return [opn.model.SerializeToString(deterministic=True) for opn in {id(x._op): x._op for x in v}.values() if isinstance(opn, B._Inline)]


def gen_history(rng, g):
    """A pool (one generated program) and a list of build requests over it."""
    ins, outs = g.program()
    pool_out = list(outs.values()) + [v for v in getattr(g, 'last_pool', []) if isinstance(v.type, B.Tensor) and v.type.shape is not None][:12]
    steps = []
    for _ in range(rng.randint(3, 7)):
        k = rng.random()
        items = list(ins.items())
        o = {f"o{i}": rng.choice(pool_out) for i in range(rng.randint(1, 2))}
        drop = rng.random() < 0.4
        if k < 0.35:
            steps.append(("build", dict(items), o, drop))
        elif k < 0.5:
            rng.shuffle(items)
            steps.append(("build", dict(items[: rng.randint(0, len(items))]), o, drop))           # possibly missing inputs -> KeyError
        elif k < 0.65:
            kx, vx = rng.choice(items)
            steps.append(("build", dict(items + [(kx + "_again", vx)]), o, drop))                   # one Var under two names
        elif k < 0.75:
            steps.append(("build", dict(items), {**o, list(ins.keys())[0]: pool_out[0]}, drop))      # output named like an input
        elif k < 0.85 and steps:
            steps.append(rng.choice(steps))                                                          # the same request again
        else:
            steps.append(("build", dict(items), outs, drop))
    # a value computed by a control-flow node, built alone, then after another value that is reached FIRST (the names generated for what its
    # bodies close over shift), then alone again: what an earlier build compiled for a body must not survive into a later build
    cf = [v for v in pool_out if any(isinstance(a, B.AttrGraph) for a in v._op.attrs.get_fields().values())]
    if cf and rng.random() < 0.7:
        y, z = rng.choice(cf), rng.choice(pool_out)
        items = list(ins.items())
        steps += [("build", dict(items), {"y": y}, False), ("build", dict(items), {"z": z, "y": y}, False), ("build", dict(items), {"y": y}, rng.random() < 0.5)]
    return ins, outs, steps


def run_history(ins, outs, steps, semantic=None):
    """Executes the history; returns (cases, purity problems, list of (request key, bytes hash))."""
    allv = reachable_vars(list(outs.values()) + list(ins.values()))
    problems, cases, hashes = [], [], []
    first_bytes = {}
    for si, (_, i2, o2, drop) in enumerate(steps):
        before = snapshot(allv)
        mb = model_bytes(allv)
        c = B.Case(i2, o2, drop, {"step": si})
        B.run_impl(c)
        cases.append(c)
        after = snapshot(allv)
        if after != before:
            j = next(k for k in range(len(before)) if before[k] != after[k])
            what = "name" if before[j][0] != after[j][0] else "type" if before[j][1:3] != after[j][1:3] else "value"
            problems.append((f"C12/var-{what}-changed", f"step {si} ({c.impl[:40]}…) changed the {what} of a Var: {before[j][0]!r} -> {after[j][0]!r}", si))
        if model_bytes(allv) != mb:
            problems.append(("C12/inlined-model-modified", f"step {si} modified an inlined model", si))
        if c.model_proto is not None and semantic is not None:
            # a model built later in a history must be as good as one built first: placement, multiplicity and values
            from harness import c01, c04
            pp = [] if c04.inline_with_unused_input(c) else c04.placement_oracle(c.model_proto)
            if pp:
                problems.append(("C12/rebuild-misplaced", f"step {si}: " + pp[0][:200], si))
            sp = c01.semantic_oracle(c, semantic, trials=1)
            if sp:
                problems.append(("C12/rebuild-wrong-value" if "!=" in sp else "C12/rebuild-ort-fails", f"step {si}: " + sp[:220], si))
        if c.model_proto is not None:
            h = hashlib.sha256(c.model_proto.SerializeToString(deterministic=True)).hexdigest()
            key = (tuple((k, id(v)) for k, v in i2.items()), tuple((k, id(v)) for k, v in o2.items()), drop)
            if key in first_bytes and first_bytes[key] != h:
                problems.append(("C12/rebuild-differs", f"step {si}: the same request built earlier in this process gave different bytes", si))
            first_bytes.setdefault(key, h)
            hashes.append(h)
        else:
            hashes.append(c.impl)
    return cases, problems, hashes


def mixed_pool(rng):
    """A pool whose requests resolve to DIFFERENT final opsets: an inlined opset-13 model, a function and a plain v17 operator whose
    signatures change at 18, next to operators of newer modules.  Returns the list of requests (inputs, outputs)."""
    import spox.opset.ai.onnx.v17 as op17
    import spox.opset.ai.onnx.v19 as op19
    import spox.opset.ai.onnx.v21 as op21
    from onnx import TensorProto as TP, helper as oh
    from spox._function import to_function

    g = oh.make_graph([oh.make_node("ReduceMean", ["x"], ["y"], axes=[1], keepdims=0)], "g",
                      [oh.make_tensor_value_info("x", TP.FLOAT, [2, 3])], [oh.make_tensor_value_info("y", TP.FLOAT, [2])])
    m13 = oh.make_model(g, opset_imports=[oh.make_operatorsetid("", 13)], ir_version=8)
    x = B.argument(B.Tensor(np.float32, (2, 3)))
    (inl,) = B.inline(m13)(x).values()
    (f,) = to_function("Fm", "verif.fun")(lambda a: [op17.reduce_max(a, axes=[1], keepdims=0)])(x)
    old = op17.reduce_min(x, axes=[0], keepdims=0)
    n19, n21 = op19.identity(x), op21.identity(x)
    reqs = [({"x": x}, {"i": inl}), ({"x": x}, {"i": inl, "n": n19}), ({"x": x}, {"f": f}), ({"x": x}, {"f": f, "n": n21}),
            ({"x": x}, {"o": old, "n": n19}), ({"x": x}, {"i": inl, "f": f, "o": old}), ({"x": x}, {"i": inl, "n": n21})]
    return reqs


def mixed_histories(run, n):
    """The same requests in different orders (fresh pools): outcome and bytes of a request must not depend on what was built before."""
    import warnings
    problems, n_builds = [], 0
    for _ in range(n):
        base = None
        for variant in range(3):
            with warnings.catch_warnings():
                warnings.simplefilter("ignore")
                reqs = mixed_pool(run.rng)
                order = list(range(len(reqs)))
                if variant == 1:
                    order.reverse()
                elif variant == 2:
                    run.rng.shuffle(order)
                order = order + order[:3]      # and some requests once more
                got = {}
                for k in order:
                    i2, o2 = reqs[k]
                    impl, mp, exc = B.outcome(lambda: B.build(i2, o2))
                    n_builds += 1
                    h = hashlib.sha256(mp.SerializeToString(deterministic=True)).hexdigest() if mp is not None else impl.split(":")[0]
                    if k in got and got[k] != h:
                        problems.append(("C12/mixed-opset-rebuild-differs", f"request {k} of the mixed-opset pool gave {got[k][:24]} first and {h[:24]} "
                                         f"when built again later in the same process (order {order})", {"order": order, "request": k}))
                    got.setdefault(k, h)
            if base is None:
                base = got
            elif got != base:
                k = next(k for k in got if got[k] != base.get(k))
                problems.append(("C12/mixed-opset-history-dependent", f"request {k} of the mixed-opset pool gives {base.get(k, '')[:24]} when the pool is "
                                 f"built in order 0..6 but {got[k][:24]} in order {order}", {"order": order, "request": k}))
    return problems, n_builds


def inline_purity_problems():
    """inline(m) and every later build leave the CALLER's ModelProto byte-for-byte as it was (models with and without
    initializers, with symbolic dimensions in inputs / outputs / value infos / subgraphs)."""
    import warnings
    import onnx
    from onnx import TensorProto as TP, helper as oh, numpy_helper
    import spox.opset.ai.onnx.v17 as op

    def vi(name, shape, t=TP.FLOAT):
        return oh.make_tensor_value_info(name, t, list(shape))

    w = numpy_helper.from_array(np.array([1, 2], np.float32), "w")
    protos = []
    g = oh.make_graph([oh.make_node("Relu", ["x"], ["t"]), oh.make_node("Neg", ["t"], ["y"])], "g", [vi("x", ["N"])], [vi("y", ["N"])],
                      value_info=[vi("t", ["N"])])
    protos.append(("symbolic-no-initializer", oh.make_model(g, opset_imports=[oh.make_operatorsetid("", 17)], ir_version=8)))
    g = oh.make_graph([oh.make_node("Add", ["x", "w"], ["y"])], "g", [vi("x", ["N"])], [vi("y", ["N"])], [w])
    protos.append(("symbolic-with-initializer", oh.make_model(g, opset_imports=[oh.make_operatorsetid("", 17)], ir_version=8)))
    then_g = oh.make_graph([oh.make_node("Relu", ["x"], ["tb"])], "then", [], [vi("tb", ["N"])])
    else_g = oh.make_graph([oh.make_node("Neg", ["x"], ["eb"])], "else", [], [vi("eb", ["N"])])
    g = oh.make_graph([oh.make_node("If", ["c"], ["y"], then_branch=then_g, else_branch=else_g)], "g",
                      [vi("x", ["N"]), vi("c", [], TP.BOOL)], [vi("y", ["N"])])
    protos.append(("symbolic-in-subgraph", oh.make_model(g, opset_imports=[oh.make_operatorsetid("", 17)], ir_version=8)))
    x0 = B.argument(B.Tensor(np.float32, ("N",)))
    protos.append(("built-by-spox", B.build({"x": x0}, {"y": op.neg(op.relu(x0))})))
    problems = []
    for tag, m in protos:
        onnx.checker.check_model(m)
        before = m.SerializeToString(deterministic=True)
        with warnings.catch_warnings():
            warnings.simplefilter("ignore")
            x = B.argument(B.Tensor(np.float32, (2,)))
            c = B.argument(B.Tensor(np.bool_, ()))
            args = [x, c][:len(m.graph.input)]
            (y,) = B.inline(m)(*args).values()
            if m.SerializeToString(deterministic=True) != before:
                problems.append(("C12/inline-modifies-callers-model", f"inline(m) changed the caller's ModelProto ({tag})", {"model": tag}))
                continue
            B.build(dict(zip(["x", "c"], args)), {"y": y})
            if m.SerializeToString(deterministic=True) != before:
                problems.append(("C12/build-modifies-callers-model", f"a build changed the ModelProto that was inlined ({tag})", {"model": tag}))
    return problems


def child(seed, n, prealloc):
    junk = [object() for _ in range(prealloc)]  # different amounts of prior allocation shift object addresses
    run = Run("C12", "quick", seed)
    g = B.GenX(run.rng, leak_p=0.1)
    out = []
    for _ in range(n):
        ins, outs, steps = gen_history(run.rng, g)
        _, _, hashes = run_history(ins, outs, steps)
        out.append(hashes)
    print("C12-CHILD " + json.dumps(out))
    del junk


def run(run: Run) -> int:
    run.check_theorems(PROPS, CONE, thorough_coqchk=(run.tier == "thorough"))
    nh = 40 if run.tier == "quick" else 400
    g = B.GenX(run.rng, leak_p=0.1)
    all_cases, all_hashes, n_steps, n_prob = [], [], 0, 0
    nprng = np.random.RandomState(run.seed)
    hist = collections.Counter()
    for hi in range(nh):
        ins, outs, steps = gen_history(run.rng, g)
        cases, problems, hashes = run_history(ins, outs, steps, semantic=nprng)
        all_hashes.append(hashes)
        n_steps += len(steps)
        for c in cases:
            c.meta["history"] = hi
            hist[c.impl.split(" ")[1] if c.impl.startswith("ERR") else "model"] += 1
        all_cases += cases
        for key, what, si in problems:
            n_prob += 1
            run.fail("impl", key, what, {"history": hi, "step": si, "case": B.describe(cases[si])})
    for key, what, det in inline_purity_problems():
        n_prob += 1
        run.fail("impl", key, what, det)
    mprobs, n_mixed = mixed_histories(run, 4 if run.tier == "quick" else 40)
    for key, what, det in mprobs[:5]:
        n_prob += 1
        run.fail("impl", key, what, det)
    mism = B.correspondence(run, "c12", all_cases)
    for i in mism[:5]:
        run.fail("corr", f"C12/model-vs-impl/{i}", "model and implementation disagree on a build inside a history", B.describe(all_cases[i]))
    # fresh processes: same histories (same VERIF_SEED), different hash seeds and prior allocation
    nchild = 12 if run.tier == "quick" else 60
    outs_by_seed = {}
    for hs, pre in (("0", 0), ("1", 1000), ("2", 50000), ("3", 7)):
        env = dict(os.environ, PYTHONHASHSEED=hs)
        code = f"import sys; sys.path.insert(0,{str(__import__('harness.common', fromlist=['VERIF']).VERIF)!r}); from harness import c12; c12.child({run.seed}, {nchild}, {pre})"
        p = subprocess.run([sys.executable, "-B", "-W", "ignore", "-c", code], env=env, capture_output=True, text=True, timeout=900)
        line = [l for l in p.stdout.splitlines() if l.startswith("C12-CHILD ")]
        outs_by_seed[hs] = json.loads(line[0][len("C12-CHILD "):]) if line else {"error": p.stderr[-400:]}
    ref = all_hashes[:nchild]
    for hs, o in outs_by_seed.items():
        if o != ref:
            where = next((i for i in range(min(len(o), len(ref))) if o[i] != ref[i]), None) if isinstance(o, list) else None
            run.fail("impl", "C12/bytes-depend-on-process", f"models built in a fresh process (PYTHONHASHSEED={hs}) differ from this process'",
                     {"history_index": where, "child": o[where] if where is not None else o, "here": ref[where] if where is not None else None})
    cov = {
        "evaluations": n_steps, "distinct_nontrivial": len({c.impl for c in all_cases if c.model_proto is not None}),
        "rule": "histories of 3-7 builds over a shared pool of Vars (succeeding, missing inputs, one Var under two names, output "
                "named like an input, repeated requests, both drop values); distinct built models by rendering",
        "histories": nh, "traces_validated_against_impl": len([c for c in all_cases if c.coq is not None]) - len(mism),
        "disagreements_checked": len(mism), "purity_problems": n_prob, "mixed_opset_history_builds": n_mixed,
        "fresh_process_repeats": {"histories": nchild, "hash_seeds": 4, "prior_allocation": [0, 1000, 50000, 7]},
        "input_distribution": {"outcomes": dict(hist), "operators": g.hist},
        "samples": [B.describe(c) for c in all_cases[:2]],
    }
    return run.finish(cov, [
        "address / hash-seed independence of the real code is established by execution in fresh processes, not by proof",
        "the builder renames only its own fresh result-identity Vars (hypothesis of C12_build_restores_names; validated by the snapshots)",
    ])


def replay(run: Run, case) -> int:
    print(json.dumps(case.get("detail"), indent=1)[:4000])
    return 1
