"""C02 — build never hands back an invalid ONNX model.

Model: coq/Build.v (naming through one shared Scope, final structural check). Theorems: coq/props/C02.v.
Correspondence: EXACT rendering (all graphs, node names, value names, initializers, types of graph inputs/outputs, opset
imports) of the real ModelProto vs the model's, on generated programs with benign and adversarial user names, both
values of drop_unused_inputs.  Direct oracle on every returned model: onnx full checker + strict shape inference +
onnxruntime load + an independent whole-model walker (definitions, uses, scopes, node names, domain imports)."""

from __future__ import annotations

import collections

from harness import buildlib as B
from harness.common import Run

CONE = ["Base.v", "IR.v", "Show.v", "Build.v", "Sem.v", "Plan.v", "Named.v", "Validate.v", "BuildFacts.v", "SemFacts.v", "CompilePres.v", "ScopeFacts.v", "DfsFacts.v", "EmitFacts.v", "IOFacts.v", "SsaFacts.v", "GlobalFacts.v", "InlineDefs.v", "InlineInj.v", "InlineSeq.v", "GlobalInline.v"]
PROPS = "props/C02.v"


def gen_cases(run: Run, n: int):
    rng = run.rng
    cases = []
    g = B.GenX(rng, leak_p=0.3)
    while len(cases) < n:
        ins, outs = g.program()
        mode = rng.random()
        drop = rng.random() < 0.4
        if mode < 0.55:
            cases.append(B.Case(ins, outs, drop, {"names": "benign"}))
            continue
        # adversarial: harvest names from a first build of the same program and reuse them as user names
        _, m, _ = B.outcome(lambda: B.build(ins, outs))
        if m is None:
            cases.append(B.Case(ins, outs, drop, {"names": "benign"}))
            continue
        vals, nodes = B.harvest_names(m)
        pool = [v for v in vals if v not in ins and v not in outs] + nodes + ["Introduce_0_outputs_0", "Argument_0_arg", "Add_0", ""]
        nested_inline = [v for v in vals if "Inline_" in v and ("branch__" in v or "body__" in v) and v not in ins and v not in outs]
        ins2, outs2 = {}, {}
        for k, v in ins.items():
            ins2[rng.choice(pool) if rng.random() < 0.4 else k] = v
        for k, v in outs.items():
            if nested_inline and rng.random() < 0.35:
                outs2[rng.choice(nested_inline)] = v      # a name reserved for an internal value of an inlined block inside a body
            else:
                outs2[rng.choice(pool) if rng.random() < 0.5 else k] = v
        if not outs2:
            outs2 = outs
        cases.append(B.Case(ins2, outs2, drop, {"names": "adversarial", "errors_as_class": True}))
    return cases, g.hist


def mixed_cases(run: Run, n: int):
    """Programs mixing the shipped opset modules (functions, control flow, inlined older models): nodes get converted, so the
    emitted model is not predicted exactly; these cases are judged by the direct oracle (checker, strict inference, ORT, walker)."""
    import random
    import warnings
    from harness import c09

    out = []
    for _ in range(n):
        seed = run.rng.randrange(10 ** 9)
        try:
            g = c09.GenM(random.Random(seed), random.Random(seed * 7919 + 1), True, leak_p=0.0, max_depth=2)
            with warnings.catch_warnings():
                warnings.simplefilter("ignore")
                ins, outs = g.program()
        except Exception:  # noqa: BLE001
            continue
        c = B.Case(ins, outs, False, {"names": "mixed-opsets", "recipe_seed": seed})
        out.append(c)
    return out


def converted_twice_cases():
    """Two nodes of ONE operator type that both get converted (ReduceMean-13 -> 18: the conversion introduces a new Constant value per
    node), placed in sibling If branches / both in the main graph / one in the main graph and one in a body: the values the converter
    introduces are definitions like any other - each name once in the whole model.  Judged by the direct oracle."""
    import numpy as np
    import spox.opset.ai.onnx.v17 as op17
    import spox.opset.ai.onnx.v18 as op18

    out = []
    for where in ("sibling-branches", "both-in-main", "main-and-branch"):
        c = B.argument(B.Tensor(np.bool_, ()))
        x = B.argument(B.Tensor(np.float32, (2, 3)))

        def conv(axis, x=x):
            mean = op17.reduce_mean(x, axes=[axis], keepdims=1)                    # axes is an ATTRIBUTE until opset 17
            return op18.reduce_max(mean, op18.const(np.array([1 - axis], np.int64)), keepdims=0)   # needs opset 18

        if where == "sibling-branches":
            (r,) = op18.if_(c, then_branch=lambda: [conv(0)], else_branch=lambda: [conv(1)])
            outs = {"y": r}
        elif where == "both-in-main":
            outs = {"y": conv(0), "z": conv(1)}
        else:
            (r,) = op18.if_(c, then_branch=lambda: [conv(0)], else_branch=lambda: [op18.reduce_max(x, op18.const(np.array([0, 1], np.int64)), keepdims=0)])
            outs = {"y": r, "z": conv(1)}
        out.append(B.Case({"c": c, "x": x}, outs, False, {"names": "corner:converted-twice/" + where}))
    return out


def optional_output_cases():
    """Requested outputs (and results of If branches) of OPTIONAL type in programs whose operators need no more than opset 15: the result
    identities of the graphs must be valid at the version the model imports.  Judged by the direct oracle."""
    import numpy as np
    import spox.opset.ai.onnx.v17 as op17

    out = []
    for where in ("main-output", "branch-result"):
        v = B.argument(B.Tensor(np.float32, (2,)))
        c = B.argument(B.Tensor(np.bool_, ()))
        if where == "main-output":
            outs = {"y": op17.optional(v)}
        else:
            (r,) = op17.if_(c, then_branch=lambda: [op17.optional(v)], else_branch=lambda: [op17.optional(type=B.Tensor(np.float32, (2,)))])
            outs = {"h": op17.optional_has_element(r)}
        out.append(B.Case({"v": v, "c": c}, outs, True, {"names": "corner:optional-typed-result/" + where}))
    return out


def inlined_older_model_cases():
    """Inlined models written for an OLDER default-domain opset whose nodes must be converted (Squeeze / ReduceSum axes: attribute until
    opset 12, input from 13; Softmax-11 semantics), with the default domain imported under either of its two spellings ('' and 'ai.onnx'
    - onnxruntime and the converter accept both), used next to opset-17 operators.  Judged by the direct oracle."""
    import numpy as np
    import spox.opset.ai.onnx.v17 as op17
    from onnx import TensorProto as TP, helper as oh

    out = []
    for spelling in ("", "ai.onnx"):
        for tag, node, ishape, oshape in (
                ("squeeze-axes-attr", oh.make_node("Squeeze", ["x"], ["y"], axes=[0]), (1, 2), (2,)),
                ("reducesum-axes-attr", oh.make_node("ReduceSum", ["x"], ["y"], axes=[0], keepdims=0), (3, 2), (2,)),
                ("softmax-11", oh.make_node("Softmax", ["x"], ["y"], axis=0), (2,), (2,)),
                # Resize-10 (X, scales): read at opset >= 11 the second input would be `roi` - the basic checker accepts the node
                ("resize-10-scales", oh.make_node("Resize", ["x", "scales"], ["y"], mode="nearest"), (1, 1, 2, 2), (1, 1, 4, 4))):
            inits = [oh.make_tensor("scales", TP.FLOAT, (4,), [1.0, 1.0, 2.0, 2.0])] if tag.startswith("resize") else []
            g = oh.make_graph([node], "g", [oh.make_tensor_value_info("x", TP.FLOAT, list(ishape))], [oh.make_tensor_value_info("y", TP.FLOAT, list(oshape))], inits)
            m = oh.make_model(g, opset_imports=[oh.make_operatorsetid(spelling, 10 if tag.startswith("resize") else 11)], ir_version=7)
            x = B.argument(B.Tensor(np.float32, ishape))
            b = B.argument(B.Tensor(np.float32, oshape))
            (y,) = B.inline(m)(x).values()
            out.append(B.Case({"x": x, "b": b}, {"o": op17.add(y, b)}, False, {"names": f"corner:inlined-opset11/{tag}/default-domain-spelled-{spelling!r}"}))
    return out


def body_node_not_converted_case():
    """Known finding F9d (root cause F9b): a v17 operator whose OLD form the basic checker still accepts at a newer version (Split-17
    without num_outputs) used only inside an If branch, next to an opset-19 operator in the main graph: the body is emitted - and
    adapted - before the model's final opset is known, the node stays in its old form and build RETURNS a model the full checker and
    onnxruntime refuse.  Kept as a fixed case so that the finding is re-observed (or its repair noticed) on every run."""
    import numpy as np
    import spox.opset.ai.onnx.v17 as op17
    import spox.opset.ai.onnx.v19 as op19

    x = B.argument(B.Tensor(np.float32, (4,)))
    c = B.argument(B.Tensor(np.bool_, ()))
    (r,) = op17.if_(c, then_branch=lambda: [op17.split(x, outputs_count=2)[0]], else_branch=lambda: [op17.split(x, outputs_count=2)[1]])
    return B.Case({"x": x, "c": c}, {"y": op19.identity(r)}, False, {"names": "corner:body-node-not-converted/split-17-in-a-branch-under-opset-19"})


def function_body_conversion_cases():
    """A function whose BODY holds an operator that must be converted to the model's final opset and whose old form the basic checker
    still accepts (Split-17 without num_outputs under opset 19; ReduceMax-17 with an axes attribute is rejected by the basic checker and
    is the loud twin), through to_function, called once and twice.  Judged by the direct oracle."""
    import numpy as np
    import spox.opset.ai.onnx.v17 as op17
    import spox.opset.ai.onnx.v19 as op19
    from spox._function import to_function

    out = []
    for tag, body in (("split-17", lambda v: [op17.add(*op17.split(v, outputs_count=2))]),
                      ("reduce_max-17", lambda v: [op17.reduce_max(v, axes=[0], keepdims=1)])):
        for calls in (1, 2):
            f = to_function(f"Body_{tag.replace('-', '_')}_{calls}", "verif.c02conv")(body)
            x = B.argument(B.Tensor(np.float32, (4,)))
            (r,) = list(f(x))
            outs = {"y": op19.identity(r)}
            if calls == 2:
                outs["z"] = list(f(op19.identity(x)))[0]
            out.append(B.Case({"x": x}, outs, False, {"names": f"corner:function-body-needs-conversion/{tag}/{calls}-calls"}))
    return out


def sibling_duplicate_case():
    """Corner: an inlined model whose two If branches each own a value of the same name (legal ONNX)."""
    import numpy as np
    from onnx import TensorProto as TP, helper as oh, numpy_helper

    def vi(name, shape=(2,), t=TP.FLOAT):
        return oh.make_tensor_value_info(name, t, list(shape))

    w = numpy_helper.from_array(np.array([3, 4], np.float32), "W")
    then_g = oh.make_graph([oh.make_node("Add", ["x", "W"], ["tb"])], "then", [], [vi("tb")], [w])
    else_g = oh.make_graph([oh.make_node("Mul", ["x", "W"], ["eb"])], "else", [], [vi("eb")], [w])
    g = oh.make_graph([oh.make_node("If", ["c"], ["y"], then_branch=then_g, else_branch=else_g)], "g",
                      [vi("x"), vi("c", (), TP.BOOL)], [vi("y")])
    m = oh.make_model(g, opset_imports=[oh.make_operatorsetid("", 17)], ir_version=8)
    x, c = B.argument(B.Tensor(np.float32, (2,))), B.argument(B.Tensor(np.bool_, ()))
    (y,) = B.inline(m)(x, c).values()
    case = B.Case({"x": x, "c": c}, {"y": y}, False, {"names": "corner:inline-sibling-duplicate"})
    return case


def function_in_branch_and_main_case():
    """One function called inside an If branch (on captured outer values) AND in the main graph: a valid model (checker, reference
    evaluator, onnxruntime without graph optimisations) on which onnxruntime 1.30's ahead-of-time function inlining fails with 'the
    graph is not acyclic' - see buildlib._ort_function_inliner_at_fault; kept as a fixed case so that the excuse is exercised every run."""
    import numpy as np
    import spox.opset.ai.onnx.v17 as op
    from spox._function import to_function

    f = to_function("Gate", "verif.c02")(lambda in0, in1: [op.mul(op.relu(in0), in1)])
    a0 = B.argument(B.Tensor(np.float32, (2,)))
    c = B.argument(B.Tensor(np.bool_, ()))
    r = op.relu(a0)
    (i,) = op.if_(c, then_branch=lambda: [a0], else_branch=lambda: list(f(r, r)))
    (g,) = f(a0, r)
    return B.Case({"a0": a0, "c": c}, {"o0": op.mul(i, a0), "o1": g, "o2": op.mul(g, r)}, False, {"names": "corner:function-in-branch-and-main"})


def run(run: Run) -> int:
    run.check_theorems(PROPS, CONE, thorough_coqchk=(run.tier == "thorough"))
    n = 300 if run.tier == "quick" else 4000
    cases, hist = gen_cases(run, n)
    corner = sibling_duplicate_case()
    B.run_impl(corner)
    from harness import c14
    extra_corners = c14.nested_varying_cases()     # functions whose definitions differ between calls: build must refuse, never return an invalid model
    corner.coq = None        # the model's validator rejects this output by design (value name defined twice)
    cases.append(corner)
    for c in extra_corners:
        c.meta["names"] = "corner:functions"
        cases.append(c)
    cases.append(function_in_branch_and_main_case())
    mixed = mixed_cases(run, n // 4) + converted_twice_cases() + inlined_older_model_cases() + [body_node_not_converted_case()]
    mixed += function_body_conversion_cases()
    from harness import c14
    for dc in c14.deep_chain_cases():       # functions calling functions calling functions (depth 3-5): every level needs its definition
        dc.meta["names"] = "corner:deep-function-chain/" + dc.meta["deep_chain"]
        mixed.append(dc)
    cases += optional_output_cases()       # compared with the model: the result identity of an Optional value needs opset 16
    for c in mixed:
        B.run_impl(c)
        c.coq = None
    cases = cases + mixed
    mism = B.correspondence(run, "c02", cases)
    # premise of the validator-free whole-model uniqueness theorem, evaluated on every program that builds
    built = [c for c in cases if c.coq is not None and c.model_proto is not None]
    hdr = B.COQ_HEADER.replace("Build Show Validate.", "Build Show Validate GlobalFacts GlobalInline.")
    flags = run.coq_eval("c02glob", hdr, [f"(has_inline_b {p}, global_premises_req {p} {r}, global_premises2_req {p} {r})" for p, r in (c.coq for c in built)],
                         shard=max(1, min(40, (len(built) + 15) // 16)))
    n_noinl = n_prem = n_inl = n_prem2 = 0
    for c, x in zip(built, flags):
        has_inl, ok, ok2 = [t.strip() for t in x.strip().strip("()").split(",")]
        if has_inl == "true":
            # inlined models of the generator are built by spox itself: they define every name once, so the premise of the
            # theorem that covers inlined blocks must hold as well
            n_inl += 1
            n_prem2 += ok2 == "true"
            if ok2 != "true":
                run.fail("corr", "C02/global-premise-not-met/inlined", "a program with (spox-built) inlined models that builds does not meet the premise of "
                         "C02_value_names_unique_in_the_whole_model_with_inlined_blocks_by_construction", B.describe(c))
        if has_inl == "false":
            n_noinl += 1
            n_prem += ok == "true"
            if ok != "true":
                run.fail("corr", "C02/global-premise-not-met", "a program without inlined models that builds does not meet the premise of "
                         "C02_value_names_unique_in_the_whole_model_by_construction (a source node twice in the unfolded ownership map)", B.describe(c))
    outcome_hist = collections.Counter()
    distinct = set()
    n_models = n_oracle_bad = 0
    for i, c in enumerate(cases):
        outcome_hist[(c.impl.split(" ")[1] if c.impl.startswith("ERR") else "model") + "/" + c.meta["names"]] += 1
        if c.refl and len(c.refl.graphs) > 1:
            distinct.add(c.impl if c.model_proto is not None else repr(c.coq))
        if c.model_proto is None:
            continue
        n_models += 1
        problems = B.walk_model(c.model_proto) + B.full_check(c.model_proto)
        if problems:
            n_oracle_bad += 1
            kind = problems[0].split(" ")[0]
            if c.meta.get("names") == "corner:inline-sibling-duplicate" and all("Inline_" in p and "defined 2 times" in p for p in problems):
                kind = "inline-sibling-duplicate-names"
            if c.meta.get("names", "").startswith("corner:body-node-not-converted") and all("Split" in p for p in problems):
                kind = "body-node-kept-at-its-old-version"
            run.fail("impl", f"C02/invalid-model-returned/{kind}", "build returned a model that is not valid: " + problems[0][:160],
                     {"problems": problems[:5], "case": B.describe(c)})
    for i in mism[:5]:
        c = cases[i]
        run.fail("corr", f"C02/model-vs-impl/{i}", "model and implementation disagree on the emitted model / outcome class",
                 B.describe(c))
    cov = {
        "evaluations": len(cases), "distinct_nontrivial": len(distinct),
        "whole_model_uniqueness_premise_met": f"{n_prem} of {n_noinl} built programs without inlined models",
        "whole_model_uniqueness_with_inlined_blocks_premise_met": f"{n_prem2} of {n_inl} built programs with inlined models",
        "rule": "random nested programs (If/Loop/Scan bodies to depth 3, closures, sharing, leaks, multi-output, optional and "
                "variadic inputs, initializers), user names benign or harvested from a previous build of the same program, "
                "drop_unused_inputs in {False,True}; distinct by rendering; non-trivial = at least one subgraph",
        "traces_validated_against_impl": len([c for c in cases if c.coq is not None]) - len(mism),
        "disagreements_checked": len(mism),
        "models_returned": n_models, "models_failing_direct_oracle": n_oracle_bad,
        "onnxruntime_function_inliner_failures_excused": len(B.ORT_INLINER_EXCUSED),
        "input_distribution": {"operators": hist, "outcomes": dict(outcome_hist)},
        "samples": [B.describe(c) for c in cases[:2]],
    }
    return run.finish(cov, [
        "A: onnx.checker.check_model(full_check=True) + strict shape inference + onnxruntime load decide validity (oracle); a load failure of "
        "a model WITH local functions is attributed to onnxruntime's ahead-of-time function inlining (not to the model) only if the model loads "
        "with graph optimisations disabled AND loads with default options after onnx.inliner expanded the functions (count in coverage)",
        "A: coq struct_check agrees with the structural part of the real checker (validated by outcome-class correspondence)",
        "reflector prints the object graph build() sees (validated: exact-name agreement of the emitted models)",
    ])


def replay(run: Run, case) -> int:
    print("replay files of C02 carry the reflected program; re-run with the same VERIF_SEED to regenerate the objects")
    print(case.get("what"))
    return 1
