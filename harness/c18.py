"""C18 — user-defined operators are emitted verbatim and compose like standard ones.

Model: coq/NodeProto.v (emit with s_min = None) + coq/CustomOp.v; theorems: coq/props/C18.v.

Node classes are GENERATED AT RUN TIME (dataclasses.make_dataclass) over random declared signatures: single / optional /
variadic inputs and outputs (also optionals before singles), every attribute kind incl. subgraphs (required / optional,
set / unset, Attr name equal to or different from the field name), several domains and versions (two classes of one domain
with different versions in one program), type / value hooks that are absent, partial, complete, over-complete (unknown
keys), ill-typed (value not conforming) or raising, at five positions of a surrounding program: next to standard
operators, inside an If branch, inside a Loop body, feeding an inlined model, fed by an inlined model.
Compared with the model: Var.type / Var._value / warnings of the construction (node_init), the NodeProto in the built
model (emit), opset_import (policy_version), conversion decision and warnings (adapt_decision).
Direct oracle (implementation only): the returned ModelProto is decoded independently and op_type / domain / input
order / output count / attribute names and values are compared with the declaration and the arguments; the custom
domain must be imported at the maximum version used; onnx.checker.check_model must accept.
"""

from __future__ import annotations

import dataclasses
import json
import typing
import warnings

import numpy as np
import onnx
from onnx import AttributeProto, TensorProto, helper, numpy_helper

from harness import c05_lib as L
from harness.common import Run, coq_list, coq_str

CONE = ["NodeProto.v", "NodeProtoFacts.v", "CustomOp.v", "CustomOpFacts.v"]
PROPS = "props/C18.v"
HEADER = ("From Coq Require Import List String Bool ZArith NArith.\nFrom Spox Require Import NodeProto CustomOp.\nImport ListNotations.\n"
          "Open Scope string_scope.\nOpen Scope bool_scope.\n")

DOMAINS = ["com.example", "custom.x", "com.microsoft", "org.verif.ops", "d"]
ATTR_KINDS = ["AttrFloat32", "AttrInt64", "AttrString", "AttrTensor", "AttrType", "AttrDtype",
              "AttrFloat32s", "AttrInt64s", "AttrStrings", "AttrTensors", "AttrGraph"]
PROTO_KIND = {"AttrFloat32": AttributeProto.FLOAT, "AttrInt64": AttributeProto.INT, "AttrString": AttributeProto.STRING,
              "AttrTensor": AttributeProto.TENSOR, "AttrType": AttributeProto.TYPE_PROTO, "AttrDtype": AttributeProto.INT,
              "AttrFloat32s": AttributeProto.FLOATS, "AttrInt64s": AttributeProto.INTS, "AttrStrings": AttributeProto.STRINGS,
              "AttrTensors": AttributeProto.TENSORS, "AttrGraph": AttributeProto.GRAPH}
F32 = TensorProto.FLOAT
T23 = ["T", F32, [2, 3]]
HOOK_TYPES = {"t23": T23, "tsym": ["T", F32, ["N", 3]], "tnoshape": ["T", F32, None], "ti64": ["T", TensorProto.INT64, [2]]}
TYPE_HOOKS = ["absent", "partial", "complete", "complete", "extra-keys", "raising", "unranked"]
VALUE_HOOKS = ["absent", "absent", "complete", "partial", "illtyped-dtype", "illtyped-shape", "illtyped-object", "raising", "extra-keys"]
POSITIONS = ["top", "top", "if-body", "loop-body", "feeds-inline", "fed-by-inline"]


# ------------------------------------------------------------------------------------------------ case generation


def gen_sig(rng, idx):
    def slots(prefix, allow_empty):
        out = []
        n_single, n_opt = rng.choice([0, 1, 1, 2, 3]), rng.choice([0, 0, 1, 2])
        kinds = ["SINGLE"] * n_single + ["OPTIONAL"] * n_opt
        if rng.random() < 0.25:
            rng.shuffle(kinds)          # optionals before singles: legal for spox, not of ONNX's shape
        if rng.random() < 0.4:
            if prefix == "i" and rng.random() < 0.4:
                kinds.insert(rng.randrange(len(kinds) + 1), "VARIADIC")     # a variadic input need not be the last field
            else:
                kinds.append("VARIADIC")
        if not kinds and not allow_empty:
            kinds = ["SINGLE"]
        for i, k in enumerate(kinds):
            out.append([f"{prefix}{i}" if rng.random() < 0.8 else rng.choice(["X", "data", "w_1", "Y", "res"]) + str(i), k])
        return out

    attrs = []
    for i in range(rng.choice([0, 1, 2, 3, 5])):
        attrs.append([f"a{i}_{rng.choice(['alpha', 'mode', 'k'])}", rng.choice(ATTR_KINDS), rng.random() < 0.4])
    return {"op": f"Op{idx}_{rng.choice(['Foo', 'Bar', 'Inverse'])}", "domain": rng.choice(DOMAINS), "version": rng.choice([1, 2, 3, 7]),
            "ins": slots("i", True), "outs": slots("o", False), "attrs": attrs}


def gen_attr_value(rng, kind):
    if kind == "AttrGraph":
        return rng.choice(["Add", "Mul"])
    if kind == "AttrFloat32":
        return rng.choice([0.5, -1.25, 3.0, 1e-5, 0.0, -0.0])      # 0.0 and -0.0: equal as Python objects, different attributes
    if kind == "AttrInt64":
        return rng.choice([0, 1, -3, 2**40])
    if kind == "AttrString":
        return rng.choice(["", "mode_a", "x y", "NOTSET"])
    if kind == "AttrTensor":
        return {"dtype": rng.choice(["float32", "int64"]), "shape": rng.choice([[], [2], [2, 2]])}
    if kind == "AttrType":
        return rng.choice(["t23", "tsym", "ti64"])
    if kind == "AttrDtype":
        return rng.choice(["float32", "int64", "bool", "float64"])
    if kind == "AttrFloat32s":
        return rng.choice([[], [1.0], [0.5, -2.0, 3.25]])
    if kind == "AttrInt64s":
        return rng.choice([[], [1], [3, -1, 0, 7]])
    if kind == "AttrStrings":
        return rng.choice([[], ["a"], ["x", "yz", ""]])
    return [{"dtype": "float32", "shape": [2]}, {"dtype": "int64", "shape": []}][: rng.choice([0, 1, 2])]


def gen_case(rng, idx):
    sig = gen_sig(rng, idx)
    args = []
    for _n, k in sig["ins"]:
        if k == "SINGLE":
            args.append(["S"])
        elif k == "OPTIONAL":
            args.append(["O", rng.random() < 0.5])
        else:
            args.append(["V", rng.choice([0, 1, 2, 3, 11])])
    case = {"idx": idx, "sig": sig, "args": args, "share_input": rng.random() < 0.3,
            "out_variadic": (rng.choice([0, 1, 2, 3]) if len(sig["outs"]) > 1 else rng.choice([1, 2, 3]))
            if any(k == "VARIADIC" for _, k in sig["outs"]) else None,
            "attr_vals": [], "type_hook": rng.choice(TYPE_HOOKS), "value_hook": rng.choice(VALUE_HOOKS),
            "hook_type": rng.choice(["t23", "t23", "tsym"]), "position": rng.choice(POSITIONS),
            "pick": rng.random(), "const_inputs": rng.random() < 0.3}
    for key, kind, optional in sig["attrs"]:
        if optional and rng.random() < 0.5:
            case["attr_vals"].append(None)
        else:
            name = key if rng.random() < 0.6 else key + "_emitted"
            case["attr_vals"].append([name, gen_attr_value(rng, kind)])
    if rng.random() < 0.45:
        s2 = gen_sig(rng, idx + 100000)
        s2["domain"] = sig["domain"]
        s2["version"] = rng.choice([v for v in [1, 2, 3, 5, 7, 9] if v != sig["version"]])
        s2["ins"], s2["outs"], s2["attrs"] = [["x", "SINGLE"]], [["y", "SINGLE"]], []
        case["second"] = {"sig": s2, "chained": rng.random() < 0.5}
    return case


# ------------------------------------------------------------------------------------------------ run-time classes


def _array(spec):
    return np.asarray(np.arange(int(np.prod(spec["shape"])) if spec["shape"] else 1, dtype=spec["dtype"]).reshape(spec["shape"]) + 1,
                      dtype=spec["dtype"])


def attr_python_value(kind, v):
    if kind == "AttrGraph":
        import spox.opset.ai.onnx.v17 as op
        from spox._graph import subgraph

        f = op.add if v == "Add" else op.mul
        return subgraph([L.spox_type_of_tspec(T23)], lambda x: [f(x, x)])
    if kind == "AttrTensor":
        return _array(v)
    if kind == "AttrTensors":
        from onnx import numpy_helper

        return [numpy_helper.from_array(_array(x)) for x in v] if tensors_as_proto() else [_array(x) for x in v]
    if kind == "AttrType":
        return L.spox_type_of_tspec(HOOK_TYPES[v])
    if kind == "AttrDtype":
        return np.dtype(v)
    return v


def attr_payload(kind, v):
    if kind == "AttrGraph":
        return f"G:1in:1out:{v}"
    if kind == "AttrTensors":
        return L.attr_payload_from_value(PROTO_KIND[kind], [_array(x) for x in v])
    if kind == "AttrType":
        return L.attr_payload_from_value(PROTO_KIND[kind], HOOK_TYPES[v])
    return L.attr_payload_from_value(PROTO_KIND[kind], attr_python_value(kind, v))


def out_keys(sig, k):
    keys = []
    for n, kind in sig["outs"]:
        keys += [f"{n}_{i}" for i in range(k or 0)] if kind == "VARIADIC" else [n]
    return keys


def hook_tables(case, sig, k):
    """What the two hooks return, as data: (types: list of (key, type name) | 'raise', values: list of (key, vspec) | 'raise')."""
    keys = out_keys(sig, k)
    th, vh, ht = case["type_hook"], case["value_hook"], case["hook_type"]
    if th == "absent":
        types = []
    elif th == "raising":
        types = "raise"
    elif th == "partial":
        types = [(key, ht) for i, key in enumerate(keys) if i % 2 == 0]
    elif th == "unranked":
        types = [(key, "tnoshape") for key in keys]
    else:
        types = [(key, ht) for key in keys]
        if th == "extra-keys":
            types = [("not_an_output", "t23")] + types + [("zzz", "ti64")]
    if vh == "absent":
        values = []
    elif vh == "raising":
        values = "raise"
    else:
        values = []
        for i, key in enumerate(keys):
            if vh == "partial" and i % 2 == 1:
                continue
            spec = {"dtype": "float32", "shape": [2, 3]}
            if vh == "illtyped-dtype" and i % 2 == 0:
                spec = {"dtype": "int32", "shape": [2, 3]}
            if vh == "illtyped-shape" and i % 2 == 0:
                spec = {"dtype": "float32", "shape": [2, 4]}
            if vh == "illtyped-object" and i % 2 == 0:
                spec = "pylist"
            values.append((key, spec))
        if vh == "extra-keys":
            values = [("nope", {"dtype": "float32", "shape": [2, 3]})] + values
    return types, values


TENSORS_AS_PROTO = None


def tensors_as_proto():
    """AttrTensors of the unchanged tree rejects numpy arrays (finding C18/AttrTensors/ndarray-items-rejected); then the
    generated classes pass TensorProto items so that emission of TENSORS attributes is still exercised."""
    global TENSORS_AS_PROTO
    if TENSORS_AS_PROTO is None:
        from spox._attributes import AttrTensors

        try:
            AttrTensors([np.ones(2, np.float32)], name="t")
            TENSORS_AS_PROTO = False
        except TypeError:
            TENSORS_AS_PROTO = True
    return TENSORS_AS_PROTO


class HookError(ValueError):
    pass


def make_class(sig, types, values, th_absent, vh_absent):
    from spox import Var
    from spox import _attributes as A
    from spox._fields import BaseAttributes, BaseInputs, BaseOutputs
    from spox._node import Node, OpType

    ann = {"SINGLE": Var, "OPTIONAL": typing.Optional[Var], "VARIADIC": typing.Sequence[Var]}
    Attributes = dataclasses.make_dataclass(
        "Attributes", [(key, typing.Optional[getattr(A, kind)] if optional else getattr(A, kind)) for key, kind, optional in sig["attrs"]],
        bases=(BaseAttributes,))
    Inputs = dataclasses.make_dataclass("Inputs", [(n, ann[k]) for n, k in sig["ins"]], bases=(BaseInputs,))
    Outputs = dataclasses.make_dataclass("Outputs", [(n, ann[k]) for n, k in sig["outs"]], bases=(BaseOutputs,))
    body = {"op_type": OpType(sig["op"], sig["domain"], sig["version"]), "Attributes": Attributes, "Inputs": Inputs, "Outputs": Outputs}
    if not th_absent:
        def infer_output_types(self):
            if types == "raise":
                raise HookError("type hook")
            return {k: L.spox_type_of_tspec(HOOK_TYPES[t]) for k, t in types}
        body["infer_output_types"] = infer_output_types
    if not vh_absent:
        def propagate_values(self):
            if values == "raise":
                raise HookError("value hook")
            return {k: ([[1.0, 2.0, 3.0], [4.0, 5.0, 6.0]] if s == "pylist" else _array(s)) for k, s in values}
        body["propagate_values"] = propagate_values
    return type(sig["op"], (Node,), body)


def conforms(tname, vspec):
    """The harness' own judgement of 'value conforms to type' (numpy array of that element type and shape)."""
    if vspec == "pylist":
        return False
    t = HOOK_TYPES[tname]
    want = {F32: "float32", TensorProto.INT64: "int64"}[t[1]]
    if vspec["dtype"] != want:
        return False
    if t[2] is None:
        return True
    if len(t[2]) != len(vspec["shape"]):
        return False
    return all(not isinstance(d, int) or d == s for d, s in zip(t[2], vspec["shape"]))


# ------------------------------------------------------------------------------------------------ running one case


class Ctx:
    pass


def instantiate(case, sig, cls, in_vars, k):
    """Create the node from the case's argument pattern over the given list of available input Vars (cycled)."""
    pool = list(in_vars)
    pos = [0]

    def nxt():
        v = pool[0] if case["share_input"] else pool[pos[0] % len(pool)]
        pos[0] += 1
        return v

    kw, used = {}, []
    for (n, kind), a in zip(sig["ins"], case["args"] if sig is case["sig"] else [["S"]] * len(sig["ins"])):
        if a[0] == "S":
            v = nxt()
            kw[n] = v
            used.append(("S", v))
        elif a[0] == "O":
            v = nxt() if a[1] else None
            kw[n] = v
            used.append(("O", v))
        else:
            vs = [nxt() for _ in range(a[1])]
            kw[n] = vs
            used.append(("V", vs))
    akw = {}
    for (key, kind, _opt), av in zip(sig["attrs"], case["attr_vals"] if sig is case["sig"] else []):
        from spox import _attributes as A

        akw[key] = None if av is None else getattr(A, kind)(attr_python_value(kind, av[1]), name=av[0])
    node = cls(cls.Attributes(**akw), cls.Inputs(**kw), out_variadic=k)
    return node, used


def flat_outputs(node, sig):
    outs = []
    for n, kind in sig["outs"]:
        v = getattr(node.outputs, n)
        outs += list(v) if kind == "VARIADIC" else [v]
    return outs


def run_case(case):
    """Returns a picklable record: observations of the implementation + what the model needs."""
    import spox.opset.ai.onnx.v17 as op
    from spox import argument, build, inline
    from spox._exceptions import InferenceWarning
    from spox._internal_op import unsafe_cast

    sig = case["sig"]
    k = case["out_variadic"]
    types, values = hook_tables(case, sig, k)
    cls = make_class(sig, types, values, case["type_hook"] == "absent", case["value_hook"] == "absent")
    rec = {"case": case, "fails": [], "types": types, "values": values}
    t23 = L.spox_type_of_tspec(T23)
    n_in = 3
    args = {f"in{i}": argument(t23) for i in range(n_in)}
    cond = argument(L.spox_type_of_tspec(["T", TensorProto.BOOL, []]))
    names = {id(v): n for n, v in args.items()}
    pos = case["position"]
    holder = {}

    def construct(in_vars):
        with warnings.catch_warnings(record=True) as w:
            warnings.simplefilter("always")
            node, used = instantiate(case, sig, cls, in_vars, k)
        holder["node"], holder["used"], holder["warnings"] = node, used, list(w)
        return node

    def wrap(v):
        concrete = v.type is not None and getattr(v.type, "shape", ()) is not None
        return v if concrete else unsafe_cast(v, L.spox_type_of_tspec(["T", F32, [None, None]]))

    # a small model to inline: y = x + x
    def inline_model():
        g = helper.make_graph([helper.make_node("Add", ["x", "x"], ["y"])], "g",
                              [helper.make_value_info("x", L.typeproto_of_tspec(T23))], [helper.make_value_info("y", L.typeproto_of_tspec(T23))])
        return helper.make_model(g, opset_imports=[helper.make_operatorsetid("", 17)])

    build_inputs = dict(args)
    try:
        if pos in ("top", "feeds-inline", "fed-by-inline"):
            in_vars = list(args.values())
            if pos == "fed-by-inline":
                (y,) = inline(inline_model())(in_vars[0]).values()
                in_vars = [y] + in_vars[1:]
                names[id(y)] = "?inline"
            if case["const_inputs"] and pos == "top":
                in_vars = [op.const(np.ones((2, 3), np.float32) * (i + 1)) for i in range(n_in)]
                for i, cv in enumerate(in_vars):
                    names[id(cv)] = f"?const{i}"
            node = construct(in_vars)
            outs = flat_outputs(node, sig)
            results = {}
            for j, o in enumerate(outs):
                w = wrap(o)
                if pos == "feeds-inline" and j == 0:
                    # an UNTYPED output (no type hook / no entry) is passed on as it is: the inlined model's results are typed by the
                    # model's own declaration, whatever is known about the arguments
                    with warnings.catch_warnings():
                        warnings.simplefilter("ignore")
                        (w,) = inline(inline_model())(o if o.type is None else w).values()
                    rec["inline_result_type"] = [o.type is None, L.tspec_of_spox_type(w.type)]
                    w = wrap(w)
                results[f"out{j}"] = op.identity(w)
            second = None
            if "second" in case:
                s2 = case["second"]["sig"]
                cls2 = make_class(s2, [("y", "t23")], [], False, True)
                src = wrap(outs[0]) if case["second"]["chained"] else list(args.values())[0]
                with warnings.catch_warnings():
                    warnings.simplefilter("ignore")
                    second = cls2(cls2.Attributes(), cls2.Inputs(x=src))
                results["out_second"] = op.identity(second.outputs.y)
        elif pos == "if-body":
            def branch():
                node = construct(list(args.values()))
                return [op.identity(wrap(o)) for o in flat_outputs(node, sig)]

            def other():
                return [op.identity(list(args.values())[0]) for _ in out_keys(sig, k)]
            res = op.if_(cond, then_branch=branch, else_branch=other)
            results = {f"out{j}": r for j, r in enumerate(res)}
            build_inputs["cond"] = cond
        else:  # loop-body
            def body(i, c, a):
                names[id(a)] = "?loopvar"
                node = construct([a] + list(args.values())[1:])
                return [c, a] + [op.identity(wrap(o)) for o in flat_outputs(node, sig)]
            m = argument(L.spox_type_of_tspec(["T", TensorProto.INT64, []]))
            res = op.loop(m, None, [list(args.values())[0]], body=body)
            results = {f"out{j}": r for j, r in enumerate(res)}
            build_inputs["m"] = m
    except HookError as e:
        rec["construct"] = {"raised": "HookError", "which": str(e)}
        return rec
    except Exception as e:  # noqa: BLE001
        rec["construct"] = {"raised": type(e).__name__, "msg": str(e)[:300]}
        return rec
    node = holder["node"]
    outs = flat_outputs(node, sig)
    ws = holder["warnings"]
    rec["construct"] = {
        "outs": [(L.tspec_of_spox_type(o.type), None if o._value is None else L.array_token(np.asarray(o._value.value))) for o in outs],
        "missing": [str(x.message).split("variable ")[1].split(" of ")[0] for x in ws
                    if isinstance(x.message, InferenceWarning) and "is missing" in str(x.message)],
        "dropped": sum(1 for x in ws if isinstance(x.message, InferenceWarning) and "does not type-check" in str(x.message)),
        "not_concrete": [str(x.message).split("variable ")[1].split(" of ")[0] for x in ws
                         if isinstance(x.message, InferenceWarning) and "was not concrete" in str(x.message)],
        "other_warnings": [f"{type(x.message).__name__}: {str(x.message)[:100]}" for x in ws if not isinstance(x.message, InferenceWarning)],
    }
    if not results:
        results = {"dummy": op.identity(list(args.values())[0])}
    # ---- build
    try:
        with warnings.catch_warnings(record=True) as bw:
            warnings.simplefilter("always")
            model = build(build_inputs, results)
    except Exception as e:  # noqa: BLE001
        rec["build"] = {"raised": type(e).__name__, "msg": str(e)[:300]}
        return rec
    rec["build"] = {"adapter_warnings": sorted(str(x.message)[:200] for x in bw if isinstance(x.message, RuntimeWarning)
                                               and "Node adapters are only supported" in str(x.message)),
                    "model": model.SerializeToString()}
    # the Vars the node was given, by the names they have in the model (arguments by their given names; anything
    # else through producer tracing in decode())
    rec["used"] = [(a[0], None if a[1] is None else ([_vname(names, v) for v in a[1]] if a[0] == "V" else _vname(names, a[1])))
                   for a in holder["used"]]
    rec["checker"] = None
    try:
        onnx.checker.check_model(model)
    except Exception as e:  # noqa: BLE001
        rec["checker"] = f"{type(e).__name__}: {str(e)[:300]}"
    return rec


def _vname(names, v):
    return names.get(id(v), "?")


# ------------------------------------------------------------------------------------------------ independent decoding of the built model


def all_graphs(g, path="main"):
    yield path, g
    for n in g.node:
        for a in n.attribute:
            if a.type == AttributeProto.GRAPH:
                yield from all_graphs(a.g, path + "/" + n.op_type + "." + a.name)


def decode(model, sig):
    """Find the custom node(s) of this signature anywhere in the model; for each: the graph it sits in and the node."""
    found = []
    for path, g in all_graphs(model.graph):
        for n in g.node:
            if n.op_type == sig["op"] and n.domain == sig["domain"]:
                found.append((path, g, n))
    return found


def trace_to(g, name, stop_outputs):
    """Follow Identity producers backwards from `name` until a name in stop_outputs."""
    prod = {o: n for n in g.node for o in n.output}
    seen = 0
    while name not in stop_outputs and name in prod and prod[name].op_type == "Identity" and seen < 20:
        name = prod[name].input[0]
        seen += 1
    return name


# ------------------------------------------------------------------------------------------------ expectations (direct oracle) and Coq terms


def coq_hook_types(types):
    if types == "raise":
        return '(inl "HookError")'
    return "(inr " + coq_list([f"({coq_str(k)}, {L.coq_ty(HOOK_TYPES[t])})" for k, t in types]) + ")"


def coq_hook_values(values, types):
    if values == "raise":
        return '(inl "HookError")'
    tmap = dict(types) if types != "raise" else {}
    items = []
    for k, s in values:
        ok = conforms(tmap[k], s) if k in tmap else False
        tok = "pylist" if s == "pylist" else f"{s['dtype']}{s['shape']}".replace(" ", "")
        items.append(f"({coq_str(k)}, ({coq_str(tok)}, {'true' if ok else 'false'}))")
    return "(inr " + coq_list(items) + ")"


def check_case(run, rec, coq_jobs, st):
    case, sig = rec["case"], rec["case"]["sig"]
    k = case["out_variadic"]
    keys = out_keys(sig, k)
    types, values = rec["types"], rec["values"]
    label = f"{sig['op']}@{sig['domain']}:{sig['version']} {case['position']} th={case['type_hook']} vh={case['value_hook']}"
    detail = {"case": case, "call": label}
    con = rec["construct"]
    pos = case["position"]
    # ---- expected construction outcome (direct: from the hook tables)
    exp_raise = "type hook" if types == "raise" else ("value hook" if values == "raise" else None)
    st["hooks"][(case["type_hook"], case["value_hook"])] = st["hooks"].get((case["type_hook"], case["value_hook"]), 0) + 1
    if exp_raise:
        if con.get("raised") != "HookError" or con.get("which") != exp_raise:
            run.fail("impl", f"C18/hook-exception-not-propagated/{case['type_hook']}/{case['value_hook']}",
                     "a raising hook does not surface as that exception at construction", dict(detail, observed=con))
        coq_jobs.append({"label": label, "case": case, "exp_init": "Raised " + con.get("raised", "?"),
                         "init": (f"node_init (fun (_ : ty) (v : string * bool) => snd v) (fun t => match t with TTensor _ None => false | _ => true end) "
                                  f"{coq_list([coq_str(x) for x in keys])} true {coq_hook_types(types)} {coq_hook_values(values, types)}")})
        return
    if "raised" in con:
        key = f"C18/construction-raises/{con['raised']}/{case['type_hook']}/{case['value_hook']}/{pos}"
        run.fail("impl", key, f"constructing the user-defined operator raises {con['raised']} although no hook raises",
                 dict(detail, observed=con))
        return
    if "inline_result_type" in rec and _freeze(rec["inline_result_type"][1]) != _freeze(T23):
        run.fail("impl", "C18/feeds-inline/result-type", "the result of an inlined model fed by the operator's "
                 f"{'untyped ' if rec['inline_result_type'][0] else ''}output does not carry the model's declared output type",
                 dict(detail, expected=T23, observed=rec["inline_result_type"]))
    tmap, vmap = dict(types), dict(values)
    exp = []
    for key in keys:
        t = HOOK_TYPES[tmap[key]] if key in tmap else None
        v = None
        if t is not None and key in vmap and conforms(tmap[key], vmap[key]):
            v = L.array_token(_array(vmap[key]))
        exp.append((t, v))
    got = [(tuple(map(_freeze, [t]))[0], v) for t, v in con["outs"]]
    if [(_freeze(t), v) for t, v in exp] != got:
        run.fail("impl", f"C18/outputs-not-from-hooks/{case['type_hook']}/{case['value_hook']}",
                 "output Var types / values are not exactly the hooks' entries under the output keys",
                 dict(detail, expected=exp, observed=con["outs"]))
    exp_missing = [key for key in keys if key not in tmap]
    if con["missing"] != exp_missing:
        run.fail("impl", f"C18/missing-type-warnings/{case['type_hook']}", "missing-type warnings differ from the untyped outputs",
                 dict(detail, expected=exp_missing, observed=con["missing"]))
    exp_dropped = sum(1 for key in keys if key in tmap and key in vmap and not conforms(tmap[key], vmap[key]))
    if con["dropped"] != exp_dropped:
        run.fail("impl", f"C18/dropped-value-warnings/{case['value_hook']}", "number of dropped-value warnings differs",
                 dict(detail, expected=exp_dropped, observed=con["dropped"]))
    # ---- model job: node_init
    ic = "true"   # every input Var handed to the node is typed float32[2,3] (concrete)
    job = {"label": label, "case": case,
           "init": (f"node_init (fun (_ : ty) (v : string * bool) => snd v) (fun t => match t with TTensor _ None => false | _ => true end) "
                    f"{coq_list([coq_str(x) for x in keys])} {ic} {coq_hook_types(types)} {coq_hook_values(values, types)}"),
           "exp_init": _render_init([(t, v) for t, v in con["outs"]], keys, con["missing"], con["dropped"], con["not_concrete"], vmap)}
    # ---- the built model
    b = rec.get("build")
    if b is None:
        return
    if "raised" in b:
        run.fail("impl", f"C18/build-raises/{b['raised']}/{pos}", f"building a program with the user-defined operator raises {b['raised']}",
                 dict(detail, observed=b))
        return
    model = onnx.ModelProto()
    model.ParseFromString(b["model"])
    if rec["checker"]:
        run.fail("impl", f"C18/checker-rejects/{pos}", "onnx.checker.check_model rejects the built model", dict(detail, error=rec["checker"]))
    found = decode(model, sig)
    if len(found) != 1:
        run.fail("impl", f"C18/node-count/{pos}", f"the operator was emitted {len(found)} times instead of once", detail)
        return
    path, g, n = found[0]
    want_path = {"top": "main", "feeds-inline": "main", "fed-by-inline": "main", "if-body": "main/If.then_branch", "loop-body": "main/Loop.body"}[pos]
    if path != want_path:
        run.fail("impl", f"C18/node-scope/{pos}", f"the operator sits in {path}, expected {want_path}", detail)
    st["positions"][pos] = st["positions"].get(pos, 0) + 1
    # expected inputs, by declared slot (direct oracle: names of arguments are given; others are traced)
    exp_inputs, coq_ins, ids, nm = [], [], {}, []

    def vid(name):
        if name not in ids:
            ids[name] = len(ids)
            nm.append((ids[name], name))
        return ids[name]

    def resolve(tag):
        """Names of Vars that are not model arguments, found in the built model WITHOUT looking at the custom node."""
        if not tag.startswith("?"):
            return tag
        st["traced_inputs"] = st.get("traced_inputs", 0) + 1
        if tag == "?loopvar":
            return g.input[2].name
        if tag == "?inline":
            adds = [x for x in model.graph.node if x.op_type == "Add"]
            return adds[0].output[0] if len(adds) == 1 else "?"
        i = int(tag[len("?const"):])
        for x in g.node:
            if x.op_type == "Constant":
                for at in x.attribute:
                    if at.name == "value" and np.array_equal(numpy_helper.to_array(at.t), np.ones((2, 3), np.float32) * (i + 1)):
                        return x.output[0]
        return "?"

    for (sname, kind), (a, v) in zip(sig["ins"], rec["used"]):
        if a == "S" or (a == "O" and v is not None):
            name = resolve(v)
            exp_inputs.append(name)
            coq_ins.append(("S", vid(name)) if a == "S" else ("O", vid(name)))
        elif a == "O":
            exp_inputs.append("")
            coq_ins.append(("O", None))
        else:
            names = [resolve(x) for x in v]
            exp_inputs += names
            coq_ins.append(("V", [vid(x) for x in names]))
    if list(n.input) != exp_inputs:
        run.fail("impl", f"C18/inputs-not-verbatim/{pos}", "node inputs are not the arguments in declared order (nothing trimmed)",
                 dict(detail, expected=exp_inputs, observed=list(n.input)))
    if len(n.output) != len(keys) or any(not o for o in n.output):
        run.fail("impl", f"C18/outputs-not-verbatim/{pos}", "node outputs: one non-empty name per declared output expected",
                 dict(detail, expected=len(keys), observed=list(n.output)))
        return
    # consumer tracing: out{j} must lead back to output j
    if pos in ("top", "fed-by-inline"):
        for j in range(len(keys)):
            src = trace_to(g, f"out{j}", set(n.output))
            if src != n.output[j]:
                run.fail("impl", f"C18/output-order/{pos}", f"declared output {j} is not at position {j} of the node outputs",
                         dict(detail, traced=src, outputs=list(n.output)))
    # attributes
    exp_attrs = []
    for (key, kind, _o), av in zip(sig["attrs"], case["attr_vals"]):
        if av is not None:
            # a subgraph attribute is emitted under the FIELD name, every other kind under the Attr object's own name
            exp_attrs.append((key if kind == "AttrGraph" else av[0], int(PROTO_KIND[kind]), attr_payload(kind, av[1])))

    def obs_payload(a):
        if a.type == AttributeProto.GRAPH:
            ops = [x.op_type for x in a.g.node if x.op_type in ("Add", "Mul")]
            return f"G:{len(a.g.input)}in:{len(a.g.output)}out:{','.join(ops)}"
        return L.attr_payload_from_proto(a)
    got_attrs = [(a.name, int(a.type), obs_payload(a)) for a in n.attribute]
    if got_attrs != exp_attrs:
        run.fail("impl", f"C18/attributes-not-verbatim/{'name' if [x[0] for x in got_attrs] != [x[0] for x in exp_attrs] else 'value'}",
                 "emitted attributes differ from the set Attr objects (name = the Attr's own name, declaration order, value)",
                 dict(detail, expected=exp_attrs, observed=got_attrs))
    if n.op_type != sig["op"] or n.domain != sig["domain"]:
        run.fail("impl", "C18/op-identity", "operator name / domain changed", detail)
    # opset imports
    imports = {}
    for o in model.opset_import:
        imports.setdefault(o.domain, []).append(int(o.version))
    reqs = [(sig["domain"], sig["version"])]
    if "second" in case and pos in ("top", "feeds-inline", "fed-by-inline"):
        reqs.append((case["second"]["sig"]["domain"], case["second"]["sig"]["version"]))
    exp_ver = max(v for d, v in reqs if d == sig["domain"])
    if imports.get(sig["domain"]) != [exp_ver]:
        run.fail("impl", f"C18/opset-import/{pos}", "the operator's domain is not imported exactly once at the highest version used",
                 dict(detail, expected=exp_ver, observed=imports))
    # adapter warnings: one per top-level node whose version differs from the imported one
    # a node carrying a subgraph attribute is skipped by adapt_best_effort altogether (no warning either)
    has_graph = [any(kind == "AttrGraph" and av is not None for (_k, kind, _o), av in zip(sig["attrs"], case["attr_vals"]))] + [False] * (len(reqs) - 1)
    exp_warn = sum(1 for (d, v), hg in zip(reqs, has_graph) if v != exp_ver and not hg)
    job["adapt"] = [f"adapt_decision false true {'true' if hg else 'false'} {coq_str(d)} [({coq_str(d)}, {v}%N)] {exp_ver}%N false"
                    for (d, v), hg in zip(reqs, has_graph)]
    job["exp_adapt"] = ["UnchangedWarned" if v != exp_ver and not hg else "Unchanged" for (d, v), hg in zip(reqs, has_graph)]
    job["obs_warns"] = len(b["adapter_warnings"])
    if pos in ("top", "feeds-inline", "fed-by-inline") and len(b["adapter_warnings"]) != exp_warn:
        run.fail("impl", f"C18/adapter-warnings/{pos}", "version-mismatch warnings differ from the nodes whose version is not the imported one",
                 dict(detail, expected=exp_warn, observed=b["adapter_warnings"]))
    job["policy"] = (f"policy_version {coq_list([f'({coq_str(d)}, {v}%N)' for d, v in reqs] + [f'({coq_str(o.domain)}, {o.version}%N)' for o in model.opset_import if o.domain != sig['domain']])} "
                     f"{coq_str(sig['domain'])}")
    job["exp_policy"] = f"Some {imports.get(sig['domain'], ['?'])[0]}%N"
    # emit
    out_ids = [vid(o) for o in n.output]
    sig_t = L.coq_sig(sig["op"], sig["domain"], sig["version"], [tuple(x) for x in sig["ins"]], [tuple(x) for x in sig["outs"]], None)
    attrs_t = []
    real_graphs = {a.name: a.g for a in n.attribute if a.type == AttributeProto.GRAPH}
    bs = "(fun (k : string) (_ _ : list ty) => "
    for (key, kind, _o), av in zip(sig["attrs"], case["attr_vals"]):
        if kind == "AttrGraph" and av is not None:
            attrs_t.append((key, (av[0], ("G", [T23], [T23]))))
            if key in real_graphs:   # the subgraph itself is the builder's business (C01/C04): the real one is handed to the model
                bs += f"if seqb k {coq_str(key)} then {coq_graph(real_graphs[key])} else "
        else:
            attrs_t.append((key, None if av is None else (av[0], ("D", int(PROTO_KIND[kind]), attr_payload(kind, av[1])))))
    bs += "dummy_subgraph k [] [])"
    outs_t, oi = [], 0
    for _sname, kind in sig["outs"]:
        if kind == "VARIADIC":
            outs_t.append(("V", out_ids[oi:oi + (k or 0)]))
            oi += k or 0
        else:
            outs_t.append(("S" if kind == "SINGLE" else "O", out_ids[oi]))
            oi += 1
    nm_t = "(fun v => " + "".join(f"if Nat.eqb v {i} then {coq_str(s)} else " for i, s in nm) + '"")'
    job["emit"] = f"show_node (emit {nm_t} {coq_str(n.name)} {bs} {L.coq_call(sig_t, coq_ins, outs_t, attrs_t, [])})"
    job["exp_emit"] = L.show_node(n)
    coq_jobs.append(job)


def coq_graph(g):
    def infos(vis):
        return coq_list([f"({coq_str(v.name)}, {L.coq_oty(L.tspec_of_typeproto(v.type))})" for v in vis])
    nodes = coq_list([f"({coq_str(x.op_type)}, {coq_list([coq_str(i) for i in x.input])}, {coq_list([coq_str(o) for o in x.output])})" for x in g.node])
    return f"(Build_graph {coq_str(g.name)} {infos(g.input)} {infos(g.output)} {infos(g.value_info)} {nodes})"


def _freeze(t):
    return json.dumps(t)


def _render_init(exp, keys, missing, dropped, not_concrete, vmap):
    outs = ";".join(f"{k}:{L.show_tspec(t)}:{'-' if v is None else 'V'}" for k, (t, v) in zip(keys, exp))
    return f"{outs}|missing {','.join(missing)}|dropped {dropped}|notconcrete {','.join(not_concrete)}"


RENDER_DEFS = r'''
Definition show_outvar (o : outvar ty (string * bool)) : string :=
  sapp (o_key _ _ o) (sapp ":" (sapp (match o_type _ _ o with None => "-" | Some t => show_ty t end)
       (sapp ":" (match o_value _ _ o with None => "-" | Some _ => "V" end)))).
Definition wkeys (f : warning -> option string) (ws : list warning) : list string :=
  flat_map (fun w => match f w with Some k => [k] | None => [] end) ws.
Definition show_init (r : string + (list (outvar ty (string * bool)) * list warning)) : string :=
  match r with
  | inl e => sapp "Raised " e
  | inr (outs, ws) =>
      sapp (join ";" (map show_outvar outs))
      (sapp "|missing " (sapp (join "," (wkeys (fun w => match w with WMissing k => Some k | _ => None end) ws))
      (sapp "|dropped " (sapp (nat_str (List.length (wkeys (fun w => match w with WDropped k => Some k | _ => None end) ws)))
      (sapp "|notconcrete " (join "," (wkeys (fun w => match w with WNotConcrete k => Some k | _ => None end) ws)))))))
  end.
'''


def run_coq(run, jobs, st, name="c18"):
    from harness.common import parse_coq_string

    exprs, index = [], []
    for ji, j in enumerate(jobs):
        exprs.append(f"show_init ({j['init']})")
        index.append((ji, "init"))
        if "emit" in j:
            exprs.append(j["emit"])
            index.append((ji, "emit"))
            exprs.append(j["policy"])
            index.append((ji, "policy"))
            for a in j["adapt"]:
                exprs.append(a)
                index.append((ji, "adapt"))
    res = run.coq_eval(name, HEADER + RENDER_DEFS, exprs, shard=200)
    bad_jobs = set()
    adapt_seen = {}
    for (ji, what), r in zip(index, res):
        j = jobs[ji]
        if what == "init":
            ok = parse_coq_string(r) == j["exp_init"]
            got = parse_coq_string(r)
        elif what == "emit":
            got = parse_coq_string(r)
            ok = got == j["exp_emit"]
        elif what == "policy":
            got = r.strip()
            ok = got.replace(" ", "") == j["exp_policy"].replace(" ", "")
        else:
            adapt_seen.setdefault(ji, []).append(r.strip())
            continue
        if not ok:
            bad_jobs.add(ji)
            run.fail("corr", f"C18/model-vs-impl/{what}/{j['case']['position']}/{j['case']['type_hook']}/{j['case']['value_hook']}",
                     f"model and implementation disagree ({what})",
                     {"call": j["label"], "model": got, "impl": j.get("exp_" + what), "case": j["case"]})
    for ji, seen in adapt_seen.items():
        j = jobs[ji]
        if seen != j["exp_adapt"]:
            bad_jobs.add(ji)
            run.fail("corr", f"C18/model-vs-impl/adapt/{j['case']['position']}", "adapt_decision differs from the expected decision",
                     {"call": j["label"], "model": seen, "expected": j["exp_adapt"], "case": j["case"]})
        if j["case"]["position"] in ("top", "feeds-inline", "fed-by-inline") and seen.count("UnchangedWarned") != j["obs_warns"]:
            bad_jobs.add(ji)
            run.fail("corr", f"C18/model-vs-impl/adapt-warnings/{j['case']['position']}", "number of adapter warnings differs from the model's decisions",
                     {"call": j["label"], "model": seen, "observed_warnings": j["obs_warns"], "case": j["case"]})
    st["coq_ok"] = len(jobs) - len(bad_jobs)


# ------------------------------------------------------------------------------------------------ fixed corner cases


def corner_cases(run, st):
    """The operator class that spells the default domain 'ai.onnx' (model: Crash) - reported as an impl failure."""
    import spox.opset.ai.onnx.v17 as op
    from spox import argument, build

    from spox._attributes import AttrTensors

    try:
        AttrTensors([np.ones(2, np.float32)], name="t")
        st["attr_tensors_ndarray"] = "accepted"
    except TypeError as e:
        st["attr_tensors_ndarray"] = "rejected"
        run.fail("impl", "C18/AttrTensors/ndarray-items-rejected",
                 "AttrTensors (declared item type numpy.ndarray) cannot be instantiated with numpy arrays: TypeError; only TensorProto items work",
                 {"case": {"corner": "attr-tensors"}, "error": str(e)[:200]})
    sig = {"op": "AliasOp", "domain": "ai.onnx", "version": 1, "ins": [["x", "SINGLE"]], "outs": [["y", "SINGLE"]], "attrs": []}
    cls = make_class(sig, [("y", "t23")], [], False, True)
    a = argument(L.spox_type_of_tspec(T23))
    try:
        with warnings.catch_warnings():
            warnings.simplefilter("ignore")
            n = cls(cls.Attributes(), cls.Inputs(x=a))
            build({"a": a}, {"r": op.identity(n.outputs.y)})
        st["alias_domain"] = "built"
    except ValueError as e:
        if "max()" in str(e):
            run.fail("impl", "C18/domain-literal-ai.onnx/build-crash",
                     "an operator class whose domain is spelled 'ai.onnx' crashes the build: ValueError max() of an empty set in adapt_best_effort",
                     {"case": {"corner": "alias-domain"}, "error": str(e)[:200]})
            st["alias_domain"] = "crash"
        else:
            raise


# ------------------------------------------------------------------------------------------------ driver


def fixed_compositions(run: Run):
    """Hand-written compositions the random positions do not reach: a user-defined operator that occurs only INSIDE A CONTROL-FLOW BODY of
    a model that is then inlined into a program which does not use the operator's domain itself (the surrounding model must import the
    domain, the node must arrive verbatim in the nested body, the model must pass the checker); and a variadic input list the caller
    goes on modifying after the call (the node holds what the list held at the call)."""
    import onnx
    import spox.opset.ai.onnx.v17 as op17
    from spox import Tensor, argument, build, inline
    from harness.opaque_node import Pack, Twice

    n = 0

    def twice(x):
        return Twice(Twice.Attributes(), Twice.Inputs(x)).outputs.Y

    def nodes_at(g, path="main"):
        for nd in g.node:
            yield path, nd
            for a in nd.attribute:
                if a.type == onnx.AttributeProto.GRAPH:
                    yield from nodes_at(a.g, path + "/" + nd.op_type + "." + a.name)

    for where in ("if-branch", "loop-body", "top-level"):
        n += 1
        try:
            with warnings.catch_warnings():
                warnings.simplefilter("ignore")
                x = argument(Tensor(np.float32, (2,)))
                c = argument(Tensor(np.bool_, ()))
                if where == "if-branch":
                    (y,) = op17.if_(c, then_branch=lambda: [twice(x)], else_branch=lambda: [op17.neg(x)])
                elif where == "loop-body":
                    y = op17.loop(op17.const(np.array(2, np.int64)), v_initial=[x], body=lambda i, k, a: [k, twice(a)])[0]
                else:
                    y = twice(x)
                inner = build({"x": x, "c": c}, {"y": y})
                a, b = argument(Tensor(np.float32, (2,))), argument(Tensor(np.bool_, ()))
                r = inline(inner)(x=a, c=b)["y"]
                outer = build({"a": a, "b": b}, {"z": op17.add(r, a)})
                onnx.checker.check_model(outer, full_check=True)
        except Exception as e:  # noqa: BLE001
            run.fail("impl", f"C18/fixed/inlined-model-with-operator-in-{where}", f"a model holding a user-defined operator ({where}) cannot be inlined "
                     f"and built: {type(e).__name__}: {str(e)[:200]}", {"scenario": where, "exception": f"{type(e).__name__}: {e}"[:600]})
            continue
        imports = {(o.domain, o.version) for o in outer.opset_import}
        found = [(pth, nd) for pth, nd in nodes_at(outer.graph) if nd.op_type == "Twice"]
        if ("verif.c18fix", 3) not in imports or len(found) != 1 or found[0][1].domain != "verif.c18fix" or len(found[0][1].input) != 1 or len(found[0][1].output) != 1:
            run.fail("impl", f"C18/fixed/inlined-model-with-operator-in-{where}", "the user-defined operator of an inlined model is not emitted verbatim "
                     "with its domain imported once at its version", {"scenario": where, "imports": sorted(imports), "found": [(pth, nd.domain, list(nd.input)) for pth, nd in found]})
    # the operator at BODY DEPTH 0..3 of nested If branches of the program itself (not inlined): the domain's opset import has to climb
    # through every level; the node arrives verbatim in the innermost body
    for depth in (0, 1, 2, 3):
        n += 1
        try:
            with warnings.catch_warnings():
                warnings.simplefilter("ignore")
                x = argument(Tensor(np.float32, (2,)))
                c = argument(Tensor(np.bool_, ()))

                def nest(d):
                    if d == 0:
                        return twice(x)
                    return op17.if_(c, then_branch=lambda: [nest(d - 1)], else_branch=lambda: [op17.neg(x)])[0]

                m = build({"x": x, "c": c}, {"y": nest(depth)})
                onnx.checker.check_model(m, full_check=True)
        except Exception as e:  # noqa: BLE001
            run.fail("impl", f"C18/fixed/operator-at-body-depth-{depth}", f"a program with a user-defined operator {depth} If bodies deep does not "
                     f"build: {type(e).__name__}: {str(e)[:200]}", {"depth": depth})
            continue
        imports = [(o.domain, o.version) for o in m.opset_import]
        found = [(pth, nd) for pth, nd in nodes_at(m.graph) if nd.op_type == "Twice"]
        if imports.count(("verif.c18fix", 3)) != 1 or len(found) != 1 or found[0][0].count("/") != depth or found[0][1].domain != "verif.c18fix":
            run.fail("impl", f"C18/fixed/operator-at-body-depth-{depth}", "the user-defined operator is not emitted once, in the innermost body, with "
                     "its domain imported once at its version", {"depth": depth, "imports": imports, "found": [(pth, nd.domain) for pth, nd in found]})
    # declared attribute DEFAULTS: the three documented ways to construct the node (explicit Attributes(), attrs=None, attrs omitted) emit
    # the same node - the defaults under their declared names
    from harness.opaque_node import Scaled
    n += 1
    with warnings.catch_warnings():
        warnings.simplefilter("ignore")
        x = argument(Tensor(np.float32, (2,)))
        ways = {"explicit": lambda: Scaled(Scaled.Attributes(), Scaled.Inputs(x)), "attrs=None": lambda: Scaled(None, Scaled.Inputs(x)),
                "attrs-omitted": lambda: Scaled(inputs=Scaled.Inputs(X=x))}
        seen = {}
        for way, mk in ways.items():
            try:
                y = mk().outputs.Y
                m = build({"x": x}, {"y": op17.identity(y)})
                (nd,) = [q for q in m.graph.node if q.op_type == "Scaled"]
                seen[way] = sorted((a.name, round(a.f, 6) if a.type == onnx.AttributeProto.FLOAT else a.s.decode()) for a in nd.attribute)
            except Exception as e:  # noqa: BLE001
                seen[way] = f"{type(e).__name__}: {str(e)[:120]}"
        want = [("alpha", 1.5), ("mode", "fast")]
        bad = {w: s for w, s in seen.items() if s != want}
        if bad:
            run.fail("impl", "C18/fixed/declared-attribute-defaults-not-emitted", "a user-defined operator constructed without explicit attributes "
                     f"does not carry its declared defaults {want}: {bad}", {"seen": {k: str(v) for k, v in seen.items()}})
    # a MISSING type hook yields an untyped Var WITH a warning (default level INITIAL) - whatever is known about the operator's inputs:
    # concrete, of unknown shape, of unknown extent, or itself untyped
    import spox._future as _future
    from spox._exceptions import InferenceWarning
    from harness.opaque_node import Opaque
    for what, mk_in in (("concrete-input", lambda: argument(Tensor(np.float32, (2,)))), ("input-of-unknown-shape", lambda: argument(Tensor(np.float32))),
                        ("input-of-unknown-extent", lambda: argument(Tensor(np.float32, (None, 3)))),
                        ("input-from-runtime-reshape", lambda: op17.reshape(argument(Tensor(np.float32, (6,))), argument(Tensor(np.int64, (2,)))))):
        n += 1
        with _future.type_warning_level(_future.TypeWarningLevel.INITIAL):
            with warnings.catch_warnings():
                warnings.simplefilter("ignore")
                xin = mk_in()
            with warnings.catch_warnings(record=True) as caught:
                warnings.simplefilter("always")
                try:
                    y = Opaque(Opaque.Attributes(), Opaque.Inputs(xin)).outputs.Y
                    obs = (y.type is None, sum(1 for w in caught if issubclass(w.category, InferenceWarning) and "missing" in str(w.message)))
                except Exception as e:  # noqa: BLE001
                    obs = f"{type(e).__name__}: {str(e)[:120]}"
        if obs != (True, 1):
            run.fail("impl", f"C18/fixed/missing-type-hook/{what}", "an operator without type hook must yield an untyped Var with exactly one "
                     f"'output type is missing' warning at level INITIAL; observed (untyped, warnings) = {obs}", {"input": what, "observed": str(obs)})
    # variadic input list modified after the call
    n += 1
    with warnings.catch_warnings():
        warnings.simplefilter("ignore")
        xs = [argument(Tensor(np.float32, (k + 1,))) for k in range(3)]
        acc, outs = [], {}
        for k, xv in enumerate(xs):
            acc.append(xv)
            outs[f"y{k}"] = op17.identity(Pack(Pack.Attributes(), Pack.Inputs(None, acc)).outputs.Y)
        acc.append(xs[0])
        try:
            m = build({f"x{k}": v for k, v in enumerate(xs)}, outs)
            got = [list(nd.input) for nd in m.graph.node if nd.op_type == "Pack"]
            want = [["", "x0"], ["", "x0", "x1"], ["", "x0", "x1", "x2"]]
            if sorted(got) != sorted(want):
                run.fail("impl", "C18/fixed/variadic-list-modified-after-the-call", "a user-defined operator holds what the caller's list holds NOW, "
                         "not what it held at the call", {"node_inputs": got, "expected": want})
        except Exception as e:  # noqa: BLE001
            run.fail("impl", "C18/fixed/variadic-list-modified-after-the-call", f"build raised {type(e).__name__}: {str(e)[:200]}", {})
    return n


def run(run: Run) -> int:
    run.check_theorems(PROPS, CONE, thorough_coqchk=(run.tier == "thorough"))
    n = 2000 if run.tier == "quick" else 20000
    rng = run.rng
    st = {"hooks": {}, "positions": {}}
    cases = [gen_case(rng, i) for i in range(n)]
    jobs = []
    hist = {"position": {}, "type_hook": {}, "value_hook": {}, "domains": {}, "attr_kinds": {}, "n_inputs": {}, "n_outputs": {},
            "second_class": 0, "renamed_attr": 0, "construct_outcome": {}}
    n_eval = 0
    corner_cases(run, st)
    n_fixed = fixed_compositions(run)
    for case in cases:
        try:
            rec = run_case(case)
        except Exception as e:  # noqa: BLE001
            import traceback

            run.fail("proof", f"C18/harness-crash/{case['position']}", "the harness crashed on a generated case",
                     {"case": case, "error": traceback.format_exc()[-1500:]})
            continue
        n_eval += 1
        for kx in ("position", "type_hook", "value_hook"):
            hist[kx][case[kx]] = hist[kx].get(case[kx], 0) + 1
        hist["domains"][case["sig"]["domain"]] = hist["domains"].get(case["sig"]["domain"], 0) + 1
        for _k, kind, _o in case["sig"]["attrs"]:
            hist["attr_kinds"][kind] = hist["attr_kinds"].get(kind, 0) + 1
        hist["n_inputs"][len(case["sig"]["ins"])] = hist["n_inputs"].get(len(case["sig"]["ins"]), 0) + 1
        hist["n_outputs"][len(case["sig"]["outs"])] = hist["n_outputs"].get(len(case["sig"]["outs"]), 0) + 1
        hist["second_class"] += "second" in case
        hist["renamed_attr"] += any(av is not None and av[0] != key for (key, _k2, _o), av in zip(case["sig"]["attrs"], case["attr_vals"]))
        oc = "raised:" + rec["construct"]["raised"] if "raised" in rec["construct"] else "constructed"
        hist["construct_outcome"][oc] = hist["construct_outcome"].get(oc, 0) + 1
        check_case(run, rec, jobs, st)
    if jobs:
        run_coq(run, jobs, st)
    cov = {
        "evaluations": n_eval,
        "distinct_nontrivial": len({json.dumps(c["sig"]) + c["type_hook"] + c["value_hook"] + c["position"] for c in cases}),
        "rule": "distinct (generated signature, hook behaviours, position); every class has at least one output and is instantiated once",
        "traces_validated_against_impl": st.get("coq_ok", 0),
        "disagreements_checked": len(jobs) - st.get("coq_ok", 0),
        "built_models_decoded": sum(st["positions"].values()),
        "input_distribution": dict(hist, hook_pairs={f"{a}/{b}": c for (a, b), c in st["hooks"].items()}, positions_built=st["positions"]),
        "corner_alias_domain": st.get("alias_domain"),
        "fixed_compositions": n_fixed,
        "samples": [{"call": j["label"], "emit": j.get("exp_emit"), "init": j["exp_init"]} for j in jobs[:3]],
    }
    return run.finish(cov, [
        "hook results are modelled as data tables; PropValue.check is replaced in the model by the harness' own conformance judgement",
        "names of Vars that are not model arguments (constants, body arguments, inline results) are read from the built model",
        "the contents of a subgraph attribute are the builder's business (C01/C04): the model is handed the real subgraph and decides only name and position",
    ])


def replay(run: Run, case) -> int:
    d = case["detail"]
    c = d.get("case")
    st = {"hooks": {}, "positions": {}}
    if not c:
        print("no case in replay file")
        return 2
    if c.get("corner") in ("alias-domain", "attr-tensors"):
        corner_cases(run, st)
    else:
        jobs = []
        rec = run_case(c)
        check_case(run, rec, jobs, st)
        if jobs:
            run_coq(run, jobs, st, "replay")
        print("construct:", rec.get("construct"))
    for f in run.failures:
        print(f"  {f.kind} {f.key}: {f.what}")
        print("   ", json.dumps(f.detail, default=str)[:1500])
    if run.failures:
        print(f"VIOLATION property=C18 replay={run.pid}")
    return 1 if run.failures else 0
