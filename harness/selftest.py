"""Self-test of the harness plumbing (run by `./check setup`)."""
from harness.common import Run, parse_coq_list, parse_coq_string, coq_str


def run() -> int:
    r = Run("SELFTEST", "quick", 0)
    try:
        out = r.coq_eval("selftest", "From Coq Require Import List String.\nImport ListNotations.\nOpen Scope string_scope.\n",
                         ['(1 + 1, [3; 4])', coq_str('a"b') + ' ++ "c"'])
        assert out[0].replace(" ", "") == "(2,[3;4])", out
        assert parse_coq_string(out[1]) == 'a"bc', out
        assert parse_coq_list("[(1, 2); (3, 4)]") == ["(1, 2)", "(3, 4)"]
        print("harness selftest ok")
        return 0
    finally:
        r.cleanup()
