"""C14 — functions mean their body, are defined once; inconsistent bodies are rejected.

Model: coq/Build.v (function nodes: body built by its own builder with a fresh scope, functions of subgraphs and of bodies
collected, one FunctionProto per (domain, name), RuntimeError on two different definitions) + Validate.functions_exact /
function_imports_cover / function_plans; theorems: coq/props/C14.v.  Correspondence: exact rendering incl. every
FunctionProto (signature, body, opset imports) and the exception class.  Direct oracle: onnxruntime result of the built
model vs numpy evaluation of the program where a call evaluates its Python body; keys of ModelProto.functions vs the
functions reachable through inputs, control-flow bodies and other functions; varying bodies must be rejected."""

from __future__ import annotations

import collections
import json

import numpy as np

from harness import buildlib as B
from harness import c01
from harness.common import Run

CONE = ["Base.v", "IR.v", "Show.v", "Build.v", "Sem.v", "Plan.v", "Named.v", "Validate.v", "BuildFacts.v", "SemFacts.v", "FuncFacts.v", "CompilePres.v", "ScopeFacts.v", "DfsFacts.v", "EmitFacts.v", "FunDefFacts.v", "IOFacts.v", "AdaptFacts.v", "ReqFacts.v", "CoverFacts.v", "FunCoverFacts.v", "ReachFacts.v", "DiscoverFacts.v", "CoverageFacts.v", "PlanFacts.v", "LcaFacts.v", "PlacementFacts.v", "DefUseFacts.v", "TreeFacts.v", "WfFacts.v", "LegalFacts.v", "FunInd.v", "FunLegalFacts.v"]
PROPS = "props/C14.v"
F32 = np.float32


class GenF(B.GenX):
    """Function-heavy generator; optionally one function whose Python body varies between calls."""

    def __init__(self, rng, varying_p=0.15, **kw):
        super().__init__(rng, features=("func",), **kw)
        self.varying_p = varying_p
        self.varying_used = 0

    def program(self):
        self.varying_used = 0
        self.variants = set()
        r = super().program()
        return r

    def make_function(self, depth=0):
        rng, op = self.rng, self.op
        if rng.random() < self.varying_p:
            from spox._function import to_function

            name = f"V{self.nfun}"
            self.nfun += 1
            counter = [0]

            def body(x, y):
                counter[0] += 1
                self.variants.add((name, counter[0] % 2))
                return [op.add(x, y)] if counter[0] % 2 else [op.mul(x, y)]

            f = to_function(name, "verif.fun")(body)

            def call(a, b):
                self.varying_used += 1
                return list(f(a, b))

            return call
        return super().make_function(depth)


def reachable_functions(outs):
    """(domain, name) of every Function node reachable through inputs, subgraph results and function bodies; also the
    set of distinct body renderings per key (to detect varying bodies independently of spox's own comparison)."""
    seen, keys = set(), collections.defaultdict(set)

    def visit(v):
        opn = v._op
        if id(opn) in seen:
            return
        seen.add(id(opn))
        if isinstance(opn, B.Function):
            body = tuple((n._op.op_type.identifier) for n in B_reach(list(opn.func_graph.requested_results.values())))
            keys[(opn.op_type.domain, opn.op_type.identifier)].add(body)
            for r in opn.func_graph.requested_results.values():
                visit(r)
        for x in opn.inputs:
            if x is not None:
                visit(x)
        for a in opn.attrs.get_fields().values():
            if isinstance(a, B.AttrGraph):
                for r in a.value.requested_results.values():
                    visit(r)

    for v in outs:
        visit(v)
    return keys


def B_reach(outs):
    seen, order = set(), []

    def visit(v):
        if id(v._op) in seen:
            return
        seen.add(id(v._op))
        for x in v._op.inputs:
            if x is not None:
                visit(x)
        order.append(v)

    for v in outs:
        visit(v)
    return order


def nested_varying_cases():
    """An OUTER function (fixed Python body) that calls an INNER function whose body differs from call to call (it depends on the static
    type of its argument, or alternates): the model then needs two definitions of the inner function - build must refuse."""
    import spox.opset.ai.onnx.v17 as op
    from spox._function import to_function

    out = []
    for where in ("twice-in-main", "main-and-if-body", "if-body-twice", "also-direct"):
        for how in ("by-type", "alternating"):
            n = [0]

            def inner_body(x):
                n[0] += 1
                if how == "by-type":
                    return [op.mul(x, op.const(np.array(float(x.unwrap_tensor().shape[0]), np.float32)))]
                return [op.relu(x)] if n[0] % 2 else [op.neg(x)]

            _inner = to_function("Inner", "verif.nest")(inner_body)
            inner = lambda x: list(_inner(x))  # noqa: E731
            _outer = to_function("Outer", "verif.nest")(lambda x: [op.add(inner(x)[0], x)])
            outer = lambda x: list(_outer(x))  # noqa: E731
            a = B.argument(B.Tensor(np.float32, (2,)))
            b = B.argument(B.Tensor(np.float32, (3,))) if how == "by-type" else B.argument(B.Tensor(np.float32, (2,)))
            c = B.argument(B.Tensor(np.bool_, ()))
            if where == "twice-in-main":
                outs = {"p": outer(a)[0], "q": outer(b)[0]}
            elif where == "main-and-if-body":
                outs = {"p": outer(a)[0], "q": op.if_(c, then_branch=lambda: [outer(b)[0]], else_branch=lambda: [op.identity(b)])[0]}
            elif where == "if-body-twice":
                outs = {"q": op.if_(c, then_branch=lambda: [outer(a)[0]], else_branch=lambda: [op.reduce_sum(outer(b)[0], keepdims=1) if how == "by-type" else outer(b)[0]])[0]} \
                    if how != "by-type" else {"p": op.if_(c, then_branch=lambda: [outer(a)[0]], else_branch=lambda: [op.identity(a)])[0],
                                              "q": op.if_(c, then_branch=lambda: [outer(b)[0]], else_branch=lambda: [op.identity(b)])[0]}
            else:
                outs = {"p": outer(a)[0], "q": outer(b)[0], "r": inner(a)[0]}
            out.append(B.Case({"a": a, "b": b, "c": c}, outs, False, {"nested_varying": f"{where}/{how}"}))
    # one function NAME in two domains, each called only inside a control-flow body, the calls in SIBLING subgraphs of one graph
    fa = to_function("Scale", "verif.lib_a")(lambda x: [op.mul(x, op.const(np.array([2, 2], np.float32)))])
    fb = to_function("Scale", "verif.lib_b")(lambda x: [op.add(x, op.const(np.array([1, 1], np.float32)))])
    a = B.argument(B.Tensor(np.float32, (2,)))
    c = B.argument(B.Tensor(np.bool_, ()))
    (r,) = op.if_(c, then_branch=lambda: list(fa(a)), else_branch=lambda: list(fb(a)))
    out.append(B.Case({"a": a, "c": c}, {"r": r}, False, {"same_name_two_domains_in_sibling_branches": True}))
    # a function applied to a value of UNKNOWN RANK: a FunctionProto carries no types, nothing is demanded of the body's argument types
    f = to_function("Twice", "verif.nest")(lambda x: [op.add(x, x)])
    a = B.argument(B.Tensor(np.float32, (2,)))
    sh = B.argument(B.Tensor(np.int64, (None,)))
    unk = op.reshape(a, sh)
    (r,) = f(unk)
    out.append(B.Case({"a": a, "sh": sh}, {"r": op.reshape(r, op.const(np.array([2], np.int64)))}, False, {"function_on_unknown_rank": True}))
    # a function whose body depends on the RANK of its argument (an attribute of the body differs), applied at two ranks: were the
    # second application given the first one's definition, the returned model would not even be valid (Transpose perm of the wrong length)
    for where in ("main", "sibling-branches"):
        rev = to_function("ReverseAxes", "verif.nest")(lambda x: [op.transpose(x, perm=list(range(len(x.unwrap_tensor().shape)))[::-1])])
        a = B.argument(B.Tensor(np.float32, (2, 3)))
        b = B.argument(B.Tensor(np.float32, (2, 3, 2)))
        c = B.argument(B.Tensor(np.bool_, ()))
        if where == "main":
            outs = {"p": list(rev(a))[0], "q": list(rev(b))[0]}
        else:
            outs = {"p": op.if_(c, then_branch=lambda: [op.reduce_sum(list(rev(a))[0], keepdims=0)], else_branch=lambda: [op.reduce_sum(list(rev(b))[0], keepdims=0)])[0]}
        out.append(B.Case({"a": a, "b": b, "c": c}, outs, False, {"nested_varying": f"rank-dependent-attribute/{where}"}))
    return out


def mixed_version_function_cases():
    """Functions whose bodies are written against ai.onnx 17 (ReduceMean with axes as an ATTRIBUTE) in models whose other nodes need
    ai.onnx 18/19 (where axes is an input): every definition imports the model's version, so its body must be converted like the
    main graph's nodes are - called directly, from inside another function, and inside a control-flow body.  Judged by the direct
    oracle (the definitions' imports, full checker, onnxruntime against the numpy evaluation); no exact prediction of converted nodes."""
    import spox.opset.ai.onnx.v17 as op17
    import spox.opset.ai.onnx.v18 as op18
    import spox.opset.ai.onnx.v19 as op19
    from spox._function import to_function

    out = []
    for where in ("direct", "nested", "in-if-body", "nested-in-if-body"):
        for newer, tag in ((op18, "v18"), (op19, "v19")):
            center = to_function("Center", "verif.mixed")(lambda x: [op17.sub(x, op17.reduce_mean(x, axes=[0], keepdims=1))])
            twice = to_function("CenterTwice", "verif.mixed")(lambda x: [list(center(op17.mul(list(center(x))[0], x)))[0]])
            f = center if where in ("direct", "in-if-body") else twice
            a = B.argument(B.Tensor(np.float32, (2,)))
            c = B.argument(B.Tensor(np.bool_, ()))
            top = newer.reduce_max(a, newer.const(np.array([0], np.int64)), keepdims=1)       # needs the newer opset
            if "if" in where:
                (r,) = op17.if_(c, then_branch=lambda: [list(f(a))[0]], else_branch=lambda: [op17.neg(a)])
            else:
                r = list(f(a))[0]
            out.append(B.Case({"a": a, "c": c}, {"r": op17.add(r, top)}, False, {"mixed_versions": f"{where}/{tag}"}))
            if where in ("direct", "nested"):
                # ... and afterwards the SAME call built into a model of its own (nothing newer around it): the definition is the one
                # written in the body, not what the earlier build converted it to (a function's cached body must not be overwritten)
                again = B.Case({"a": a, "c": c}, {"r": r}, False, {"after_mixed_build": f"{where}/{tag}"})
                again.pre = ({"a": a, "c": c}, {"r": op17.add(r, top)}, False)
                out.append(again)
    return out


def deep_chain_cases():
    """Functions calling functions calling functions: chains of depth 3, 4 and 5 (Level_k calls Level_{k-1} and adds its own operator),
    called from the main graph, from an If branch, and twice; every level needs its definition, and the value is the composition."""
    import spox.opset.ai.onnx.v17 as op17
    from spox._function import to_function

    out = []
    for depth in (3, 4, 5):
        levels = []
        for k in range(depth):
            if k == 0:
                f = to_function(f"Level0_of{depth}", "verif.deep")(lambda x: [op17.add(x, op17.const(np.array(1.0, np.float32)))])
            else:
                def mk_body(prev, k):
                    return lambda x: [op17.mul(list(prev(x))[0], op17.const(np.array(float(k + 1), np.float32)))]

                f = to_function(f"Level{k}_of{depth}", "verif.deep")(mk_body(levels[-1], k))
            levels.append(f)
        top = levels[-1]
        a = B.argument(B.Tensor(np.float32, (2,)))
        c = B.argument(B.Tensor(np.bool_, ()))
        out.append(B.Case({"a": a, "c": c}, {"r": list(top(a))[0]}, False, {"deep_chain": f"depth-{depth}/main"}))
        a = B.argument(B.Tensor(np.float32, (2,)))
        c = B.argument(B.Tensor(np.bool_, ()))
        (r,) = op17.if_(c, then_branch=lambda: list(top(a)), else_branch=lambda: [op17.neg(a)])
        out.append(B.Case({"a": a, "c": c}, {"r": r, "s": list(top(r))[0]}, False, {"deep_chain": f"depth-{depth}/if-branch-and-main"}))
    return out


def signature_and_history_cases():
    """(a) a function with MANY inputs and outputs (12 / 11: positional binding of actuals to formals must follow the declaration order,
    not e.g. the lexicographic order of generated names in0, in1, in10, in11, in2 ...), called at two chained sites; (b) a to_function
    operator whose FIRST call raises (ill-typed argument inside the body / wrong number of arguments): the failed call is an error of
    that call only - a later valid call of the same operator builds and means its body."""
    import spox.opset.ai.onnx.v17 as op17
    from spox._function import to_function

    out = []
    def wide_body(x0, x1, x2, x3, x4, x5, x6, x7, x8, x9, x10, x11):
        xs = [x0, x1, x2, x3, x4, x5, x6, x7, x8, x9, x10, x11]
        return [op17.sub(xs[i], op17.mul(xs[i + 1], op17.const(np.array(float(i + 2), np.float32)))) for i in range(11)]

    wide = to_function("Wide", "verif.sig")(wide_body)
    args = {f"x{i:02d}": B.argument(B.Tensor(np.float32, (2,))) for i in range(12)}
    r1 = list(wide(*args.values()))
    r2 = list(wide(*(r1 + [args["x00"]])))
    out.append(B.Case(dict(args), {"a": r1[0], "b": r1[10], "c": r2[3], "d": r2[9]}, False, {"signature": "12-inputs-11-outputs"}))
    for how in ("ill-typed-argument", "too-few-arguments"):
        f = to_function("AddMul_" + how.replace("-", "_"), "verif.sig")(lambda x, y: [op17.mul(op17.add(x, y), x)])
        a, b = B.argument(B.Tensor(np.float32, (2,))), B.argument(B.Tensor(np.float32, (2,)))
        i64 = B.argument(B.Tensor(np.int64, (2,)))
        problems = []
        try:
            _ = f(a, i64) if how == "ill-typed-argument" else f(a)
            problems.append("setup: the ill-formed first call did not raise")
        except Exception:  # noqa: BLE001
            pass
        try:
            (r,) = list(f(a, b))
        except Exception as e:  # noqa: BLE001
            problems.append(f"a-valid-call-raises-after-a-failed-call: a valid call of a to_function operator raises {type(e).__name__} ({str(e)[:120]}) "
                            f"only because an earlier call of the same operator ({how}) had raised")
            r = a
        out.append(B.Case({"a": a, "b": b, "i": i64}, {"r": op17.add(r, b)}, False, {"after_failed_call": how, "intent_problems": problems}))
    return out


def run(run: Run) -> int:
    run.check_theorems(PROPS, CONE, thorough_coqchk=(run.tier == "thorough"))
    n = 200 if run.tier == "quick" else 2500
    g = GenF(run.rng, leak_p=0.05)
    cases = []
    for _ in range(n):
        ins, outs = g.program()
        cases.append(B.Case(ins, outs, False, {"intent_problems": list(g.intent_problems)}))
    cases += nested_varying_cases()
    for c in mixed_version_function_cases():
        B.run_impl(c)
        if c.meta.get("mixed_versions"):
            c.coq = None
        cases.append(c)
    cases += signature_and_history_cases()
    cases += deep_chain_cases()
    mism = B.correspondence(run, "c14", cases)
    nprng = np.random.RandomState(run.seed)
    hist = collections.Counter()
    n_bad = n_exec = 0
    distinct = set()
    for c in cases:
        keys = reachable_functions(list(c.outs.values()))
        varying = [k for k, bodies in keys.items() if len(bodies) > 1]
        hist[("model" if c.model_proto is not None else c.impl.split(" ")[1]) + (" varying" if varying else "") + (" funcs" if keys else "")] += 1
        probs = list(c.meta.get("intent_problems", []))
        if c.model_proto is not None:
            m = c.model_proto
            got = [(f.domain, f.name) for f in m.functions]
            if len(set(got)) != len(got):
                probs.append(f"duplicate function definitions {got}")
            if set(got) != set(keys):
                probs.append(f"ModelProto.functions {sorted(set(got))} != functions used {sorted(keys)}")
            if varying:
                probs.append(f"function {varying[0]} has two different bodies but build returned a model")
            for f in m.functions:
                need = {("" if n.domain == "ai.onnx" else n.domain) for n in f.node}
                have = {("" if i.domain == "ai.onnx" else i.domain) for i in f.opset_import}
                if not need <= have:
                    probs.append(f"function {f.name}: opset imports {have} do not cover node domains {need}")
            if c.meta.get("mixed_versions"):
                probs += [p for p in B.full_check(m)]
                default = {i.version for i in m.opset_import if i.domain in ("", "ai.onnx")}
                for f in m.functions:
                    fv = {i.version for i in f.opset_import if i.domain in ("", "ai.onnx")}
                    if fv != default:
                        probs.append(f"function {f.name}: imports ai.onnx {sorted(fv)} while the model imports {sorted(default)}")
            if keys:
                distinct.add(c.impl)
            n_exec += 1
            p = c01.semantic_oracle(c, nprng)
            if p:
                probs.append(p)
        elif c.meta.get("mixed_versions") or c.meta.get("after_mixed_build"):
            probs.append(f"mixed-version program with functions does not build: {c.impl}: {str(c.exc)[:160]}")
        elif varying and type(c.exc).__name__ != "RuntimeError" and c.impl in ("ERR RuntimeError",) is False and not c.impl.startswith("ERR "):
            probs.append("varying bodies not rejected")
        if probs:
            n_bad += 1
            key = "C14/wrong-value" if "!=" in probs[0] and "onnxruntime" in probs[0] else "C14/functions-mismatch" if "ModelProto.functions" in probs[0] else \
                "C14/varying-body-accepted" if "two different bodies" in probs[0] else "C14/" + probs[0].split(" ")[0]
            run.fail("impl", key, probs[0][:250], {"problems": probs[:4], "case": B.describe(c)})
    # non-vacuity of C14_call_means_body_for_legal_bodies: the decidable legality premise holds of EVERY function body of every model built
    withf = [c for c in cases if c.model_proto is not None and c.coq is not None and len(c.model_proto.functions) > 0]
    fprem = B.premise_eval(run, "c14legal", "FunLegalFacts", "fun_legal_build_req", [c.coq for c in withf])
    for c, ok in zip(withf, fprem):
        if not ok:
            run.fail("corr", "C14/legality-premise-not-met", "a function body of a model that builds does not satisfy the decidable legality "
                     "condition of C14_call_means_body_for_legal_bodies", B.describe(c))
            break
    for i in mism[:5]:
        run.fail("corr", f"C14/model-vs-impl/{i}", "model and implementation disagree (functions / bodies / imports / exception class)", B.describe(cases[i]))
    cov = {
        "evaluations": len(cases), "distinct_nontrivial": len(distinct),
        "rule": "random programs with 1-3 to_function operators (nested, repeated, called inside If/Loop/Scan bodies), some with a "
                "Python body that varies between calls; distinct built models by rendering; non-trivial = uses a function",
        "traces_validated_against_impl": len([c for c in cases if c.coq is not None]) - len(mism), "disagreements_checked": len(mism),
        "models_executed_ort_vs_numpy": n_exec,
        "legality_premise_met (C14_call_means_body_for_legal_bodies)": f"{sum(fprem)} of {len(withf)} built models with functions "
                                                                     f"({sum(len(c.model_proto.functions) for c in withf)} function bodies)", "direct_oracle_failures": n_bad,
        "input_distribution": {"outcomes": dict(hist), "operators": g.hist},
        "samples": [B.describe(c) for c in cases[:2]],
    }
    return run.finish(cov, [
        "A: onnxruntime executes FunctionProtos per the ONNX function semantics (call = inlined body)",
        "bodies closed over their parameters (an ONNX function cannot capture outer values)",
    ])


def replay(run: Run, case) -> int:
    print(json.dumps(case.get("detail"), indent=1)[:4000])
    return 1
