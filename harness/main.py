"""./check <Cxx> quick|thorough | ./check <Cxx> --replay <path> | ./check setup | ./check all [tier]"""

import importlib
import json
import os
import sys
import traceback

sys.path.insert(0, os.environ.get("VERIF_ROOT") or os.path.dirname(os.path.dirname(os.path.abspath(__file__))))
from harness.common import Run, sh, COQ, NPROC  # noqa: E402


def main(argv):
    if not argv:
        print(__doc__)
        return 2
    if argv[0] == "setup":
        r = Run("SETUP", "quick", 0)
        ok = r.coq_build(timeout=3000)
        print(r.build_log[-3000:])
        if not ok:
            print("setup: stale/broken files:", r.build_failed_files)
            return 1
        from harness import selftest
        return selftest.run()
    pid = argv[0].upper()
    seed = int(os.environ.get("VERIF_SEED", "0") or 0)
    if len(argv) >= 3 and argv[1] == "--replay":
        mod = importlib.import_module(f"harness.{pid.lower()}")
        case = json.load(open(argv[2]))
        run = Run(pid, "quick", seed)
        try:
            return mod.replay(run, case)
        finally:
            run.cleanup()
    tier = argv[1] if len(argv) > 1 else os.environ.get("VERIF_TIER", "quick")
    if tier not in ("quick", "thorough"):
        tier = "quick"
    mod = importlib.import_module(f"harness.{pid.lower()}")
    run = Run(pid, tier, seed)
    try:
        return mod.run(run)
    except Exception:
        # a crash of the machinery is never silently a pass
        tb = traceback.format_exc()
        print(tb)
        run.fail("proof", "harness-crash", "the check machinery crashed", tb[-3000:])
        return run.finish({"explanation": "harness crashed; see failure detail"})
    finally:
        run.cleanup()


if __name__ == "__main__":
    sys.exit(main(sys.argv[1:]))
