"""C11 — every shipped operator constructor conforms to its ONNX schema (980 operator/module pairs, exhaustive).

TRANSLATOR MODE.  Model + checker: coq/Sig.v; generic theorems: coq/SigFacts.v, coq/props/C11.v.  On every run
harness/c11_dump.py regenerates the DATA from the current tree (reflection + behavioural observation of every
constructor through the real Node.to_onnx) and from onnx.defs, writes one SigsGen_<module>.v per module into the run's
scratch directory and compiles them in parallel: each proves ``check_all excused table schemas = true`` by vm_compute
and instantiates the lifted theorems.  ``excused`` is regenerated from known_findings.json (explicit data of the
theorem; a new deviation still fails).  Every failing key is a concrete failing input:
``C11/<module>/<Operator>/<sub-check>[/<field>]``.

Direct oracle independent of the Coq path: every observed NodeProto (built through the public constructor) is handed to
``onnx.checker.check_node`` at the module's opset.
"""

from __future__ import annotations

import json
import re
import time
from pathlib import Path

from harness import c11_dump as D
from harness.common import COQ, NPROC, Run, parse_coq_list, parse_coq_string, parse_evals, sh

CONE = ["Sig.v", "SigFacts.v"]
PROPS = "props/C11.v"

WHAT = {
    "name": "op_type identifier / _OPERATORS key differs from the schema name",
    "domain": "op_type domain differs from the schema's domain",
    "since-version": "op_type version is not the since-version of the schema in force at the module's version",
    "unclassifiable": "the translator could not classify a fact of this operator (fail-closed)",
    "deprecated": "the schema in force at the module's version is deprecated: ONNX rejects every node of this operator",
    "inputs": "Inputs fields (names, order, Single/Optional/Variadic) differ from the schema's inputs",
    "outputs": "Outputs fields (names, order, Single/Optional/Variadic) differ from the schema's outputs",
    "attributes": "attribute missing / superfluous / of another kind / with another requiredness than in the schema",
    "defaults": "the constructor's default differs from the schema's default",
    "signature": "constructor parameters are not the schema's inputs (positional, in order) and attributes (keyword-only)",
    "emission": "the NodeProto emitted for an argument pattern is not the one the schema prescribes",
    "coverage": "not every argument pattern could be observed",
    "completeness": "a non-deprecated schema of the module's version has no shipped constructor",
    "schema-missing": "no ONNX schema of this name is in force at the module's version",
    "module": "module-level tables are inconsistent",
}


def excused_for(run: Run, label: str):
    pre = f"C11/{label}/"
    return sorted({e["key"][len(pre):] for e in run.known.get("findings", [])
                   if e.get("property") == "C11" and str(e.get("key", "")).startswith(pre)})


def compile_generated(run: Run, files, timeout=600):
    listing = "\n".join(str(f) for f in files)
    sc = files[0].parent
    cmd = (f"xargs -P{NPROC} -I{{}} sh -c 'ulimit -s unlimited; timeout {timeout} coqc -R {COQ} Spox -R {sc} Gen {{}} "
           f"> {{}}.out 2>&1; echo $? > {{}}.rc'")
    sh(cmd, input=listing, timeout=timeout + 60)
    res = {}
    for f in files:
        out = Path(str(f) + ".out").read_text(errors="replace") if Path(str(f) + ".out").exists() else ""
        rc = Path(str(f) + ".rc").read_text().strip() if Path(str(f) + ".rc").exists() else "?"
        res[f] = (rc, out)
    return res


def parse_obs_list(term: str):
    out = []
    for item in parse_coq_list(term):
        m = re.match(r'^\((".*?(?<!")"(?!")), (".*?(?<!")"(?!")), (\[.*\])\)$', item, re.S)
        if not m:
            continue
        out.append((parse_coq_string(m.group(1)), parse_coq_string(m.group(2)),
                    [parse_coq_string(x) for x in parse_coq_list(m.group(3))]))
    return out


def check_module(rc, out, n_entries):
    """-> (ok_theorems, failing_keys or None, failing_obs, problem or None)"""
    ev = parse_evals(out)
    if len(ev) < 3:
        return 0, None, [], "the generated file did not get as far as the evaluation of the checker:\n" + out[-1500:]
    try:
        n_coq = int(ev[0].split("%")[0])
        keys = [parse_coq_string(x) for x in parse_coq_list(ev[1])]
        fobs = parse_obs_list(ev[2])
    except Exception as e:  # noqa: BLE001
        return 0, None, [], f"cannot parse coqc output ({type(e).__name__}): {ev[:3]!r}"[:1500]
    if n_coq != n_entries:
        return 0, keys, fobs, f"table has {n_coq} entries in Coq but the translator dumped {n_entries}"
    closed = out.count("Closed under the global context")
    ok = D.GEN_THEOREMS_PER_MODULE if (rc == "0" and closed == D.GEN_THEOREMS_PER_MODULE) else 0
    problem = None
    if rc == "0" and closed != D.GEN_THEOREMS_PER_MODULE:
        problem = f"Print Assumptions audit: {closed} closed of {D.GEN_THEOREMS_PER_MODULE}:\n" + out[-1200:]
    return ok, keys, fobs, problem


def entry_view(e):
    """Shipped facts of an entry without the bulk of observations."""
    v = {k: e[k] for k in ("key", "name", "domain", "since", "inputs", "outputs", "attrs", "ret", "bad")}
    v["params"] = [{**p, "default": list(p["default"])} for p in e["params"]]
    return v


def obs_view(o):
    return {k: o.get(k) for k in ("label", "mode", "raised", "error", "args", "given", "ret", "optype", "domain", "in", "out", "attr")
            if o.get(k) not in (None, "")}


def detail_for(d, key, fobs):
    """Concrete failing input for one failing key of module dump ``d``."""
    parts = key.split("/")
    op, sub = parts[0], parts[1] if len(parts) > 1 else ""
    field = "/".join(parts[2:]) if len(parts) > 2 else None
    e = next((x for x in d["entries"] if x["key"] == op), None)
    s = next((x for x in d["schemas"] if x["name"] == op), None)
    det = {"module": d["label"], "operator": op, "sub_check": sub, "field": field, "key_in_module": key}
    if sub in ("attributes", "defaults") and field is not None:
        det["observed"] = {
            "attribute_field": next((a for a in (e["attrs"] if e else []) if a["name"] == field), None),
            "constructor_parameter": next(({**p, "default": list(p["default"])} for p in (e["params"] if e else []) if p["name"] == field), None),
        }
        det["schema"] = next((a for a in (s["attrs"] if s else []) if a["name"] == field), None)
    elif sub == "emission":
        bad = [(lbl, ks) for (o_, lbl, ks) in fobs if o_ == op and any(k == "/".join(parts[1:]) for k in ks)]
        labels = [lbl for lbl, _ in bad]
        det["failing_patterns"] = labels
        first = next((o for o in (e["obs"] if e else []) if D.esc(o["label"]) in labels), None)
        det["observed"] = obs_view(first) if first else None
        det["schema"] = {k: s[k] for k in ("name", "domain", "since", "inputs", "outputs", "min_in", "min_out")} if s else None
        det["how_to_read"] = ("args: what was passed per positional parameter (sentinel names i<k>); in/out/attr: the NodeProto "
                              "from Node.to_onnx; expected in = args flattened, inner omitted optionals '', trailing ones dropped "
                              "down to min_in; raised: the constructor (or to_onnx) raised for this pattern in all three modes "
                              "(untyped sentinels, typed sentinels, typed with the class' inference disabled)")
    else:
        det["observed"] = entry_view(e) if e else None
        det["schema"] = {k: v for k, v in s.items()} if s else None
    return det


def oracle_check_nodes(run: Run, dumps):
    """Direct oracle: onnx.checker.check_node on every NodeProto the public constructors produced."""
    import onnx
    import onnx.checker

    n, bad = 0, {}
    for d in dumps:
        ctx = onnx.checker.C.CheckerContext()
        ctx.ir_version = onnx.IR_VERSION
        ctx.opset_imports = {d["domain"]: d["version"]} if d["domain"] == "" else {d["domain"]: d["version"], "": 17}
        for e in d["entries"]:
            sch = next((x for x in d["schemas"] if x["name"] == e["key"]), None)
            for o in e["obs"]:
                if o["raised"] or "_proto" not in o:
                    continue
                if sch is not None and (len(o["in"]) < sch["min_in"] or len(o["out"]) < sch["min_out"]):
                    continue  # pattern outside the schema's arity (variadic of length 0): nothing to conform to
                n += 1
                try:
                    onnx.checker.check_node(o["_proto"], ctx)
                except Exception as ex:  # noqa: BLE001
                    msg = str(ex).split("\n")[0][:200]
                    k = (d["label"], e["key"], "deprecated" if "deprecated" in msg else "checker")
                    bad.setdefault(k, {"message": msg, "patterns": [], "node": None})
                    bad[k]["patterns"].append(o["label"])
                    if bad[k]["node"] is None:
                        bad[k]["node"] = str(o["_proto"])[:1500]
    return n, bad


def run_modules(run: Run, modules, n_random):
    """Dump, generate, compile.  -> (dumps, per-module results)"""
    t0 = time.time()
    D.SHARED_FAILS.clear()
    D.FALSY_FAILS.clear()
    dumps = [D.dump_module(lab, mod, dom, ver, run.rng, n_random) for lab, mod, dom, ver in modules]
    for sf in D.SHARED_FAILS[:40]:
        run.fail("impl", f"C11/{sf['module'].replace('spox.opset.', '')}/{sf['operator']}/emission/inputs-shared-var",
                 f"{sf['operator']}: with one Var passed to several slots the emitted inputs {sf['emitted_inputs']} differ from the prescribed {sf['prescribed_inputs']}", sf)
    for ff in D.FALSY_FAILS[:40]:
        run.fail("impl", f"C11/{ff['module'].replace('spox.opset.', '')}/{ff['operator']}/emission/falsy-optional-input-accepted",
                 f"{ff['operator']}: the optional input {ff['input']} given as {ff['value']} (neither None nor a Var) is accepted: the slot "
                 "disappears and later operands land in the wrong schema slots", ff)
    t_dump = time.time() - t0
    sc = run.scratch() / "gen"
    sc.mkdir(parents=True, exist_ok=True)
    files = {}
    for d in dumps:
        f = sc / f"SigsGen_{D.ident(d['label'])}.v"
        f.write_text(D.render_module(d, excused_for(run, d["label"])))
        files[d["label"]] = f
    t1 = time.time()
    res = compile_generated(run, list(files.values()))
    t_coq = time.time() - t1
    return dumps, files, res, t_dump, t_coq


def run(run: Run) -> int:
    # (common.check_theorems' own coqchk option compiles the copy under the wrong logical name; coqchk is run below instead)
    run.check_theorems(PROPS, CONE, thorough_coqchk=False)
    n_random = 2 if run.tier == "quick" else 40
    import spox

    from harness.common import REPO

    tree = str(Path(spox.__file__).resolve())
    if not tree.startswith(str((REPO / "src").resolve())):
        run.fail("proof", "C11/wrong-tree", "spox was not imported from the tree under verification", {"spox": tree, "VERIF_REPO": str(REPO)})
    dumps, files, res, t_dump, t_coq = run_modules(run, D.MODULES, n_random)
    gen_ok = 0
    gen_total = D.GEN_THEOREMS_PER_MODULE * len(dumps)
    per_module, all_keys, n_obs, n_obs_ok = {}, [], 0, 0
    hist_modes, hist_patterns = {}, {}
    generated = []
    for d in dumps:
        label = d["label"]
        rc, out = res[files[label]]
        n_entries = len(d["entries"]) + (1 if d["bad"] else 0)
        ok, keys, fobs, problem = check_module(rc, out, n_entries)
        excused = excused_for(run, label)
        m = D.ident(label)
        generated += [f"all_conform_{m}", f"all_conform_lifted_{m}", f"complete_{m}"]
        obs_here = sum(len(e["obs"]) for e in d["entries"])
        n_obs += obs_here
        for k, v in d["stats"].items():
            hist_modes[k] = hist_modes.get(k, 0) + v
        for e in d["entries"]:
            for o in e["obs"]:
                c = re.sub(r"[{:=+].*$", "", o["label"]).rstrip("0123456789")
                hist_patterns[c] = hist_patterns.get(c, 0) + 1
        if problem:
            run.fail("proof", f"C11/generated/{label}", "the generated table file did not check as expected", problem)
        uniq = []
        for k in keys or []:
            if k not in uniq:
                uniq.append(k)
        n_obs_ok += obs_here - len(fobs)
        unexcused = [k for k in uniq if k not in excused]
        if keys is not None and not problem:
            if rc == "0" and unexcused:
                run.fail("proof", f"C11/inconsistent/{label}", "theorem checked although unexcused failing keys exist", unexcused[:20])
            if rc != "0" and not unexcused:
                run.fail("proof", f"C11/generated/{label}", "the generated theorem failed although every failing key is excused",
                         out[-1500:])
        gen_ok += ok
        # an entry the translator could not even classify (missing from a table, unreadable class, ...) fails every other
        # sub-check as a consequence: report the root cause only
        broken_ops = {k.split("/")[0] for k in uniq if k.endswith("/unclassifiable") and k not in excused}
        reported = [k for k in uniq if k.split("/")[0] not in broken_ops or k.endswith("/unclassifiable")]
        for k in reported:
            sub = k.split("/")[1] if "/" in k else k
            what = f"{label} {k.split('/')[0]}: {WHAT.get(sub, sub)}" + (f" [{'/'.join(k.split('/')[2:])}]" if k.count("/") >= 2 else "")
            det = detail_for(d, k, fobs)
            if sub == "attributes" and isinstance(det.get("observed"), dict):
                if det["observed"].get("attribute_field") is None:
                    what = f"{label} {k.split('/')[0]}: schema attribute {det['field']} has no counterpart in the shipped Attributes / constructor"
                elif det.get("schema") is None:
                    what = f"{label} {k.split('/')[0]}: shipped attribute {det['field']} is not an attribute of the schema"
            if sub == "unclassifiable":
                reasons = list((det.get("observed") or {}).get("bad") or []) + list((det.get("schema") or {}).get("bad") or [])
                what += ": " + "; ".join(reasons)[:300]
                det["consequential_keys_suppressed"] = [x for x in uniq if x.split("/")[0] == k.split("/")[0] and x != k]
            if sub == "emission" and det.get("failing_patterns"):
                what += f" (patterns: {', '.join(det['failing_patterns'][:4])}{' ...' if len(det['failing_patterns']) > 4 else ''})"
            det["replay_hint"] = "./check C11 --replay <this file> re-dumps the module from the current tree and re-evaluates the checker"
            run.fail("impl", f"C11/{label}/{k}", what, det)
            all_keys.append(f"C11/{label}/{k}")
        stale = [k for k in excused if k not in uniq]
        per_module[label] = {"entries": len(d["entries"]), "schemas": len(d["schemas"]), "observations": obs_here,
                             "failing_keys": uniq, "excused": excused, "excused_but_not_failing": stale,
                             "generated_theorems_checked": ok, "coqc_rc": rc}
        if stale:
            run.notes.append(f"{label}: known-finding keys no longer failing (fixed?): {stale}")
    run.obligations += gen_total
    run.discharged += gen_ok
    if run.tier == "thorough":
        # independent re-check of the compiled theorem files (generic + generated) by coqchk
        t3 = time.time()
        sc = run.scratch() / "gen"
        libs = ["Spox.props.C11"] + [f"Gen.{files[d['label']].stem}" for d in dumps if res[files[d['label']]][0] == "0"]
        listing = "\n".join(libs)
        sh(f"xargs -P{NPROC} -I{{}} sh -c 'timeout 900 coqchk -silent -o -R {COQ} Spox -R {sc} Gen {{}} > {sc}/{{}}.chk 2>&1; "
           f"echo $? > {sc}/{{}}.chkrc'", input=listing, timeout=960)
        chk = {}
        for lib in libs:
            rcf = sc / f"{lib}.chkrc"
            chk[lib] = rcf.read_text().strip() if rcf.exists() else "?"
            if chk[lib] != "0":
                out_f = sc / f"{lib}.chk"
                run.fail("proof", f"C11/coqchk/{lib}", "coqchk rejected a compiled theorem file",
                         out_f.read_text(errors="replace")[-1500:] if out_f.exists() else "")
        run.cov["coqchk"] = {"libraries": chk, "wall_s": round(time.time() - t3, 1)}
    # direct oracle
    t2 = time.time()
    n_checked, bad = oracle_check_nodes(run, dumps)
    t_oracle = time.time() - t2
    for (label, op, kind), info in sorted(bad.items()):
        key = f"C11/{label}/{op}/deprecated" if kind == "deprecated" else f"C11/{label}/{op}/checker"
        run.fail("impl", key, f"{label} {op}: onnx.checker.check_node rejects the node built by the public constructor: {info['message']}",
                 {"module": label, "operator": op, "sub_check": kind, "oracle": "onnx.checker.check_node", **info})
    total_entries = sum(len(d["entries"]) for d in dumps)
    samples = []
    for d in dumps[:1] + dumps[-1:]:
        for e in d["entries"][:40]:
            if len(e["obs"]) >= 4 and len(samples) < 4:
                samples.append({"module": d["label"], "operator": e["key"], "observation": obs_view(e["obs"][min(3, len(e["obs"]) - 1)])})
    nontrivial = set()
    for d in dumps:
        for e in d["entries"]:
            for o in e["obs"]:
                if not o["raised"] and (len(o["in"]) + len(o["attr"])) >= 1:
                    nontrivial.add((d["label"], e["key"], json.dumps([o["args"], o["given"]], default=str)))
    cov = {
        "exhaustive": True,
        "tree_under_verification": tree,
        "entries": total_entries,
        "expected_entries_on_pinned_tree": 980,
        "evaluations": n_obs,
        "distinct_nontrivial": len(nontrivial),
        "rule": "every (module, operator) pair of the 8 shipped modules (finite, enumerated completely from _OPERATORS/_CONSTRUCTORS); "
                "per pair the constructor is called for: all defaults, every subset of optional inputs, each optional attribute alone "
                "(with and without the optional inputs), all attributes together, variadic lengths 0-3, plus random subsets "
                f"({n_random} per operator); distinct by (module, operator, arguments passed); non-trivial = observed and "
                "at least one input or attribute emitted",
        "traces_validated_against_impl": n_obs_ok,
        "disagreements_checked": len(all_keys),
        "generated_theorems": generated,
        "generated_theorems_checked": gen_ok,
        "per_module": per_module,
        "oracle_check_node": {"nodes_checked": n_checked, "rejected": len(bad)},
        "input_distribution": {"observation_mode": hist_modes, "pattern_class": hist_patterns,
                               "entries_per_module": {d["label"]: len(d["entries"]) for d in dumps}},
        "timing_s": {"dump": round(t_dump, 1), "coq_generated": round(t_coq, 1), "oracle": round(t_oracle, 1)},
        "samples": samples,
        "checker_cmd_generated": "coqc -R /verif/coq Spox -R <scratch>/gen Gen SigsGen_<module>.v  (per module, in parallel; "
                                 "regenerated by harness/c11_dump.py on every run)",
    }
    if total_entries != 980:
        run.notes.append(f"the tree ships {total_entries} operator/module pairs (980 on the pinned tree)")
    return run.finish(cov, [
        "harness/c11_dump.py reads the facts it prints from the live objects correctly (reflection on dataclasses / inspect.signature) "
        "and renders attribute values injectively (float32 bit patterns, tensors as dtype+shape+sha256 prefix)",
        "sentinel naming: a Var passed at position k is named i<k>; the k-th returned Var o<k>; Node.to_onnx is the real one, "
        "called with a hand-made Scope",
        "observation uses untyped sentinel Vars (no ONNX inference is triggered); for the few constructors that need types, typed "
        "sentinels, and as last resort the class' infer_output_types/propagate_values are replaced by no-ops during the call",
        "attributes: each optional attribute is observed absent / alone / all together and on random subsets; all 2^n subsets "
        "follow only under field-wise independence of the generated constructors (theorem C11_attrs_subsets_from_singletons "
        "about the model; validated, not proved, for the Python code)",
        "schemas are those of the installed onnx package (onnx.defs)",
    ])


def replay(run: Run, case) -> int:
    det = case.get("detail") or {}
    label, key = det.get("module"), det.get("key_in_module")
    if label is None:
        print("replay: no module in the case")
        return 2
    if key is None:
        key = f"{det.get('operator')}/{det.get('sub_check')}"
    mods = [m for m in D.MODULES if m[0] == label]
    # replays are evaluated with NO exceptions listed
    run.known = {"findings": [], "fixed": []}
    dumps, files, res, _, _ = run_modules(run, mods, 0)
    d = dumps[0]
    rc, out = res[files[label]]
    _ok, keys, fobs, problem = check_module(rc, out, len(d["entries"]) + (1 if d["bad"] else 0))
    print(f"module {label}: {len(d['entries'])} entries re-dumped from the current tree; coqc rc={rc}")
    if problem:
        print("problem:", problem)
    still = False
    if det.get("oracle"):
        _n, bad = oracle_check_nodes(run, dumps)
        hit = {k: v for k, v in bad.items() if k[1] == det.get("operator")}
        still = bool(hit)
        for k, v in hit.items():
            print("onnx.checker.check_node rejects:", k, v["message"], "patterns:", v["patterns"][:5])
            print(v["node"])
    else:
        still = keys is None or key in keys
        nd = detail_for(d, key, fobs)
        print("failing key     :", key, "->", "STILL FAILING" if still else "no longer failing")
        print("operator        :", nd["operator"], " sub-check:", nd["sub_check"], " field:", nd["field"])
        print("observed (spox) :", json.dumps(nd.get("observed"), default=str)[:3000])
        print("schema (onnx)   :", json.dumps(nd.get("schema"), default=str)[:3000])
        if nd.get("failing_patterns"):
            print("failing patterns:", nd["failing_patterns"][:20])
        print("all failing keys of the module now:", sorted(set(keys or []))[:40])
    if still:
        print(f"VIOLATION property=C11 replay={run.pid}")
    return 1 if still else 0
