"""C06 helper — the operators with spox-side output-type routines: case generation, the real constructor call,
the Gallina terms of the model (Infer.v) and the one-operator models for the runtime oracle.

Type descriptor (TD):  None = untyped Var | ("S",) = a Sequence type | ("T", elem, shape) with elem a key of ELEMS and
shape = None (unknown rank) or a tuple of int | str | None.
"""

from __future__ import annotations

import itertools

import numpy as np

ELEMS = {  # name -> (numpy scalar type, Gallina constructor, dtype name reported by the runtime worker)
    "f32": (np.float32, "F32", "float32"),
    "f64": (np.float64, "F64", "float64"),
    "f16": (np.float16, "F16", "float16"),
    "i64": (np.int64, "I64", "int64"),
    "i32": (np.int32, "I32", "int32"),
    "i8": (np.int8, "I8", "int8"),
    "u8": (np.uint8, "U8", "uint8"),
    "str": (np.str_, "Str", "str"),
    "bool": (np.bool_, "Bool_", "bool"),
}
NP2ELEM = {v[0]: k for k, v in ELEMS.items()}
RT2COQ = {v[2]: v[1] for v in ELEMS.values()}
ERR = {"InferenceError": "EInference", "TypeError": "EType", "ValueError": "EValue"}


# ------------------------------------------------------------------------------------------------ descriptors


def td_to_spox(td):
    from spox import Sequence, Tensor

    if td is None:
        return None
    if td[0] == "S":
        return Sequence(Tensor(np.float32, (2,)))
    return Tensor(ELEMS[td[1]][0], td[2])


def td_of_type(t):
    from spox import Tensor

    if t is None:
        return None
    if isinstance(t, Tensor):
        return ("T", NP2ELEM.get(t.dtype.type, f"?{t.dtype}"), None if t.shape is None else tuple(t.shape))
    return ("S",)


def make_var(td, name="x"):
    """A Var whose reported type is the descriptor (not necessarily buildable)."""
    from spox import Tensor
    from spox._graph import arguments

    if td is None:
        (v,) = arguments(**{name: Tensor(np.float32, (1,))})
        v.type = None
        return v
    (v,) = arguments(**{name: td_to_spox(td)})
    return v


def coq_dim(d):
    if d is None:
        return "DUnk"
    if isinstance(d, str):
        return f'(DNamed "{d}")'
    return f"(DConst {int(d)})"


def coq_shape(s):
    return "None" if s is None else "(Some [" + "; ".join(coq_dim(d) for d in s) + "])"


def coq_ity(td):
    if td is None:
        return "None"
    if td[0] == "S":
        return "(Some (NonTensor true))"
    return f"(Some (Tensor {ELEMS[td[1]][1]} {coq_shape(td[2])}))"


def coq_ty(td):
    assert td is not None
    if td[0] == "S":
        return "(NonTensor true)"
    return f"(Tensor {ELEMS[td[1]][1]} {coq_shape(td[2])})"


def coq_optN(n):
    return "None" if n is None else f"(Some {int(n)})"


def coq_val(dtype_name, shape):
    return f"({RT2COQ.get(dtype_name, 'F16')}, [" + "; ".join(str(int(d)) for d in shape) + "])"


def norm(term: str) -> str:
    """Canonical form of a printed Gallina term / of our own rendering: no blanks, parentheses or scope marks."""
    for junk in ("%N", "%Z", "%string", "%nat", "%list"):
        term = term.replace(junk, "")
    return "".join(ch for ch in term if ch not in " \n\t()")


def render_types(tds) -> str:
    return norm("Ok [" + "; ".join(coq_ity(t) for t in tds) + "]")


def render_err(cls: str) -> str:
    return norm("Err " + ERR.get(cls, "E_" + cls))


def conforms_py(dtype_name, shape, td) -> str | None:
    """None if the runtime value conforms to the reported type, else the kind of mismatch (mechanism for the key)."""
    if td is None:
        return None
    if td[0] != "T":
        return "nontensor"
    if ELEMS[td[1]][2] != dtype_name:
        return "output-dtype"
    if td[2] is None:
        return None
    if len(td[2]) != len(shape):
        return "output-rank"
    for k, (n, d) in enumerate(zip(shape, td[2])):
        if isinstance(d, int) and not isinstance(d, bool) and d != n:
            return f"output-dim-{k}"
    return None


# ------------------------------------------------------------------------------------------------ generation

DIMS = [1, 2, 3, 4, 5, None, None, "N", "M"]


def gen_shape(rng, ranks=(0, 1, 2, 3), p_unknown_rank=0.08):
    if rng.random() < p_unknown_rank:
        return None
    r = rng.choice(ranks)
    return tuple(rng.choice(DIMS) for _ in range(r))


def gen_td(rng, elems, ranks=(0, 1, 2, 3), p_untyped=0.04, p_seq=0.04, p_unknown_rank=0.08):
    u = rng.random()
    if u < p_untyped:
        return None
    if u < p_untyped + p_seq:
        return ("S",)
    return ("T", rng.choice(elems), gen_shape(rng, ranks, p_unknown_rank))


ALL = list(ELEMS)
NUM4 = ["f32", "f64", "i64", "i32"]


def _lst(n, v):
    return None if n is None else [v] * n


TREE_NODES = dict(
    nodes_falsenodeids=[2, 0, 0], nodes_featureids=[0, 0, 0], nodes_hitrates=[1.0, 1.0, 1.0],
    nodes_missing_value_tracks_true=[0, 0, 0], nodes_modes=["BRANCH_LEQ", "LEAF", "LEAF"], nodes_nodeids=[0, 1, 2],
    nodes_treeids=[0, 0, 0], nodes_truenodeids=[1, 0, 0], nodes_values=[0.5, 0.0, 0.0], post_transform="NONE",
)


def gen_case(rng, opname):
    """One generated constructor call: {'op', 'ins': [TD], 'attrs': {...}} (attrs hold only what matters)."""
    w = rng.random()
    if opname == "ArrayFeatureExtractor":
        x = gen_td(rng, ["f32", "f32", "f64", "i64", "i32", "str", "bool"])
        y = gen_td(rng, ["i64", "i64", "i64", "i32", "f32"], ranks=(1, 1, 1, 0, 2), p_unknown_rank=0.05)
        return {"op": opname, "ins": [x, y], "attrs": {}}
    if opname == "Binarizer":
        return {"op": opname, "ins": [gen_td(rng, ["f32", "f32", "f64", "i64", "i32", "str", "bool", "f16"])],
                "attrs": {"threshold": rng.choice([0.0, 0.5, -1.0])}}
    if opname == "CategoryMapper":
        n1 = rng.choice([None, 0, 1, 2, 2, 3, 3])
        n2 = rng.choice([None, n1, n1, n1, 1, 2, 3])
        return {"op": opname, "ins": [gen_td(rng, ["i64", "i64", "str", "str", "f32", "i32", "bool"])],
                "attrs": {"cats_int64s": n1, "cats_strings": n2}}
    if opname == "Imputer":
        nf = rng.choice([None, None, 1, 1, 2, 3, 4])
        ni = rng.choice([None, None, None, 1, 2, 3]) if nf is not None else rng.choice([None, 1, 1, 2, 3, 4])
        return {"op": opname, "ins": [gen_td(rng, ["f32", "f32", "i64", "i64", "f64", "i32", "str"])],
                "attrs": {"imputed_value_floats": nf, "imputed_value_int64s": ni}}
    if opname == "LinearRegressor":
        targets = rng.choice([1, 1, 2, 3])
        feats = rng.choice([1, 2, 3, 4, 5])
        return {"op": opname, "ins": [gen_td(rng, ["f32", "f32", "f32", "f64", "i64", "i32", "str"], ranks=(0, 1, 2, 2, 2, 3))],
                "attrs": {"targets": targets, "features": feats, "intercepts": rng.random() < 0.7}}
    if opname == "Normalizer":
        return {"op": opname, "ins": [gen_td(rng, ["f32", "f32", "f64", "i64", "i32", "str", "bool"], ranks=(0, 1, 2, 2, 2, 3))],
                "attrs": {"norm": rng.choice(["MAX", "L1", "L2", "L2", "max", "L3", ""])}}
    if opname == "OneHotEncoder":
        ni = rng.choice([None, None, 0, 1, 2, 3])
        ns = rng.choice([None, 1, 2, 3]) if (ni is None or w < 0.15) else None
        return {"op": opname, "ins": [gen_td(rng, ["i64", "i64", "str", "f32", "f64", "i32", "bool"])],
                "attrs": {"cats_int64s": ni, "cats_strings": ns, "zeros": 1}}
    if opname == "Scaler":
        ns = rng.choice([None, 1, 1, 2, 3, 3, 4])
        no = rng.choice([None, ns, ns, ns, 1, 3]) if ns is not None else rng.choice([None, 1])
        return {"op": opname, "ins": [gen_td(rng, ["f32", "f32", "f64", "i64", "i32", "str", "bool"], p_unknown_rank=0.12)],
                "attrs": {"scale": ns, "offset": no}}
    if opname == "TreeEnsembleClassifier":
        kind = rng.choice(["int", "int", "str", "str", "both", "none"])
        nl = rng.choice([2, 2, 3])
        li = nl if kind in ("int", "both") else None
        ls = (nl if kind == "str" else rng.choice([2, 3])) if kind in ("str", "both") else None
        e = ls if ls is not None else li
        votes = rng.choice(["per-leaf", "per-leaf", "all-classes", "none", "three"])
        if e is None or votes == "none":
            ids = None
        elif votes == "per-leaf":
            ids = [0, 1]
        elif votes == "three":
            ids = [0, 1, 0]
        else:
            ids = list(range(e)) * 2
        return {"op": opname, "ins": [gen_td(rng, ["f32", "f32", "f32", "f64", "i64", "i32", "str"], ranks=(2, 2, 2, 2, 1, 0, 3),
                                             p_unknown_rank=0.15)],
                "attrs": {"class_ids": ids, "classlabels_int64s": li, "classlabels_strings": ls, "tree": rng.random() < 0.85}}
    if opname == "TreeEnsembleRegressor":
        nt = rng.choice([None, 1, 1, 2, 3])
        return {"op": opname, "ins": [gen_td(rng, ["f32", "f32", "f32", "f64", "i64", "i32", "str"], ranks=(2, 2, 2, 2, 1, 0, 3),
                                             p_unknown_rank=0.15)],
                "attrs": {"n_targets": nt, "tree": rng.random() < 0.85}}
    if opname == "Compress":
        x = gen_td(rng, ["f32", "f32", "i64", "str", "bool", "f64"], p_untyped=0.03, p_seq=0.03)
        c = gen_td(rng, ["bool", "bool", "bool", "bool", "i64", "f32"], ranks=(1, 1, 1, 1, 0, 2), p_untyped=0.03, p_seq=0.03,
                   p_unknown_rank=0.06)
        return {"op": opname, "ins": [x, c], "attrs": {"axis": rng.choice([None, None, 0, 1, -1, 2, -2, -3, 3])}}
    raise KeyError(opname)


ML_OPS = ["ArrayFeatureExtractor", "Binarizer", "CategoryMapper", "Imputer", "LinearRegressor", "Normalizer",
          "OneHotEncoder", "Scaler", "TreeEnsembleClassifier", "TreeEnsembleRegressor"]
OPS = ML_OPS + ["Compress"]

# minimal inputs that exercised past failures (run first)
CORPUS = [
    {"op": "LinearRegressor", "ins": [("T", "f32", (3, 4))], "attrs": {"targets": 2, "features": 4, "intercepts": True}},
    {"op": "LinearRegressor", "ins": [("T", "f32", (4,))], "attrs": {"targets": 2, "features": 4, "intercepts": True}},
    {"op": "LinearRegressor", "ins": [("T", "f32", (None, None))], "attrs": {"targets": 2, "features": 3, "intercepts": False}},
    {"op": "Normalizer", "ins": [("T", "f64", (3, 4))], "attrs": {"norm": "L2"}},
    {"op": "Normalizer", "ins": [("T", "i64", (None, 4))], "attrs": {"norm": "MAX"}},
    {"op": "Normalizer", "ins": [("T", "f32", ("N", 4))], "attrs": {"norm": "L1"}},
    {"op": "TreeEnsembleClassifier", "ins": [("T", "f32", (None, 3))],
     "attrs": {"class_ids": [0, 1, 0, 1], "classlabels_int64s": 2, "classlabels_strings": None, "tree": True}},
    {"op": "TreeEnsembleClassifier", "ins": [("T", "f32", (None, 3))],
     "attrs": {"class_ids": [0, 1], "classlabels_int64s": None, "classlabels_strings": 2, "tree": True}},
    {"op": "ArrayFeatureExtractor", "ins": [("T", "f32", (5,)), ("T", "i64", (3,))], "attrs": {}},
    {"op": "ArrayFeatureExtractor", "ins": [("T", "f64", ("N", 5)), ("T", "i64", (None,))], "attrs": {}},
    {"op": "OneHotEncoder", "ins": [("T", "i64", (None, 2))], "attrs": {"cats_int64s": 3, "cats_strings": 2, "zeros": 1}},
    {"op": "OneHotEncoder", "ins": [("T", "str", (2,))], "attrs": {"cats_int64s": None, "cats_strings": 2, "zeros": 1}},
    {"op": "Scaler", "ins": [("T", "i64", (None, 3))], "attrs": {"scale": 3, "offset": 3}},
    {"op": "Scaler", "ins": [("T", "f64", None)], "attrs": {"scale": 1, "offset": 1}},
    {"op": "Imputer", "ins": [("T", "f32", (None, 3))], "attrs": {"imputed_value_floats": 3, "imputed_value_int64s": None}},
    {"op": "CategoryMapper", "ins": [("T", "str", (None,))], "attrs": {"cats_int64s": 2, "cats_strings": 2}},
    {"op": "CategoryMapper", "ins": [("T", "f32", (2,))], "attrs": {"cats_int64s": 2, "cats_strings": 2}},
    {"op": "Compress", "ins": [("T", "f32", (2, 3)), ("T", "bool", (None,))], "attrs": {"axis": None}},
    {"op": "Compress", "ins": [("T", "f32", (2, 3)), ("T", "bool", (2,))], "attrs": {"axis": -1}},
    {"op": "Compress", "ins": [("T", "f32", ()), ("T", "bool", (1,))], "attrs": {"axis": None}},
    {"op": "Compress", "ins": [None, ("T", "bool", (2,))], "attrs": {"axis": None}},
    {"op": "TreeEnsembleRegressor", "ins": [("T", "f64", ("N", 5))], "attrs": {"n_targets": 3, "tree": True}},
]


# ------------------------------------------------------------------------------------------------ the real call


def real_call(case, xs, ml, op):
    """Call the real constructor on Vars ``xs``; returns the list of result Vars."""
    a, name = case["attrs"], case["op"]
    if name == "ArrayFeatureExtractor":
        return [ml.array_feature_extractor(xs[0], xs[1])]
    if name == "Binarizer":
        return [ml.binarizer(xs[0], threshold=a["threshold"])]
    if name == "CategoryMapper":
        n1, n2 = a["cats_int64s"], a["cats_strings"]
        return [ml.category_mapper(xs[0], cats_int64s=None if n1 is None else list(range(n1)),
                                   cats_strings=None if n2 is None else [f"c{i}" for i in range(n2)])]
    if name == "Imputer":
        return [ml.imputer(xs[0], imputed_value_floats=_lst(a["imputed_value_floats"], 1.5),
                           imputed_value_int64s=_lst(a["imputed_value_int64s"], 7))]
    if name == "LinearRegressor":
        t, f = a["targets"], a["features"]
        return [ml.linear_regressor(xs[0], coefficients=[0.5] * (t * f), intercepts=[0.25] * t if a["intercepts"] else None,
                                    targets=t)]
    if name == "Normalizer":
        return [ml.normalizer(xs[0], norm=a["norm"])]
    if name == "OneHotEncoder":
        n1, n2 = a["cats_int64s"], a["cats_strings"]
        return [ml.one_hot_encoder(xs[0], cats_int64s=None if n1 is None else list(range(n1)),
                                   cats_strings=None if n2 is None else [f"c{i}" for i in range(n2)], zeros=a["zeros"])]
    if name == "Scaler":
        return [ml.scaler(xs[0], offset=_lst(a["offset"], 0.5), scale=_lst(a["scale"], 2.0))]
    if name == "TreeEnsembleClassifier":
        ids = a["class_ids"]
        kw = dict(TREE_NODES) if a["tree"] else {}
        if ids is not None:
            n = len(ids)
            kw.update(class_ids=ids, class_nodeids=[1 + (i * 2) // n for i in range(n)] if n > 2 else [1, 2][:n],
                      class_treeids=[0] * n, class_weights=[1.0 if i % 2 == 0 else -1.0 for i in range(n)])
        li, ls = a["classlabels_int64s"], a["classlabels_strings"]
        return list(ml.tree_ensemble_classifier(
            xs[0], classlabels_int64s=None if li is None else list(range(li)),
            classlabels_strings=None if ls is None else [f"l{i}" for i in range(ls)], **kw))
    if name == "TreeEnsembleRegressor":
        kw = dict(TREE_NODES) if a["tree"] else {}
        nt = a["n_targets"]
        if a["tree"]:
            kw.update(target_ids=[0, (nt or 1) - 1], target_nodeids=[1, 2], target_treeids=[0, 0], target_weights=[1.0, -1.0])
        return [ml.tree_ensemble_regressor(xs[0], n_targets=nt, **kw)]
    if name == "Compress":
        return [op.compress(xs[0], xs[1], axis=a["axis"])]
    raise KeyError(name)


def model_expr(case, onnx_rejects=False):
    """Gallina term of the modelled routine applied to this case."""
    a, name, ins = case["attrs"], case["op"], [coq_ity(t) for t in case["ins"]]
    if name == "ArrayFeatureExtractor":
        return f"infer_ArrayFeatureExtractor {ins[0]} {ins[1]}"
    if name == "Binarizer":
        return f"infer_Binarizer {ins[0]}"
    if name == "CategoryMapper":
        return f"infer_CategoryMapper {ins[0]} {coq_optN(a['cats_int64s'])} {coq_optN(a['cats_strings'])}"
    if name == "Imputer":
        return f"infer_Imputer {ins[0]} {coq_optN(a['imputed_value_floats'])} {coq_optN(a['imputed_value_int64s'])}"
    if name == "LinearRegressor":
        return f"infer_LinearRegressor {ins[0]}"
    if name == "Normalizer":
        return f'infer_Normalizer {ins[0]} "{a["norm"]}"'
    if name == "OneHotEncoder":
        return f"infer_OneHotEncoder {ins[0]} {coq_optN(a['cats_int64s'])} {coq_optN(a['cats_strings'])}"
    if name == "Scaler":
        return f"infer_Scaler {ins[0]} {coq_optN(a['scale'])} {coq_optN(a['offset'])}"
    if name == "TreeEnsembleClassifier":
        ids = a["class_ids"]
        return (f"infer_TreeEnsembleClassifier {ins[0]} {coq_optN(None if ids is None else len(ids))} "
                f"{coq_optN(a['classlabels_int64s'])} {coq_optN(a['classlabels_strings'])}")
    if name == "TreeEnsembleRegressor":
        return f"infer_TreeEnsembleRegressor {ins[0]} {coq_optN(a['n_targets'])}"
    if name == "Compress":
        ax = a["axis"]
        return (f"infer_Compress {'true' if onnx_rejects else 'false'} {ins[0]} {ins[1]} "
                f"{'None' if ax is None else f'(Some ({ax})%Z)'}")
    raise KeyError(name)


def rt_expr(case, vals, k=0):
    """Gallina term of the runtime specification on concrete input values [(dtype_name, shape)]."""
    a, name, vs = case["attrs"], case["op"], [coq_val(*v) for v in vals]
    if name == "ArrayFeatureExtractor":
        return f"rt_ArrayFeatureExtractor {vs[0]} {vs[1]}"
    if name in ("Binarizer", "CategoryMapper", "Imputer", "Normalizer", "Scaler"):
        return f"rt_{name} {vs[0]}"
    if name == "LinearRegressor":
        return f"rt_LinearRegressor {a['targets']} {vs[0]}"
    if name == "OneHotEncoder":
        return f"rt_OneHotEncoder {coq_optN(a['cats_int64s'])} {coq_optN(a['cats_strings'])} {vs[0]}"
    if name == "TreeEnsembleClassifier":
        return f"rt_TreeEnsembleClassifier {coq_optN(a['classlabels_int64s'])} {coq_optN(a['classlabels_strings'])} {vs[0]}"
    if name == "TreeEnsembleRegressor":
        return f"rt_TreeEnsembleRegressor {coq_optN(a['n_targets'])} {vs[0]}"
    if name == "Compress":
        ax = a["axis"]
        return f"rt_Compress {'None' if ax is None else f'(Some ({ax})%Z)'} {int(k)} {vs[0]} {vs[1]}"
    raise KeyError(name)


def onnx_rejects_compress(case) -> bool:
    """Does ONNX's own strict inference reject a hand-built Compress node with these input types?  (Independent of
    spox's singleton-model plumbing; an untyped input means ONNX is never consulted.)"""
    import onnx
    from onnx import helper

    ins = case["ins"]
    if any(t is None for t in ins):
        return False
    vis = []
    for nm, t in zip(("input", "condition"), ins):
        vis.append(helper.make_value_info(nm, td_to_spox(t)._to_onnx()))
    ax = case["attrs"]["axis"]
    node = helper.make_node("Compress", ["input", "condition"], ["output"], **({} if ax is None else {"axis": ax}))
    g = helper.make_graph([node], "g", vis, [helper.make_value_info("output", onnx.TypeProto())])
    m = helper.make_model(g, opset_imports=[helper.make_operatorsetid("", 17)])
    try:
        onnx.shape_inference.infer_shapes(m, check_type=True, strict_mode=True, data_prop=True)
        return False
    except Exception:  # noqa: BLE001
        return True


# ------------------------------------------------------------------------------------------------ one-operator models


def buildable(case) -> bool:
    return all(t is not None and t[0] == "T" for t in case["ins"])


def dim_vars(case):
    """Names of the free sizes of a case: one per unknown dim, one per dim name; rank-unknown inputs get '@k'."""
    out = []
    for k, t in enumerate(case["ins"]):
        if t[2] is None:
            out.append(f"@{k}")
            continue
        for j, d in enumerate(t[2]):
            if d is None:
                out.append(f"?{k}.{j}")
            elif isinstance(d, str) and d not in out:
                out.append(d)
    return out


RANK_FREE_SHAPES = [(), (2,), (3,), (2, 3), (1, 4), (0, 3), (2, 2, 2), (3, 1)]


def assignments(rng, case, limit):
    """Admissible sizes of the unknown dims: every size of {0,1,2,3} for every free dim at least once (others random),
    the full product when it is small."""
    vs = dim_vars(case)
    doms = [RANK_FREE_SHAPES if v.startswith("@") else [0, 1, 2, 3] for v in vs]
    total = 1
    for d in doms:
        total *= len(d)
    if total <= limit:
        return [dict(zip(vs, c)) for c in itertools.product(*doms)]
    out = []
    for i, v in enumerate(vs):
        for val in doms[i]:
            asg = {w: rng.choice(doms[j]) for j, w in enumerate(vs)}
            asg[v] = val
            out.append(asg)
    rng.shuffle(out)
    return out[:limit]


def concrete_shapes(case, asg):
    shapes = []
    for k, t in enumerate(case["ins"]):
        if t[2] is None:
            shapes.append(tuple(asg[f"@{k}"]))
        else:
            shapes.append(tuple(asg[f"?{k}.{j}"] if d is None else (asg[d] if isinstance(d, str) else d)
                                for j, d in enumerate(t[2])))
    return shapes


def feed_value(rng, elem, shape, role):
    n = int(np.prod(shape)) if shape else 1
    if elem == "str":
        return np.array([rng.choice(["c0", "c1", "zz"]) for _ in range(n)], dtype=object).reshape(shape)
    if elem == "bool":
        return np.array([rng.random() < 0.6 for _ in range(n)], dtype=bool).reshape(shape)
    if role == "index":
        return np.zeros(shape, dtype=ELEMS[elem][0])
    if elem in ("f32", "f64", "f16"):
        return np.array([rng.choice([0.0, 0.25, 1.0, 2.5, -1.0]) for _ in range(n)], dtype=ELEMS[elem][0]).reshape(shape)
    return np.array([rng.choice([0, 1, 2, 7]) for _ in range(n)], dtype=ELEMS[elem][0]).reshape(shape)


def build_single(case, ml, op):
    """The one-operator model of a buildable case: (model bytes, result Vars, feed maker)."""
    import spox
    from spox import Tensor, argument

    build_ins, xs, plan = {}, [], []
    for k, t in enumerate(case["ins"]):
        dt = ELEMS[t[1]][0]
        if t[2] is None:  # unknown rank: a flat argument reshaped by a runtime shape
            flat = argument(Tensor(dt, (None,)))
            shp = argument(Tensor(np.int64, (None,)))
            build_ins[f"in{k}_flat"], build_ins[f"in{k}_shape"] = flat, shp
            xs.append(op.reshape(flat, shp))
            plan.append(("reshape", k))
        else:
            v = argument(Tensor(dt, t[2]))
            build_ins[f"in{k}"] = v
            xs.append(v)
            plan.append(("direct", k))
    outs = real_call(case, xs, ml, op)
    model = spox.build(build_ins, {f"out{i}": o for i, o in enumerate(outs)})

    def feeds(rng, shapes):
        f, vals = {}, []
        for (how, k), shape in zip(plan, shapes):
            elem = case["ins"][k][1]
            role = "index" if (case["op"] == "ArrayFeatureExtractor" and k == 1) else "data"
            arr = feed_value(rng, elem, shape, role)
            vals.append(arr)
            if how == "direct":
                f[f"in{k}"] = arr
            else:
                f[f"in{k}_flat"] = arr.reshape(-1)
                f[f"in{k}_shape"] = np.array(shape, dtype=np.int64)
        return f, vals
    return model.SerializeToString(), outs, feeds


def compress_k(case, vals):
    x, c = vals
    ax = case["attrs"]["axis"]
    size = int(x.size) if ax is None else (x.shape[ax] if -x.ndim <= ax < x.ndim else 0)
    return int(np.asarray(c).reshape(-1)[:size].sum())
