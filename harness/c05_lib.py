"""Helpers of the C05/C18 checks: type specs, canonical renderings (real protobuf side), Gallina printers.

A *tspec* is the harness' own, library-independent description of a value type:
    None                      untyped (Var.type is None)
    ["T", elem, shape]        tensor; elem = TensorProto element type number; shape = None | list of int | str | None
    ["S", tspec] / ["O", tspec]
Nothing in here imports spox except the two explicit converters at the bottom (tspec <-> spox Type).
"""

from __future__ import annotations

import hashlib

import numpy as np
import onnx
from onnx import AttributeProto, TensorProto, helper, numpy_helper

from harness.common import coq_list, coq_str

# ------------------------------------------------------------------------------------------------ tspec <-> protobuf


def tspec_of_typeproto(tp: onnx.TypeProto):
    """TypeProto -> tspec ('other' for map / sparse / opaque; None for an empty TypeProto)."""
    if tp.HasField("tensor_type"):
        tt = tp.tensor_type
        if not tt.HasField("shape"):
            return ["T", int(tt.elem_type), None]
        dims = []
        for d in tt.shape.dim:
            if d.HasField("dim_value"):
                dims.append(int(d.dim_value))
            elif d.HasField("dim_param"):
                dims.append(str(d.dim_param))
            else:
                dims.append(None)
        return ["T", int(tt.elem_type), dims]
    if tp.HasField("sequence_type"):
        return ["S", tspec_of_typeproto(tp.sequence_type.elem_type)]
    if tp.HasField("optional_type"):
        return ["O", tspec_of_typeproto(tp.optional_type.elem_type)]
    if tp == onnx.TypeProto():
        return None
    return "other"


def typeproto_of_tspec(t) -> onnx.TypeProto:
    if t[0] == "T":
        return helper.make_tensor_type_proto(t[1], None if t[2] is None else list(t[2]))
    if t[0] == "S":
        return helper.make_sequence_type_proto(typeproto_of_tspec(t[1]))
    if t[0] == "O":
        return helper.make_optional_type_proto(typeproto_of_tspec(t[1]))
    raise ValueError(t)


def strip_unk(t):
    """The property's 'dimensions the inference invents are reported as unknown' (independent of spox)."""
    if t is None or t == "other":
        return t
    if t[0] == "T":
        if t[2] is None:
            return t
        out = []
        for d in t[2]:
            if isinstance(d, str) and (d.startswith("unk__") or d == ""):
                out.append(None)
            else:
                out.append(d)
        return ["T", t[1], out]
    return [t[0], strip_unk(t[1])]


def tspec_of_array(a: np.ndarray):
    if a.dtype == object or a.dtype.kind in "US":
        return ["T", TensorProto.STRING, list(a.shape)]
    return ["T", int(helper.np_dtype_to_tensor_dtype(a.dtype)), list(a.shape)]


def show_tspec(t) -> str:
    """Same format as NodeProto.show_oty."""
    if t is None:
        return "-"
    if t == "other":
        return "other"
    if t[0] == "T":
        if t[2] is None:
            return f"T{t[1]}*"
        return f"T{t[1]}[" + ",".join("?" if d is None else (f"'{d}'" if isinstance(d, str) else str(d)) for d in t[2]) + "]"
    return ("S(" if t[0] == "S" else "O(") + show_tspec(t[1]) + ")"


# ------------------------------------------------------------------------------------------------ tokens for values


def _safe(s: str) -> str:
    if all(32 <= ord(ch) < 127 and ch not in '";|~' for ch in s) and len(s) <= 60:
        return s
    return "#" + hashlib.sha1(s.encode("utf8", "surrogatepass")).hexdigest()[:16]


def array_token(a: np.ndarray) -> str:
    a = np.asarray(a)
    if a.dtype == object or a.dtype.kind in "US":
        body = "\0".join(x.decode("utf8", "replace") if isinstance(x, bytes) else str(x) for x in a.flatten().tolist()).encode("utf8")
        et = TensorProto.STRING
    else:
        body = np.ascontiguousarray(a).tobytes()
        et = int(helper.np_dtype_to_tensor_dtype(a.dtype))
    return f"a{et}{list(a.shape)}".replace(" ", "") + ":" + hashlib.sha1(body).hexdigest()[:12]


def tensorproto_token(t: TensorProto) -> str:
    return array_token(numpy_helper.to_array(t))


def f32(x) -> str:
    return repr(float(np.float32(x)))


def attr_payload_from_proto(a: AttributeProto) -> str:
    """Canonical value string of a non-graph attribute as it stands in a NodeProto."""
    t = a.type
    if t == AttributeProto.FLOAT:
        return f32(a.f)
    if t == AttributeProto.INT:
        return str(int(a.i))
    if t == AttributeProto.STRING:
        return _safe(a.s.decode("utf8", "replace"))
    if t == AttributeProto.TENSOR:
        return tensorproto_token(a.t)
    if t == AttributeProto.FLOATS:
        return "[" + ",".join(f32(x) for x in a.floats) + "]"
    if t == AttributeProto.INTS:
        return "[" + ",".join(str(int(x)) for x in a.ints) + "]"
    if t == AttributeProto.STRINGS:
        return _safe("[" + ",".join(x.decode("utf8", "replace") for x in a.strings) + "]")
    if t == AttributeProto.TENSORS:
        return "[" + ",".join(tensorproto_token(x) for x in a.tensors) + "]"
    if t == AttributeProto.TYPE_PROTO:
        return show_tspec(tspec_of_typeproto(a.tp))
    return f"?{t}"


def attr_payload_from_value(kind: int, v) -> str:
    """Canonical value string of the same attribute computed from the python value given to the constructor.

    kind is the AttributeProto type; for kind INT a numpy dtype-like means 'element type' (AttrDtype)."""
    if kind == AttributeProto.FLOAT:
        return f32(v)
    if kind == AttributeProto.INT:
        if isinstance(v, (int, np.integer)) and not isinstance(v, bool):
            return str(int(v))
        if isinstance(v, bool):
            return str(int(v))
        dt = np.dtype(v)
        if dt.kind in "US" or dt == object:
            return str(int(TensorProto.STRING))
        return str(int(helper.np_dtype_to_tensor_dtype(dt)))
    if kind == AttributeProto.STRING:
        return _safe(v)
    if kind == AttributeProto.TENSOR:
        return array_token(v)
    if kind == AttributeProto.FLOATS:
        return "[" + ",".join(f32(x) for x in v) + "]"
    if kind == AttributeProto.INTS:
        return "[" + ",".join(str(int(x)) for x in v) + "]"
    if kind == AttributeProto.STRINGS:
        return _safe("[" + ",".join(v) + "]")
    if kind == AttributeProto.TENSORS:
        return "[" + ",".join(array_token(x) for x in v) + "]"
    if kind == AttributeProto.TYPE_PROTO:
        return show_tspec(v)  # v is a tspec
    return f"?{kind}"


# ------------------------------------------------------------------------------------------------ rendering real protobuf (format of NodeProto.show_model)


def show_info(vi: onnx.ValueInfoProto) -> str:
    return f"{vi.name}:{show_tspec(tspec_of_typeproto(vi.type))}"


def show_graph(g: onnx.GraphProto) -> str:
    nodes = ";".join(f"{n.op_type}({','.join(n.input)})->{','.join(n.output)}" for n in g.node)
    return ("{" + g.name + "|in " + ";".join(show_info(v) for v in g.input) + "|out " + ";".join(show_info(v) for v in g.output)
            + "|vi " + ";".join(show_info(v) for v in g.value_info) + "|nodes " + nodes + "}")


def show_attr(a: AttributeProto) -> str:
    if a.type == AttributeProto.GRAPH:
        return f"{a.name}=G:{show_graph(a.g)}"
    if a.ref_attr_name:
        return f"{a.name}=REF:{a.ref_attr_name}"
    return f"{a.name}={int(a.type)}:{attr_payload_from_proto(a)}"


def show_node(n: onnx.NodeProto) -> str:
    return "~".join([
        f"op {n.domain}::{n.op_type}", f"name {n.name}", "in " + ",".join(n.input), "out " + ",".join(n.output),
        "attrs " + "~".join(show_attr(a) for a in n.attribute),
    ])


def show_model(m: onnx.ModelProto) -> str:
    g = m.graph
    assert len(g.node) == 1
    (imp,) = m.opset_import
    outs = ";".join(v.name if v.type == onnx.TypeProto() else show_info(v) for v in g.output)
    return "~".join([
        show_node(g.node[0]),
        "ginputs " + ";".join(show_info(v) for v in g.input),
        "goutputs " + outs,
        "inits " + ";".join(f"{t.name}={tensorproto_token(t)}" for t in g.initializer),
        f"opset {imp.domain}@{imp.version}",
    ])


# ------------------------------------------------------------------------------------------------ Gallina printers


def coq_dim(d):
    if d is None:
        return "DUnk"
    if isinstance(d, str):
        return f"(DSym {coq_str(d)})"
    return f"(DInt ({int(d)})%Z)"


def coq_ty(t) -> str:
    if t[0] == "T":
        sh = "None" if t[2] is None else "(Some " + coq_list([coq_dim(d) for d in t[2]]) + ")"
        return f"(TTensor {int(t[1])} {sh})"
    return f"({'TSeq' if t[0] == 'S' else 'TOpt'} {coq_ty(t[1])})"


def coq_odim(d):
    if d is None:
        return "ONone"
    if isinstance(d, str):
        return f"(OParam {coq_str(d)})"
    return f"(OValue ({int(d)})%Z)"


def coq_oty(t) -> str:
    if t == "other":
        return "OOther"
    if t[0] == "T":
        sh = "None" if t[2] is None else "(Some " + coq_list([coq_odim(d) for d in t[2]]) + ")"
        return f"(OTensor {int(t[1])} {sh})"
    return f"({'OSeq' if t[0] == 'S' else 'OOpt'} {coq_oty(t[1])})"


def coq_kind(k: str) -> str:
    return {"SINGLE": "KSingle", "OPTIONAL": "KOptional", "VARIADIC": "KVariadic"}[k]


def coq_slots(slots) -> str:
    return coq_list([f"({coq_str(n)}, {coq_kind(k)})" for n, k in slots])


def coq_arg(a) -> str:
    """a = ('S', id) | ('O', id|None) | ('V', [ids])"""
    if a[0] == "S":
        return f"(ASingle {a[1]})"
    if a[0] == "O":
        return "(AOpt None)" if a[1] is None else f"(AOpt (Some {a[1]}))"
    return "(AVariadic " + coq_list([str(i) for i in a[1]]) + ")"


def coq_attr(key, setv) -> str:
    """setv = None | (name, ('D', kind, payload)) | (name, ('G', [arg tspecs], [res tspecs]))"""
    if setv is None:
        return f"(Build_attr {coq_str(key)} None)"
    name, v = setv
    if v[0] == "D":
        val = f"(AvData {int(v[1])} {coq_str(v[2])})"
    else:
        val = f"(AvGraph {coq_list([coq_ty(t) for t in v[1]])} {coq_list([coq_ty(t) for t in v[2]])})"
    return f"(Build_attr {coq_str(key)} (Some ({coq_str(name)}, {val})))"


def coq_env(env) -> str:
    """env = [(id, tspec|None, token|None)]"""
    items = []
    for i, t, c in env:
        ty = "None" if t is None else f"(Some {coq_ty(t)})"
        cv = "None" if c is None else f"(Some {coq_str(c)})"
        items.append(f"({i}, Build_vinfo {ty} {cv})")
    return coq_list(items)


def coq_sig(op, domain, version, ins, outs, smin) -> str:
    m = "None" if smin is None else f"(Some ({smin[0]}, {smin[1]}))"
    return f"(Build_sig {coq_str(op)} {coq_str(domain)} {int(version)}%N {coq_slots(ins)} {coq_slots(outs)} {m})"


def coq_call(sig, ins, outs, attrs, env) -> str:
    """outs: either a list of args or ('init', k, fresh) meaning init_outputs (s_outs sig) k fresh."""
    if isinstance(outs, tuple) and outs and outs[0] == "init":
        o = f"(init_outputs (s_outs {sig}) {outs[1]} {outs[2]})"
    else:
        o = coq_list([coq_arg(a) for a in outs])
    return (f"(Build_call {sig} {coq_list([coq_arg(a) for a in ins])} {o} "
            f"{coq_list([coq_attr(k, s) for k, s in attrs])} {coq_env(env)})")


def coq_infer_result(res) -> str:
    """res = ('err', class name) | ('ok', [(name, tspec|None|'other')])  ->  a constant oracle  (fun _ => ...)"""
    if res[0] == "err":
        return f"(fun _ : smodel => @inl string (list (string * option oty)) {coq_str(res[1])})"
    items = []
    for n, t in res[1]:
        items.append(f"({coq_str(n)}, {'None' if t is None else '(Some ' + coq_oty(t) + ')'})")
    return f"(fun _ : smodel => @inr string (list (string * option oty)) {coq_list(items)})"


# ------------------------------------------------------------------------------------------------ spox <-> tspec (the only spox-dependent part)


def spox_type_of_tspec(t):
    from spox import Optional as SOpt, Sequence as SSeq, Tensor
    from spox._utils import tensor_type_to_dtype

    if t[0] == "T":
        return Tensor(tensor_type_to_dtype(t[1]), None if t[2] is None else tuple(t[2]))
    if t[0] == "S":
        return SSeq(spox_type_of_tspec(t[1]))
    return SOpt(spox_type_of_tspec(t[1]))


def tspec_of_spox_type(ty):
    from spox import Optional as SOpt, Sequence as SSeq, Tensor

    if ty is None:
        return None
    if isinstance(ty, Tensor):
        dt = ty.dtype
        et = TensorProto.STRING if (dt.kind in "US" or dt == object) else int(helper.np_dtype_to_tensor_dtype(dt))
        return ["T", et, None if ty.shape is None else list(ty.shape)]
    if isinstance(ty, SSeq):
        return ["S", tspec_of_spox_type(ty.elem_type)]
    if isinstance(ty, SOpt):
        return ["O", tspec_of_spox_type(ty.elem_type)]
    return "other"
