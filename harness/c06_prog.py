"""C06 helper — random small programs over standard operators (types inferred by ONNX's own inference, spox only
plumbs them), control flow (If / Loop / Scan results and the types prescribed for body arguments), inlined models and
functions.  A program is plain data (JSON-able) so that a failing one can be shrunk and replayed:

  {"inputs": [TD, ...], "opset": 17|18|19|21, "steps": [step, ...]}

Each step appends the Vars it creates to the environment (index-addressed); a step whose constructor raises appends
nothing.  Every Var whose type is a rank-known tensor is exposed as a model output.
"""

from __future__ import annotations

import numpy as np

from harness.c06_ops import ELEMS, td_of_type

FLOATS, INTS = ("f32", "f64"), ("i64", "i32")

UNARY = {
    "Relu": FLOATS, "Neg": FLOATS + INTS, "Abs": FLOATS + INTS, "Exp": FLOATS, "Sigmoid": FLOATS, "Floor": FLOATS,
    "Not": ("bool",), "Identity": None, "Shape": None, "Size": None, "Transpose": None, "NonZero": None,
}
BINARY = {"Add": FLOATS + INTS, "Mul": FLOATS + INTS, "Sub": FLOATS + INTS, "Less": FLOATS + INTS, "Equal": FLOATS + INTS + ("bool",),
          "And": ("bool",), "MatMul": FLOATS, "Max": FLOATS}
OTHER = ["Cast", "Flatten", "Reshape", "Unsqueeze", "Squeeze", "Expand", "Concat", "Slice", "Gather", "ReduceSum", "ArgMax",
         "Softmax", "TopK", "Tile", "Pad", "OneHot", "ConstantOfShape", "Compress", "Split", "Where", "CumSum", "Range"]
CONTROL = ["If", "Loop", "Scan", "Inline", "Function"]
VOCAB = list(UNARY) + list(BINARY) + OTHER + CONTROL


def gen_inputs(rng):
    shapes = [(2, 3), (None, 3), ("N", 3), (None, None), (3,), (None,), ("N",), (), ("N", "M"), (2, None, 2), (1, 3), (None, 1)]
    ins = []
    for _ in range(rng.choice([2, 3, 3, 4])):
        ins.append(("T", rng.choice(["f32", "f32", "f32", "i64", "bool", "f64"]), rng.choice(shapes)))
    return ins


def _rank(td):
    return None if td is None or td[0] != "T" or td[2] is None else len(td[2])


def gen_step(rng, tds, depth=0):
    """One step over an environment whose Vars have the (currently known) descriptors ``tds``."""
    idx = [i for i, t in enumerate(tds) if t is not None and t[0] == "T"]
    if not idx:
        return None
    pick = lambda ok=None: rng.choice([i for i in idx if ok is None or ok(tds[i])] or idx)  # noqa: E731
    name = rng.choice(VOCAB if depth == 0 else [v for v in VOCAB if v not in CONTROL])
    if name in UNARY:
        el = UNARY[name]
        return {"op": name, "args": [pick(lambda t: el is None or t[1] in el)]}
    if name in BINARY:
        el = BINARY[name]
        a = pick(lambda t: t[1] in el)
        return {"op": name, "args": [a, pick(lambda t: t[1] == tds[a][1])]}
    if name == "Cast":
        return {"op": name, "args": [pick(lambda t: t[1] != "str")], "to": rng.choice(["f32", "i64", "f64", "bool", "i32"])}
    if name == "Flatten":
        return {"op": name, "args": [pick()], "axis": rng.choice([0, 1, 1, 2, -1])}
    if name == "Reshape":
        return {"op": name, "args": [pick()], "shape": rng.choice([[-1], [1, -1], [-1, 1], [0, -1], [-1, 3], [3, -1], [2, 3]])}
    if name == "Unsqueeze":
        return {"op": name, "args": [pick()], "axes": rng.choice([[0], [1], [-1], [0, 1]])}
    if name == "Squeeze":
        return {"op": name, "args": [pick()], "axes": rng.choice([None, [0], [1], [-1]])}
    if name == "Expand":
        return {"op": name, "args": [pick()], "shape": rng.choice([[1], [2, 1], [2, 3], [1, 1, 3], [3]])}
    if name == "Concat":
        a = pick()
        return {"op": name, "args": [a, pick(lambda t: t[1] == tds[a][1] and _rank(t) == _rank(tds[a]))], "axis": rng.choice([0, 0, 1, -1])}
    if name == "Slice":
        return {"op": name, "args": [pick(lambda t: (_rank(t) or 0) >= 1)], "starts": [rng.choice([0, 1])], "ends": [rng.choice([1, 2, 100])],
                "axes": [rng.choice([0, -1])]}
    if name == "Gather":
        return {"op": name, "args": [pick(lambda t: (_rank(t) or 0) >= 1)], "indices": rng.choice([0, [0], [0, 0], [[0], [0]]]),
                "axis": rng.choice([0, 0, -1])}
    if name == "ReduceSum":
        return {"op": name, "args": [pick(lambda t: t[1] in FLOATS + INTS)], "axes": rng.choice([None, [0], [-1], [0, 1]]),
                "keepdims": rng.choice([0, 1])}
    if name == "ArgMax":
        return {"op": name, "args": [pick(lambda t: t[1] in FLOATS + INTS and (_rank(t) or 0) >= 1)], "axis": rng.choice([0, -1]),
                "keepdims": rng.choice([0, 1])}
    if name == "Softmax":
        return {"op": name, "args": [pick(lambda t: t[1] in FLOATS and (_rank(t) or 0) >= 1)], "axis": rng.choice([-1, 0])}
    if name == "TopK":
        return {"op": name, "args": [pick(lambda t: t[1] in FLOATS and (_rank(t) or 0) >= 1)], "k": rng.choice([1, 1, 2]), "axis": rng.choice([-1, 0])}
    if name == "Tile":
        return {"op": name, "args": [pick(lambda t: _rank(t) in (1, 2))], "repeats": rng.choice([[2], [1, 2], [2, 1], [0, 1]])}
    if name == "Pad":
        return {"op": name, "args": [pick(lambda t: t[1] in FLOATS and _rank(t) in (1, 2))], "pads": rng.choice([[1, 1], [0, 1, 0, 0], [1, 0, 0, 2]])}
    if name == "OneHot":
        return {"op": name, "args": [pick(lambda t: t[1] in INTS)], "depth": rng.choice([2, 3]), "axis": rng.choice([-1, 0, 1])}
    if name == "ConstantOfShape":
        return {"op": name, "args": [pick()]}
    if name == "Compress":
        return {"op": name, "args": [pick(), pick(lambda t: t[1] == "bool" and _rank(t) == 1)], "axis": rng.choice([None, 0, -1])}
    if name == "Split":
        return {"op": name, "args": [pick(lambda t: (_rank(t) or 0) >= 1)], "axis": rng.choice([0, -1]), "n": 2}
    if name == "Where":
        a = pick(lambda t: t[1] != "bool")
        return {"op": name, "args": [pick(lambda t: t[1] == "bool"), a, pick(lambda t: t[1] == tds[a][1])]}
    if name == "CumSum":
        return {"op": name, "args": [pick(lambda t: t[1] in FLOATS + INTS and (_rank(t) or 0) >= 1)], "axis": rng.choice([0, -1])}
    if name == "Range":
        return {"op": name, "args": [pick(lambda t: t[1] in INTS and _rank(t) == 0)]}
    small = lambda: [s for s in (gen_step(rng, tds, depth + 1) for _ in range(rng.choice([1, 2]))) if s]  # noqa: E731
    if name == "If":
        return {"op": "If", "args": [pick(lambda t: t[1] == "bool" and _rank(t) == 0)], "then": small(), "else": small()}
    if name == "Loop":
        carried = [pick(lambda t: t[1] in FLOATS + INTS) for _ in range(rng.choice([1, 1, 2]))]
        bodies = [rng.choice(["id", "id", "add-self", "concat0", "concat-transpose", "slice0", "flatten", "const3", "outer-add", "relu"])
                  for _ in carried]
        return {"op": "Loop", "args": carried, "M": pick(lambda t: t[1] == "i64" and _rank(t) == 0), "bodies": bodies,
                "scan": rng.choice(["iter", "carried", "sum", "none"])}
    if name == "Scan":
        st = {"op": "Scan", "args": [pick(lambda t: t[1] in FLOATS and _rank(t) in (0, 1)), pick(lambda t: t[1] in FLOATS and (_rank(t) or 0) >= 1)],
              "body": rng.choice(["sum", "keep", "outer"])}
        # the axis scanned along: default, first, LAST counted from the end (-1); derived from the picks (no extra draw from rng)
        st["axis"] = [None, 0, -1, -1][(st["args"][0] + 2 * st["args"][1] + len(st["body"])) % 4]
        return st
    if name == "Inline":
        return {"op": "Inline", "args": [pick(lambda t: t[1] in FLOATS)], "decl": rng.choice(["named", "const", "unknown", "norank"]),
                "inner": rng.choice(["relu", "sum", "concat"])}
    if name == "Function":
        return {"op": "Function", "args": [pick(lambda t: t[1] in FLOATS)], "inner": rng.choice(["relu", "sum", "concat"])}
    return None


def gen_program(rng, n_steps, opset):
    ins = gen_inputs(rng)
    # always provide a trip count, a scalar condition and a mask
    ins += [("T", "i64", ()), ("T", "bool", ()), ("T", "bool", (rng.choice([None, 2, 3]),))]
    return {"inputs": ins, "opset": opset, "steps": n_steps}


# ------------------------------------------------------------------------------------------------ interpretation

_FUNCS = {}


def _inner(op, kind, x):
    if kind == "relu":
        return op.relu(x)
    if kind == "sum":
        return op.reduce_sum(x, op.const(np.array([0], np.int64)), keepdims=0)
    return op.concat([x, x], axis=0)


def _function(op, opset, kind):
    from spox._function import to_function

    key = (opset, kind)
    if key not in _FUNCS:
        @to_function(f"c06_{kind}_{opset}", "spox.c06")
        def f(x):
            return [_inner(op, kind, x)]
        _FUNCS[key] = f
    return _FUNCS[key]


def _inline_model(op, kind, decl, in_type):
    """A small model with hand-declared output type (named / constant / unknown dims, or no rank) to be inlined."""
    import onnx
    import spox
    from spox import Tensor, argument

    shape = in_type.shape
    a = argument(Tensor(in_type.dtype, shape if shape is None else tuple(f"D{j}" if d is None else d for j, d in enumerate(shape))))
    if a.type.shape is None:
        return None
    r = _inner(op, kind, a)
    if r.type is None or not isinstance(r.type, Tensor) or r.type.shape is None:
        return None
    m = spox.build({"a": a}, {"r": r})
    out = m.graph.output[0]
    if decl == "unknown":
        for d in out.type.tensor_type.shape.dim:
            d.Clear()
    elif decl == "norank":
        out.type.tensor_type.ClearField("shape")
    elif decl == "named":
        for j, d in enumerate(out.type.tensor_type.shape.dim):
            if not d.HasField("dim_value"):
                d.dim_param = f"OUT{j}"
    return m


def apply_step(step, env, op, opset, expose):
    """Execute one step with the real constructors; returns the list of new Vars (raises on rejection)."""
    import spox
    from spox import Tensor

    a = [env[i] for i in step["args"]]
    name = step["op"]
    c = lambda v, dt=np.int64: op.const(np.array(v, dtype=dt))  # noqa: E731
    if name in UNARY:
        if name in ("Transpose",):
            return [op.transpose(a[0])]
        if name == "NonZero":
            return [op.non_zero(a[0])]
        return [getattr(op, {"Not": "not_"}.get(name, name.lower()))(a[0])]
    if name in BINARY:
        return [getattr(op, {"And": "and_", "MatMul": "matmul", "Max": "max"}.get(name, name.lower()))(*([a] if name == "Max" else a))]
    if name == "Cast":
        return [op.cast(a[0], to=ELEMS[step["to"]][0])]
    if name == "Flatten":
        return [op.flatten(a[0], axis=step["axis"])]
    if name == "Reshape":
        return [op.reshape(a[0], c(step["shape"]))]
    if name == "Unsqueeze":
        return [op.unsqueeze(a[0], c(step["axes"]))]
    if name == "Squeeze":
        return [op.squeeze(a[0], None if step["axes"] is None else c(step["axes"]))]
    if name == "Expand":
        return [op.expand(a[0], c(step["shape"]))]
    if name == "Concat":
        return [op.concat(a, axis=step["axis"])]
    if name == "Slice":
        return [op.slice(a[0], c(step["starts"]), c(step["ends"]), c(step["axes"]))]
    if name == "Gather":
        return [op.gather(a[0], c(step["indices"]), axis=step["axis"])]
    if name == "ReduceSum":
        return [op.reduce_sum(a[0], None if step["axes"] is None else c(step["axes"]), keepdims=step["keepdims"])]
    if name == "ArgMax":
        return [op.arg_max(a[0], axis=step["axis"], keepdims=step["keepdims"])]
    if name == "Softmax":
        return [op.softmax(a[0], axis=step["axis"])]
    if name == "TopK":
        return list(op.top_k(a[0], c([step["k"]]), axis=step["axis"]))
    if name == "Tile":
        return [op.tile(a[0], c(step["repeats"]))]
    if name == "Pad":
        return [op.pad(a[0], c(step["pads"]))]
    if name == "OneHot":
        return [op.one_hot(a[0], c(step["depth"]), c([0.0, 1.0], np.float32), axis=step["axis"])]
    if name == "ConstantOfShape":
        return [op.constant_of_shape(op.shape(a[0]))]
    if name == "Compress":
        return [op.compress(a[0], a[1], axis=step["axis"])]
    if name == "Split":
        if opset >= 18:
            return list(op.split(a[0], None, axis=step["axis"], num_outputs=step["n"]))
        return list(op.split(a[0], None, outputs_count=step["n"], axis=step["axis"]))
    if name == "Where":
        return [op.where(*a)]
    if name == "CumSum":
        return [op.cumsum(a[0], c(step["axis"]))]
    if name == "Range":
        return [op.range(c(0), a[0], c(1))]
    if name == "If":
        def branch(steps):
            def f():
                inner = list(env)
                new = []
                for s in steps:
                    try:
                        got = apply_step(s, inner, op, opset, expose)
                    except Exception:  # noqa: BLE001
                        got = []
                    inner += got
                    new += got
                res = [v for v in new if isinstance(v.type, Tensor)][-1:]
                return res or [op.identity(env[step["args"][0]])]
            return f
        return list(op.if_(a[0], then_branch=branch(step["then"]), else_branch=branch(step["else"])))
    if name == "Loop":
        def body(i, cnd, *carried):
            outs = []
            for kind, v, outer in zip(step["bodies"], carried, a):
                if kind == "id":
                    r = v
                elif kind == "add-self":
                    r = op.add(v, v)
                elif kind == "concat0":
                    r = op.concat([v, v], axis=0)
                elif kind == "concat-transpose":
                    r = op.transpose(op.concat([v, v], axis=0))
                elif kind == "slice0":
                    r = op.slice(v, c([0]), c([1]), c([0]))
                elif kind == "flatten":
                    r = op.reshape(v, c([-1]))
                elif kind == "const3":
                    r = op.cast(c([1, 2, 3]), to=v.unwrap_tensor().dtype)
                elif kind == "outer-add":
                    r = op.add(v, outer)
                else:
                    r = op.abs(v)
                outs.append(r)
            scan = {"iter": [i], "carried": [op.identity(carried[0])], "sum": [op.reduce_sum(op.cast(carried[0], to=np.float32), keepdims=0)],
                    "none": []}[step["scan"]]
            return [cnd, *outs, *scan]
        return list(op.loop(env[step["M"]], None, v_initial=a, body=body))
    if name == "Scan":
        state, xs = a

        def sbody(s, x):
            # the type DECLARED for the scanned-element argument against what Scan hands the body at run time: the operand without the
            # scanned axis (ONNX Scan: "scan_input_axes ... negative value means counting dimensions from the back")
            full = xs.unwrap_tensor().shape
            if full is not None:
                ax = (step.get("axis") or 0) % len(full)
                BODY_ARG_OBS.append({"opset": opset, "axis": step.get("axis"), "operand": td_of_type(xs.type), "declared": td_of_type(x.type),
                                     "runtime_shape": [d if isinstance(d, int) else None for d in full[:ax] + full[ax + 1:]]})
            if step["body"] == "sum":
                return [op.add(s, op.reduce_sum(x, keepdims=0)), op.reduce_sum(x, keepdims=0)]
            if step["body"] == "keep":
                return [s, x]
            return [op.add(s, op.reduce_sum(xs, keepdims=0)), op.add(x, x)]
        if step.get("axis") is not None:
            return list(op.scan([state, xs], body=sbody, num_scan_inputs=1, scan_input_axes=[step["axis"]]))
        return list(op.scan([state, xs], body=sbody, num_scan_inputs=1))
    if name == "Inline":
        m = _inline_model(op, step["inner"], step["decl"], a[0].unwrap_tensor())
        if m is None:
            raise ValueError("no inline model for this input type")
        return list(spox.inline(m)(a[0]).values())
    if name == "Function":
        return list(_function(op, opset, step["inner"])(a[0]))
    raise KeyError(name)


BODY_ARG_OBS: list = []   # filled by the Scan bodies of apply_step (generation and interpretation alike), read by c06.body_arg_oracle


def interpret(prog, modules):
    """Run a program through the real constructors.  Returns (input Vars, environment, per-Var origin records)."""
    import warnings

    from spox import Tensor, argument

    op = modules[prog["opset"]]
    ins = [argument(Tensor(ELEMS[t[1]][0], t[2])) for t in prog["inputs"]]
    env = list(ins)
    origin = [{"op": "input", "step": -1} for _ in ins]
    with warnings.catch_warnings():
        warnings.simplefilter("ignore")
        for k, s in enumerate(prog["steps"]):
            try:
                new = apply_step(s, env, op, prog["opset"], None)
            except Exception as e:  # noqa: BLE001
                new = []
                s["_rejected"] = type(e).__name__
            for v in new:
                env.append(v)
                origin.append({"op": s["op"], "step": k, "args": [td_of_type(env[i].type) for i in s["args"]]})
    return ins, env, origin


def grow_program(rng, prog, modules):
    """Generate the steps of a program incrementally (each step sees the types produced so far)."""
    import warnings

    from spox import Tensor, argument

    op = modules[prog["opset"]]
    n = prog["steps"]
    prog["steps"] = []
    ins = [argument(Tensor(ELEMS[t[1]][0], t[2])) for t in prog["inputs"]]
    env = list(ins)
    with warnings.catch_warnings():
        warnings.simplefilter("ignore")
        for _ in range(n):
            s = gen_step(rng, [td_of_type(v.type) for v in env])
            if s is None:
                continue
            try:
                new = apply_step(s, env, op, prog["opset"], None)
            except Exception:  # noqa: BLE001
                continue  # rejected by the constructor: not part of the program
            env += new
            prog["steps"].append(s)
    return prog


def exposable(v) -> bool:
    from spox import Tensor

    return isinstance(v.type, Tensor) and v.type.shape is not None


def input_assignments(rng, prog, limit):
    """Sizes of the unknown dims of the program inputs: each of {0,1,2,3} for each free dim (others random) + all-2."""
    free = []
    for k, t in enumerate(prog["inputs"]):
        for j, d in enumerate(t[2]):
            if d is None:
                free.append(f"?{k}.{j}")
            elif isinstance(d, str) and d not in free:
                free.append(d)
    out = [{v: 2 for v in free}]
    for v in free:
        for val in (0, 1, 2, 3):
            asg = {w: rng.choice([1, 2, 3]) for w in free}
            asg[v] = val
            out.append(asg)
    head, tail = out[:1], out[1:]
    rng.shuffle(tail)
    return (head + tail)[:limit]


def input_shapes(prog, asg):
    return [tuple(asg[f"?{k}.{j}"] if d is None else (asg[d] if isinstance(d, str) else d) for j, d in enumerate(t[2]))
            for k, t in enumerate(prog["inputs"])]
