"""C06 helper — running built models in onnxruntime inside worker processes.

Kept in a separate process pool because (a) some malformed ai.onnx.ml attribute sets abort the interpreter inside
onnxruntime's C++ code, which must not take the check down with it, and (b) the runs are independent, so they
parallelise.  A worker returns, per feed, either ``("ok", [(dtype_name, shape), ...])`` or ``("err", message)``.
"""

from __future__ import annotations

import numpy as np


def _dtype_name(a) -> str:
    if a.dtype == object or a.dtype.kind in "US":
        return "str"
    return str(a.dtype)


def _strip_output_types(model_bytes: bytes) -> bytes:
    """Erase the declared types of graph outputs and intermediate values (used when onnxruntime refuses the model as
    built because a *declared* type contradicts the operator: the values are then observed without the declaration)."""
    import onnx

    m = onnx.load_model_from_string(model_bytes)

    def strip(g):
        del g.value_info[:]
        for o in g.output:
            o.type.Clear()
        for n in g.node:
            for a in n.attribute:
                if a.type == onnx.AttributeProto.GRAPH:
                    del a.g.value_info[:]
    strip(m.graph)
    return m.SerializeToString()


def run_model(job):
    """job = (model_bytes, feeds, allow_strip) with feeds = list of {name: ndarray}.

    Returns {"load": "ok"|"stripped"|"err", "load_msg": str, "runs": [...], "names": [...]}"""
    import onnxruntime as ort

    ort.set_default_logger_severity(4)
    model_bytes, feeds, allow_strip = job
    out = {"load": "ok", "load_msg": "", "runs": [], "names": []}
    so = ort.SessionOptions()
    so.intra_op_num_threads = 1
    so.inter_op_num_threads = 1
    so.log_severity_level = 4
    try:
        sess = ort.InferenceSession(model_bytes, so, providers=["CPUExecutionProvider"])
    except Exception as e:  # noqa: BLE001
        msg = str(e)
        out["load_msg"] = msg[:400]
        sess = None
        if allow_strip:
            try:
                sess = ort.InferenceSession(_strip_output_types(model_bytes), so, providers=["CPUExecutionProvider"])
                out["load"] = "stripped"
            except Exception as e2:  # noqa: BLE001
                out["load_msg"] += " || stripped: " + str(e2)[:300]
                sess = None
        if sess is None:
            out["load"] = "err"
            return out
    out["names"] = [o.name for o in sess.get_outputs()]
    for feed in feeds:
        try:
            res = sess.run(None, feed)
            out["runs"].append(("ok", [(_dtype_name(np.asarray(r)), tuple(int(d) for d in np.asarray(r).shape))
                                       if not isinstance(r, (list, dict)) else ("nontensor", ()) for r in res]))
        except Exception as e:  # noqa: BLE001
            out["runs"].append(("err", str(e)[:300]))
    return out


def run_reference(job):
    """Second runtime for operator instances onnxruntime has no kernel for: ONNX's reference evaluator."""
    import onnx
    from onnx.reference import ReferenceEvaluator

    model_bytes, feeds, _ = job
    out = {"load": "ok", "load_msg": "", "runs": [], "names": []}
    try:
        m = onnx.load_model_from_string(model_bytes)
        sess = ReferenceEvaluator(m)
        out["names"] = [o.name for o in m.graph.output]
    except Exception as e:  # noqa: BLE001
        out["load"], out["load_msg"] = "err", str(e)[:300]
        return out
    for feed in feeds:
        try:
            res = sess.run(None, feed)
            out["runs"].append(("ok", [(_dtype_name(np.asarray(r)), tuple(int(d) for d in np.asarray(r).shape)) for r in res]))
        except Exception as e:  # noqa: BLE001
            out["runs"].append(("err", str(e)[:300]))
    return out


def _worker(fn, inq, outq):
    import os

    while True:
        item = inq.get()
        if item is None:
            return
        i, job = item
        outq.put(("start", i, os.getpid()))
        try:
            r = fn(job)
        except Exception as e:  # noqa: BLE001
            r = {"load": "err", "load_msg": f"worker exception: {e}", "runs": [], "names": []}
        outq.put(("done", i, r))


class Pool:
    """Worker processes that survive a crashing job: the job a worker was running when it died is reported as
    ``{"load": "crash"}``, a fresh worker takes over, all other jobs complete normally."""

    def __init__(self, workers: int):
        self.workers = workers
        self.crashes = 0

    def map(self, fn, jobs):
        import multiprocessing as mp
        import queue

        if not jobs:
            return []
        ctx = mp.get_context("fork")
        inq, outq = ctx.Queue(), ctx.Queue()
        for i, j in enumerate(jobs):
            inq.put((i, j))
        n_workers = min(self.workers, len(jobs))
        procs = {}

        def spawn():
            p = ctx.Process(target=_worker, args=(fn, inq, outq), daemon=True)
            p.start()
            procs[p.pid] = p
        for _ in range(n_workers):
            spawn()
        results = [None] * len(jobs)
        running = {}  # pid -> job index
        done = 0
        idle_rounds = 0
        while done < len(jobs):
            try:
                kind, i, payload = outq.get(timeout=0.5)
                idle_rounds = 0
                if kind == "start":
                    running[payload] = i
                else:
                    if results[i] is None:
                        results[i] = payload
                        done += 1
                    for pid, j in list(running.items()):
                        if j == i:
                            del running[pid]
                continue
            except queue.Empty:
                idle_rounds += 1
            for pid, p in list(procs.items()):
                if not p.is_alive():
                    del procs[pid]
                    i = running.pop(pid, None)
                    if i is not None and results[i] is None:
                        self.crashes += 1
                        results[i] = {"load": "crash", "load_msg": "the runtime aborted the process", "runs": [], "names": []}
                        done += 1
                    if done < len(jobs):
                        spawn()
            if idle_rounds > 1200:  # 10 minutes without any progress
                break
        for _ in procs:
            inq.put(None)
        for p in procs.values():
            p.join(timeout=2)
            if p.is_alive():
                p.terminate()
        return [r if r is not None else {"load": "err", "load_msg": "no result (timeout)", "runs": [], "names": []} for r in results]
