"""C06 helper — running built models in onnxruntime inside worker processes.

Kept in a separate process pool because (a) some malformed ai.onnx.ml attribute sets abort the interpreter inside
onnxruntime's C++ code, which must not take the check down with it, and (b) the runs are independent, so they
parallelise.  A worker returns, per feed, either ``("ok", [(dtype_name, shape), ...])`` or ``("err", message)``.
"""

from __future__ import annotations

import numpy as np


def _dtype_name(a) -> str:
    if a.dtype == object or a.dtype.kind in "US":
        return "str"
    return str(a.dtype)


def _strip_output_types(model_bytes: bytes) -> bytes:
    """Erase the declared types of graph outputs and intermediate values (used when onnxruntime refuses the model as
    built because a *declared* type contradicts the operator: the values are then observed without the declaration)."""
    import onnx

    m = onnx.load_model_from_string(model_bytes)

    def strip(g):
        del g.value_info[:]
        for o in g.output:
            o.type.Clear()
        for n in g.node:
            for a in n.attribute:
                if a.type == onnx.AttributeProto.GRAPH:
                    del a.g.value_info[:]
    strip(m.graph)
    return m.SerializeToString()


def run_model(job):
    """job = (model_bytes, feeds, allow_strip) with feeds = list of {name: ndarray}.

    Returns {"load": "ok"|"stripped"|"err", "load_msg": str, "runs": [...], "names": [...]}"""
    import onnxruntime as ort

    ort.set_default_logger_severity(4)
    model_bytes, feeds, allow_strip = job
    out = {"load": "ok", "load_msg": "", "runs": [], "names": []}
    so = ort.SessionOptions()
    so.intra_op_num_threads = 1
    so.inter_op_num_threads = 1
    so.log_severity_level = 4
    try:
        sess = ort.InferenceSession(model_bytes, so, providers=["CPUExecutionProvider"])
    except Exception as e:  # noqa: BLE001
        msg = str(e)
        out["load_msg"] = msg[:400]
        sess = None
        if allow_strip:
            try:
                sess = ort.InferenceSession(_strip_output_types(model_bytes), so, providers=["CPUExecutionProvider"])
                out["load"] = "stripped"
            except Exception as e2:  # noqa: BLE001
                out["load_msg"] += " || stripped: " + str(e2)[:300]
                sess = None
        if sess is None:
            out["load"] = "err"
            return out
    out["names"] = [o.name for o in sess.get_outputs()]
    for feed in feeds:
        try:
            res = sess.run(None, feed)
            out["runs"].append(("ok", [(_dtype_name(np.asarray(r)), tuple(int(d) for d in np.asarray(r).shape))
                                       if not isinstance(r, (list, dict)) else ("nontensor", ()) for r in res]))
        except Exception as e:  # noqa: BLE001
            out["runs"].append(("err", str(e)[:300]))
    return out


def run_reference(job):
    """Second runtime for operator instances onnxruntime has no kernel for: ONNX's reference evaluator."""
    import onnx
    from onnx.reference import ReferenceEvaluator

    model_bytes, feeds, _ = job
    out = {"load": "ok", "load_msg": "", "runs": [], "names": []}
    try:
        m = onnx.load_model_from_string(model_bytes)
        sess = ReferenceEvaluator(m)
        out["names"] = [o.name for o in m.graph.output]
    except Exception as e:  # noqa: BLE001
        out["load"], out["load_msg"] = "err", str(e)[:300]
        return out
    for feed in feeds:
        try:
            res = sess.run(None, feed)
            out["runs"].append(("ok", [(_dtype_name(np.asarray(r)), tuple(int(d) for d in np.asarray(r).shape)) for r in res]))
        except Exception as e:  # noqa: BLE001
            out["runs"].append(("err", str(e)[:300]))
    return out


def _worker(fn, conn):
    while True:
        try:
            item = conn.recv()
        except (EOFError, OSError):
            return
        if item is None:
            return
        i, job = item
        try:
            r = fn(job)
        except Exception as e:  # noqa: BLE001
            r = {"load": "err", "load_msg": f"worker exception: {e}", "runs": [], "names": []}
        conn.send((i, r))


class Pool:
    """Worker processes, one duplex pipe each (synchronous sends), that survive a crashing job: the job a worker was
    given when it died is reported as ``{"load": "crash"}``, a fresh worker takes over, all other jobs complete."""

    JOB_TIMEOUT = 300.0

    def __init__(self, workers: int):
        self.workers = workers
        self.crashes = 0

    def map(self, fn, jobs):
        import multiprocessing as mp
        import time
        from multiprocessing.connection import wait

        if not jobs:
            return []
        ctx = mp.get_context("fork")
        results = [None] * len(jobs)
        state = {}  # parent conn -> [process, current job index | None, start time]
        nxt = [0]
        done = [0]

        def assign(conn):
            if nxt[0] < len(jobs):
                i = nxt[0]
                nxt[0] += 1
                state[conn][1], state[conn][2] = i, time.time()
                conn.send((i, jobs[i]))
            else:
                state[conn][1] = None
                try:
                    conn.send(None)
                except OSError:
                    pass

        def spawn():
            a, b = ctx.Pipe(duplex=True)
            p = ctx.Process(target=_worker, args=(fn, b), daemon=True)
            p.start()
            b.close()
            state[a] = [p, None, time.time()]
            assign(a)

        def lost(conn, why):
            p, i, _ = state.pop(conn)
            try:
                conn.close()
            except OSError:
                pass
            if p.is_alive():
                p.terminate()
            p.join(timeout=2)
            if i is not None and results[i] is None:
                self.crashes += 1
                results[i] = {"load": "crash", "load_msg": why, "runs": [], "names": []}
                done[0] += 1
            if nxt[0] < len(jobs):
                spawn()
        for _ in range(min(self.workers, len(jobs))):
            spawn()
        while done[0] < len(jobs) and state:
            busy = [c for c, st in state.items() if st[1] is not None]
            if not busy:
                break
            for conn in wait(busy, timeout=1.0):
                try:
                    i, r = conn.recv()
                except (EOFError, OSError):
                    lost(conn, "the runtime aborted the process")
                    continue
                if results[i] is None:
                    results[i] = r
                    done[0] += 1
                assign(conn)
            now = time.time()
            for conn, st in list(state.items()):
                if st[1] is not None and now - st[2] > self.JOB_TIMEOUT:
                    lost(conn, "the runtime did not finish within the time limit")
        for conn, (p, _, _) in list(state.items()):
            try:
                conn.close()
            except OSError:
                pass
            p.join(timeout=2)
            if p.is_alive():
                p.terminate()
        return [r if r is not None else {"load": "err", "load_msg": "no result", "runs": [], "names": []} for r in results]
