"""C06 helper — running built models in onnxruntime inside worker processes.

Kept in a separate process pool because (a) some malformed ai.onnx.ml attribute sets abort the interpreter inside
onnxruntime's C++ code, which must not take the check down with it, and (b) the runs are independent, so they
parallelise.  A worker returns, per feed, either ``("ok", [(dtype_name, shape), ...])`` or ``("err", message)``.
"""

from __future__ import annotations

import numpy as np


def _dtype_name(a) -> str:
    if a.dtype == object or a.dtype.kind in "US":
        return "str"
    return str(a.dtype)


def _strip_output_types(model_bytes: bytes) -> bytes:
    """Erase the declared types of graph outputs and intermediate values (used when onnxruntime refuses the model as
    built because a *declared* type contradicts the operator: the values are then observed without the declaration)."""
    import onnx

    m = onnx.load_model_from_string(model_bytes)

    def strip(g):
        del g.value_info[:]
        for o in g.output:
            o.type.Clear()
        for n in g.node:
            for a in n.attribute:
                if a.type == onnx.AttributeProto.GRAPH:
                    del a.g.value_info[:]
    strip(m.graph)
    return m.SerializeToString()


def run_model(job):
    """job = (model_bytes, feeds, allow_strip) with feeds = list of {name: ndarray}.

    Returns {"load": "ok"|"stripped"|"err", "load_msg": str, "runs": [...], "names": [...]}"""
    import onnxruntime as ort

    ort.set_default_logger_severity(4)
    model_bytes, feeds, allow_strip = job
    out = {"load": "ok", "load_msg": "", "runs": [], "names": []}
    so = ort.SessionOptions()
    so.intra_op_num_threads = 1
    so.inter_op_num_threads = 1
    so.log_severity_level = 4
    try:
        sess = ort.InferenceSession(model_bytes, so, providers=["CPUExecutionProvider"])
    except Exception as e:  # noqa: BLE001
        msg = str(e)
        out["load_msg"] = msg[:400]
        sess = None
        if allow_strip:
            try:
                sess = ort.InferenceSession(_strip_output_types(model_bytes), so, providers=["CPUExecutionProvider"])
                out["load"] = "stripped"
            except Exception as e2:  # noqa: BLE001
                out["load_msg"] += " || stripped: " + str(e2)[:300]
                sess = None
        if sess is None:
            out["load"] = "err"
            return out
    out["names"] = [o.name for o in sess.get_outputs()]
    for feed in feeds:
        try:
            res = sess.run(None, feed)
            out["runs"].append(("ok", [(_dtype_name(np.asarray(r)), tuple(int(d) for d in np.asarray(r).shape))
                                       if not isinstance(r, (list, dict)) else ("nontensor", ()) for r in res]))
        except Exception as e:  # noqa: BLE001
            out["runs"].append(("err", str(e)[:300]))
    return out


def run_reference(job):
    """Second runtime for operator instances onnxruntime has no kernel for: ONNX's reference evaluator."""
    import onnx
    from onnx.reference import ReferenceEvaluator

    model_bytes, feeds, _ = job
    out = {"load": "ok", "load_msg": "", "runs": [], "names": []}
    try:
        m = onnx.load_model_from_string(model_bytes)
        sess = ReferenceEvaluator(m)
        out["names"] = [o.name for o in m.graph.output]
    except Exception as e:  # noqa: BLE001
        out["load"], out["load_msg"] = "err", str(e)[:300]
        return out
    for feed in feeds:
        try:
            res = sess.run(None, feed)
            out["runs"].append(("ok", [(_dtype_name(np.asarray(r)), tuple(int(d) for d in np.asarray(r).shape)) for r in res]))
        except Exception as e:  # noqa: BLE001
            out["runs"].append(("err", str(e)[:300]))
    return out


class Pool:
    """Process pool that survives a crashing worker: the crashed job is reported, the others are re-run."""

    def __init__(self, workers: int):
        self.workers = workers
        self.crashes = 0

    def map(self, fn, jobs):
        from concurrent.futures import ProcessPoolExecutor
        from concurrent.futures.process import BrokenProcessPool
        import multiprocessing as mp

        results = [None] * len(jobs)
        pending = list(range(len(jobs)))
        ctx = mp.get_context("fork")
        rounds = 0
        while pending and rounds < 6:
            rounds += 1
            with ProcessPoolExecutor(max_workers=self.workers, mp_context=ctx) as ex:
                futs = {i: ex.submit(fn, jobs[i]) for i in pending}
                broken = []
                for i, f in futs.items():
                    try:
                        results[i] = f.result(timeout=600)
                    except BrokenProcessPool:
                        broken.append(i)
                    except Exception as e:  # noqa: BLE001
                        results[i] = {"load": "err", "load_msg": f"worker exception: {e}", "runs": [], "names": []}
            if not broken:
                break
            # find the crashing job(s) by running the broken ones one by one in single-job pools
            pending = []
            for i in broken:
                try:
                    with ProcessPoolExecutor(max_workers=1, mp_context=ctx) as ex1:
                        results[i] = ex1.submit(fn, jobs[i]).result(timeout=600)
                except BrokenProcessPool:
                    self.crashes += 1
                    results[i] = {"load": "crash", "load_msg": "the runtime aborted the process", "runs": [], "names": []}
                except Exception as e:  # noqa: BLE001
                    results[i] = {"load": "err", "load_msg": f"worker exception: {e}", "runs": [], "names": []}
        return results
