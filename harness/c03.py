"""C03 — the model's inputs and outputs are exactly what was requested.

Model: coq/Build.v build_public (public checks, temporary renames, with_arguments / drop_unused_inputs, value infos,
additional-inputs KeyError) + Validate.io_exact; theorems: coq/props/C03.v.  Correspondence: exact rendering incl.
graph.input / graph.output names, order and types, exception class exactly.  Direct oracle on the implementation:
names/order/types of graph inputs and outputs vs the request (dependency set recomputed by an independent walker),
exception class for missing inputs / bad kinds / empty outputs; drop_unused_inputs=True cases with >= 2 surviving
inputs are repeated in fresh processes under 4 PYTHONHASHSEEDs."""

from __future__ import annotations

import collections
import json
import os
import subprocess
import sys

from harness import buildlib as B
from harness.common import Run

CONE = ["Base.v", "IR.v", "Show.v", "Build.v", "Sem.v", "Plan.v", "Named.v", "Validate.v", "BuildFacts.v", "SemFacts.v", "CompilePres.v", "ScopeFacts.v", "IOFacts.v"]
PROPS = "props/C03.v"


DECLARED: dict = {}


def make_request(rng, ins, outs, mode):
    """Returns (inputs dict, outputs dict, drop, expectation)."""
    import numpy as np

    items = list(ins.items())
    drop = rng.random() < 0.5
    if mode == "permute":
        rng.shuffle(items)
        return dict(items), outs, drop
    if mode == "subset":
        rng.shuffle(items)
        k = rng.randint(0, len(items))
        return dict(items[:k]), outs, drop
    if mode == "extra":
        for j in range(rng.randint(1, 2)):
            items.insert(rng.randint(0, len(items)), (f"extra{j}", B.argument(B.Tensor(np.float32, ("N", 3, None)))))
        return dict(items), outs, drop
    if mode == "varied_types":
        # inputs/outputs of every shape of type: zero-length, symbolic and unknown dimensions, scalars, other element types
        shapes = [(0, 3), (0,), (2, 0, 1), ("N", 0), (), ("N",), (None, 2), ("N", "M", 3), (1,), (5, 1, 1)]
        dtypes = [np.float32, np.float64, np.int64, np.int32, np.uint8, np.bool_, np.str_, np.float16]
        o = dict(outs)
        for j in range(rng.randint(1, 3)):
            dt, sh = rng.choice(dtypes), rng.choice(shapes)
            a = B.argument(B.Tensor(dt, sh))
            # what was declared, rendered from the literal (dtype, shape) and not from the library's own Type object
            DECLARED[id(a)] = (a, B.render_dtype_np(np.dtype(dt)) + "[" + ",".join("?" if d is None else str(d) for d in sh) + "]")
            items.insert(rng.randint(0, len(items)), (f"t{j}", a))
            if rng.random() < 0.8:
                o[f"ot{j}"] = B.op17.identity(a)
        return dict(items), o, drop
    if mode == "output_name_clash":
        # an output requested under the name of an input, or under a name the builder generates for some value: either build
        # refuses, or the output carries exactly that name
        o = dict(outs)
        k0 = rng.choice(list(o))
        v0 = o.pop(k0)
        pool = [k for k, _ in items] + ["Add_0_C", "Relu_0_Y", "Mul_0_C", "Constant_0_output", "If_0_outputs_0", "Introduce_0_outputs_0", "Sub_0_C"]
        o[rng.choice(pool)] = v0
        return dict(items), o, drop
    if mode == "generated_name_of_missing":
        # a used argument is NOT listed, while unused arguments are listed under the names the builder would generate for it
        dep = B.dependency_arguments(list(outs.values()))
        used = [(k, v) for k, v in items if any(v is d for d in dep)]
        if used:
            k0, v0 = rng.choice(used)
            items = [(k, v) for k, v in items if v is not v0]
            for j in range(4):
                items.insert(rng.randint(0, len(items)), (f"Argument_{j}_arg", B.argument(B.Tensor(np.float64, (3,)))))
        return dict(items), outs, True
    if mode == "bad_input_kind":
        items.insert(rng.randint(0, len(items)), ("bad", rng.choice([1, "x", None, 2.5])))
        return dict(items), outs, drop
    if mode == "bad_output_kind":
        o = dict(outs)
        o["bad"] = rng.choice([1, "x", None])
        return dict(items), o, drop
    if mode == "non_argument_input":
        items.insert(rng.randint(0, len(items)), ("na", rng.choice(list(outs.values()))))
        return dict(items), outs, drop
    if mode == "no_outputs":
        return dict(items), {}, drop
    return ins, outs, drop


def direct_oracle(c: B.Case):
    """Decide the property statement on the implementation's observable result alone. Returns list of problems."""
    from spox._var import Var

    problems = []
    ins, outs, drop = c.ins, c.outs, c.drop
    bad_in = [k for k, v in ins.items() if not isinstance(v, Var)]
    bad_out = [k for k, v in outs.items() if not isinstance(v, Var)]
    non_arg = [k for k, v in ins.items() if isinstance(v, Var) and not isinstance(v._op, B.Argument)]
    exc = type(c.exc).__name__ if c.exc is not None else None
    if bad_in or bad_out or non_arg:
        if exc != "TypeError":
            problems.append(f"inputs that are not arguments / non-Var inputs or outputs must raise TypeError, got {exc or 'a model'}")
        return problems
    if not outs:
        if exc != "ValueError":
            problems.append(f"empty outputs: expected ValueError, got {exc or 'a model'}")
        return problems
    dep = B.dependency_arguments(list(outs.values()))
    listed = {id(v) for v in ins.values()}
    missing = [v for v in dep if id(v) not in listed]
    if missing and c.meta.get("legal", True):
        if exc != "KeyError":
            problems.append(f"an output depends on an unlisted argument: expected KeyError, got {exc or 'a model'}")
        return problems
    if c.model_proto is None:
        # the generator makes legal programs (no leaks) whose inputs/outputs have a rank: a well-formed request must be served
        if c.meta.get("legal", True) and not (isinstance(c.exc, ValueError) and "does not specify the shape" in str(c.exc)) \
                and len(set(map(id, ins.values()))) == len(ins):
            problems.append(f"well-formed request rejected: all dependencies are listed but build raised {exc}")
        return problems
    m = c.model_proto
    depids = {id(v) for v in dep}
    want = [(k, v) for k, v in ins.items() if (not drop or id(v) in depids)]
    got = [(i.name, B.render_onnx_type(i.type)) for i in m.graph.input]
    exp = [(k, B.render_spox_type(v.type)) for k, v in want]
    if got != exp:
        problems.append(f"graph inputs {got} != requested {exp} (drop_unused_inputs={drop})")
    for (k, v), (gn, gt) in zip(want, got):
        if id(v) in DECLARED and DECLARED[id(v)][1] != gt:
            problems.append(f"graph input {k} was declared {DECLARED[id(v)][1]} but the model says {gt}")
    goto = [(o.name, B.render_onnx_type(o.type)) for o in m.graph.output]
    expo = [(k, B.render_spox_type(v.type)) for k, v in outs.items()]
    if goto != expo:
        problems.append(f"graph outputs {goto} != requested {expo}")
    return problems


def gen_cases(run: Run, n: int):
    rng = run.rng
    g = B.GenX(rng, leak_p=0.0)
    modes = ["asis"] * 2 + ["after_failed_build"] * 3 + ["permute"] * 4 + ["subset"] * 3 + ["extra"] * 3 + ["varied_types"] * 4 + ["generated_name_of_missing"] * 2 + ["output_name_clash"] * 3 + ["after_build_under_other_names"] * 4 + ["many_outputs"] * 3 + ["bad_input_kind", "bad_output_kind", "non_argument_input", "no_outputs"]
    cases = []
    while len(cases) < n:
        ins, outs = g.program()
        mode = rng.choice(modes)
        if mode == "after_failed_build":
            # 1st build: a used argument is forgotten -> KeyError.  2nd build (same process): another used argument `a` is not
            # listed, while an unused fresh argument is listed under the name `a` had in the first build -> must be KeyError again.
            dep = B.dependency_arguments(list(outs.values()))
            named = [(k, v) for k, v in ins.items() if any(v is d for d in dep)]
            if len(named) < 2:
                mode = "asis"
            else:
                (ka, a), (kb, b) = named[0], named[1]
                # (half of the time the 1st build lists everything and SUCCEEDS: the names it gave must be gone all the same)
                first = ({k: v for k, v in ins.items() if v is not b}, outs, False) if rng.random() < 0.5 else (dict(ins), outs, rng.random() < 0.5)
                import numpy as np
                fresh = B.argument(B.Tensor(np.int64, (2, 3)))
                second = {k: v for k, v in ins.items() if v is not a}
                second[ka] = fresh
                if rng.random() < 0.5:      # ... or ANOTHER USED argument is listed under the name `a` had
                    second = {k: v for k, v in ins.items() if v is not a and v is not b}
                    second[ka] = b
                c = B.Case(second, outs, True, {"mode": mode, "legal": True})
                c.pre = first
                cases.append(c)
                continue
        if mode == "after_build_under_other_names":
            # 1st build (succeeds): the same Vars, the input names rotated among the arguments and other output names.  2nd build
            # (same process): the request as generated -> which name feeds which Var is decided by THIS request alone.
            ks, vs = list(ins.keys()), list(ins.values())
            sh = rng.randint(1, max(1, len(ks) - 1))
            first = (dict(zip(ks[sh:] + ks[:sh], vs)), {"first_" + k: v for k, v in outs.items()}, rng.random() < 0.5)
            c = B.Case(dict(ins), dict(outs), rng.random() < 0.5, {"mode": mode, "legal": True})
            c.pre = first
            cases.append(c)
            continue
        if mode == "many_outputs":
            # a dozen further outputs (two-digit positions), each a DIFFERENT value of one argument: every
            # output name carries the value of the Var it was given
            import numpy as np
            fl = [v for v in ins.values() if isinstance(v.type, B.Tensor) and v.type.dtype == np.dtype(np.float32) and v.type.shape is not None]
            if fl:
                src = fl[0]
                more = {}
                for k in range(12):
                    y = B.op17.mul(src, B.op17.const(np.array(float(k + 2), np.float32)))
                    more[f"m_{'lcakebjdfhgi'[k]}"] = B.op17.neg(y) if k % 3 == 2 else y
                cases.append(B.Case(dict(ins), {**outs, **more}, rng.random() < 0.5, {"mode": mode, "legal": True}))
                continue
            mode = "asis"
        i2, o2, drop = make_request(rng, ins, outs, mode)
        cases.append(B.Case(i2, o2, drop, {"mode": mode, "legal": mode != "output_name_clash"}))   # a name clash may be refused
    # an argument the outputs depend on ONLY through nested bodies (If branch / If inside a Loop body / one level deeper) is not listed:
    # KeyError, as for an argument used directly - for both values of drop_unused_inputs
    import numpy as np
    for depth in (1, 2, 3):
        for drop in (False, True):
            cond = B.argument(B.Tensor(np.bool_, ()))
            a = B.argument(B.Tensor(np.float32, (2,)))
            b = B.argument(B.Tensor(np.float32, (2,)))

            def nest(d, acc):
                if d == 1:
                    return B.op17.if_(cond, then_branch=lambda: [B.op17.add(acc, b)], else_branch=lambda: [B.op17.sub(acc, b)])[0]
                if d % 2 == 0:
                    return B.op17.loop(B.op17.const(np.array(2, np.int64)), v_initial=[acc], body=lambda i, c, x: [c, nest(d - 1, x)])[0]
                return B.op17.if_(cond, then_branch=lambda: [nest(d - 1, acc)], else_branch=lambda: [B.op17.identity(acc)])[0]

            cases.append(B.Case({"cond": cond, "a": a}, {"y": nest(depth, a)}, drop, {"mode": "unlisted_argument_used_only_in_nested_bodies", "legal": True}))
    return cases, g.hist


def hashseed_child(seed: int, idx_list):
    """Re-generates the same cases (same VERIF_SEED) in this fresh process and prints the graph.input names."""
    run = Run("C03", "quick", seed)
    cases, _ = gen_cases(run, max(idx_list) + 1)
    out = {}
    for i in idx_list:
        c = cases[i]
        r, m, e = B.outcome(lambda: B.build(c.ins, c.outs, drop_unused_inputs=c.drop))
        out[i] = [x.name for x in m.graph.input] if m is not None else r
        if m is not None:
            out[f"bytes{i}"] = __import__("hashlib").sha256(m.SerializeToString(deterministic=True)).hexdigest()
    print("HASHSEED-RESULT " + json.dumps(out))


def run(run: Run) -> int:
    run.check_theorems(PROPS, CONE, thorough_coqchk=(run.tier == "thorough"))
    n = 300 if run.tier == "quick" else 3000
    cases, hist = gen_cases(run, n)
    mism = B.correspondence(run, "c03", cases)
    # premise of the validator-free theorem C03_inputs_are_the_requested_arguments_under_their_names, evaluated on every request
    live = [c for c in cases if c.coq is not None]
    header = B.COQ_HEADER.replace("Build Show Validate.", "Build Show Validate IOFacts.")
    flags = run.coq_eval("c03wf", header, [f"inputs_wf_b {p} {r}" for p, r in (c.coq for c in live)], shard=max(1, min(60, (len(live) + 15) // 16)))
    n_wf = sum(x.strip() == "true" for x in flags)
    if n_wf != len(live):
        bad = next(c for c, x in zip(live, flags) if x.strip() != "true")
        run.fail("corr", "C03/input-premise-not-met", "a reflected request does not meet the premise of the by-construction input theorem "
                 "(an argument is not an output of its node)", B.describe(bad))
    mode_hist, out_hist = collections.Counter(), collections.Counter()
    distinct = set()
    n_bad = n_values = 0
    import numpy as np
    nprng = np.random.RandomState(run.seed)
    for i, c in enumerate(cases):
        mode_hist[c.meta["mode"] + ("/drop" if c.drop else "")] += 1
        out_hist[c.impl.split(" ")[1] if c.impl.startswith("ERR") else "model"] += 1
        if c.meta["mode"] != "asis":
            distinct.add((c.impl, tuple(c.ins), tuple(c.outs), c.drop))
        probs = direct_oracle(c)
        if probs:
            n_bad += 1
            kind = "input-order" if "graph inputs" in probs[0] and c.drop else probs[0].split(":")[0][:40].replace(" ", "-")
            run.fail("impl", f"C03/{kind}", probs[0][:200], {"problems": probs, "case": B.describe(c)})
        elif c.model_proto is not None and (i % 3 == 0 or c.meta["mode"] == "many_outputs") and all(
                isinstance(v.type, B.Tensor) and np.dtype(v.type.dtype).kind in "fiub" for v in list(c.ins.values()) + list(c.outs.values())):
            # ... each output carrying the VALUE of the Var it was given: onnxruntime on the built model vs numpy on the object graph
            from harness import c01
            p = c01.semantic_oracle(c, nprng, trials=1)
            n_values += 1
            if p and "!=" in p:
                n_bad += 1
                run.fail("impl", "C03/output-carries-another-value", p[:300], {"problem": p, "case": B.describe(c)})
    for i in mism[:5]:
        run.fail("corr", f"C03/model-vs-impl/{i}", "model and implementation disagree on the emitted model / exception class",
                 B.describe(cases[i]))
    # fresh processes under several hash seeds
    idx = [i for i, c in enumerate(cases) if c.drop and c.model_proto is not None and len(c.model_proto.graph.input) >= 2]
    idx = idx[: (12 if run.tier == "quick" else 60)]
    seeds_out = {}
    if idx:
        for hs in ("0", "1", "2", "3"):
            env = dict(os.environ, PYTHONHASHSEED=hs)
            code = f"import sys; sys.path.insert(0,{str(__import__('harness.common', fromlist=['VERIF']).VERIF)!r}); from harness import c03; c03.hashseed_child({run.seed}, {idx})"
            p = subprocess.run([sys.executable, "-B", "-W", "ignore", "-c", code], env=env, capture_output=True, text=True, timeout=600)
            line = [l for l in p.stdout.splitlines() if l.startswith("HASHSEED-RESULT ")]
            seeds_out[hs] = json.loads(line[0][len("HASHSEED-RESULT "):]) if line else {"error": p.stderr[-500:]}
        for i in idx:
            vals = {hs: json.dumps(seeds_out[hs].get(str(i))) for hs in seeds_out}
            here = json.dumps([x.name for x in cases[i].model_proto.graph.input])
            if len(set(vals.values())) > 1 or here not in vals.values():
                run.fail("impl", "C03/input-order", "graph.input order depends on the hash seed / process",
                         {"per_hashseed": vals, "this_process": here, "case": B.describe(cases[i])})
    cov = {
        "evaluations": len(cases), "distinct_nontrivial": len(distinct),
        "rule": "random programs x request shapes (permuted, subsets, extra unused arguments, non-Var / non-argument inputs, "
                "non-Var outputs, empty outputs) x drop_unused_inputs; distinct by (request, outcome); non-trivial = request differs from the generator's",
        "traces_validated_against_impl": len([c for c in cases if c.coq is not None]) - len(mism),
        "disagreements_checked": len(mism), "input_theorem_premise_met": f"{n_wf} of {len(live)} requests", "direct_oracle_failures": n_bad, "models_executed_for_output_values": n_values,
        "fresh_process_repeats": {"cases": len(idx), "hash_seeds": 4},
        "input_distribution": {"request_modes": dict(mode_hist), "outcomes": dict(out_hist), "operators": hist},
        "samples": [B.describe(c) for c in cases[:2]],
    }
    return run.finish(cov, [
        "the independent dependency walker (buildlib.dependency_arguments) defines 'depends on' for the oracle",
        "hash-seed independence is established by running the real code in fresh processes, not by proof",
    ])


def replay(run: Run, case) -> int:
    print(json.dumps(case.get("detail"), indent=1)[:4000])
    return 1
