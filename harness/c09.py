"""C09 — one opset per domain; mixed-version programs build and keep their meaning.

Model: coq/Build.v (requirement collection, max_opset_policy) + coq/Adapt.v (which nodes are handed to the version converter,
from which version to which; per-graph targets exactly as the code computes them); theorems: coq/props/C09.v.
Correspondence: opset imports of the model and of every function (exact), the set of conversion decisions (recorded by wrapping
spox._adapt.adapt_node / onnx.version_converter.convert_version from the harness) vs Adapt.decisions, and the whole rendering
when nothing is converted.  Direct oracle: imports recomputed independently from the reachable object graph; full checker +
onnxruntime load; onnxruntime result of the mixed-version model vs direct numpy evaluation of the dataflow (inlined models: onnxruntime on the model itself)."""

from __future__ import annotations

import collections
import importlib
import json
import random
import warnings

import numpy as np
import onnx

from harness import buildlib as B
from harness import c08
from harness.common import Run, coq_list, parse_coq_string

CONE = ["Base.v", "IR.v", "Show.v", "Build.v", "Sem.v", "Plan.v", "Named.v", "Validate.v", "BuildFacts.v", "Adapt.v", "AdaptFacts.v", "PolicyFacts.v", "CompilePres.v", "ScopeFacts.v", "DfsFacts.v", "EmitFacts.v", "IOFacts.v", "ReqFacts.v", "CoverFacts.v"]
PROPS = "props/C09.v"
F32 = np.float32
MODS = {v: importlib.import_module(f"spox.opset.ai.onnx.v{v}") for v in (17, 18, 19, 20, 21)}
ML = {v: importlib.import_module(f"spox.opset.ai.onnx.ml.v{v}") for v in (3, 4, 5)}


class ModProxy:
    """Looks like an opset module; every attribute access picks a module (mixed) or the newest one (reference)."""

    def __init__(self, rng, mixed):
        self.rng, self.mixed, self.used = rng, mixed, collections.Counter()

    def __getattr__(self, name):
        d = self.rng.choice([17, 17, 18, 19, 20, 21])  # the draw sequence is identical in both modes
        v = d if self.mixed else 21
        self.used[v] += 1
        f, f17 = getattr(MODS[v], name), getattr(MODS[17], name)

        def call(*a, **kw):
            # a constructor whose signature differs in the chosen module (e.g. split) falls back to the v17 one in BOTH modes,
            # so that the mixed and the reference build follow the same recipe
            try:
                return f(*a, **kw)
            except (TypeError, AssertionError):
                return f17(*a, **kw)

        return call


class GenM(B.GenX):
    """GenX whose operators come from a mixture of the shipped ai.onnx modules, plus ai.onnx.ml operators of mixed versions and
    inlined models of older opsets."""

    def __init__(self, rng, modrng, mixed, **kw):
        super().__init__(rng, features=("inline", "func"), **kw)
        self.op = ModProxy(modrng, mixed)
        self.modrng, self.mixed = modrng, mixed
        self.old_models = [m for tag, m, ok in c08.corner_models() if tag == "opset13-relu"]
        # an inlined model that spells the default domain 'ai.onnx' (the two spellings must be folded before taking the maximum)
        import onnx
        from onnx import helper as oh, TensorProto as TP
        g = oh.make_graph([oh.make_node("Relu", ["x"], ["y"])], "g", [oh.make_tensor_value_info("x", TP.FLOAT, [2])], [oh.make_tensor_value_info("y", TP.FLOAT, [2])])
        self.old_models.append(oh.make_model(g, opset_imports=[oh.make_operatorsetid("ai.onnx", 15)], ir_version=8))

        # an opset-11 model that also holds a node of another domain (the shape sklearn converters produce): its default-domain
        # nodes (axes still an attribute of Squeeze/Unsqueeze) must be converted like those of a pure default-domain model
        g = oh.make_graph([oh.make_node("Unsqueeze", ["x"], ["u"], axes=[0]), oh.make_node("Squeeze", ["u"], ["s"], axes=[0]),
                           oh.make_node("Scaler", ["s"], ["y"], domain="ai.onnx.ml", scale=[2.0], offset=[0.5])], "g",
                          [oh.make_tensor_value_info("x", TP.FLOAT, [2])], [oh.make_tensor_value_info("y", TP.FLOAT, [2])])
        mm = oh.make_model(g, opset_imports=[oh.make_operatorsetid("", 11), oh.make_operatorsetid("ai.onnx.ml", 1)], ir_version=8)
        onnx.checker.check_model(mm, full_check=True)
        self.old_models.append(mm)

    def make_function(self, depth=0):
        rng = self.rng
        if rng.random() < 0.5:
            return super().make_function(depth)
        from spox._function import to_function

        name = f"R{self.nfun}"
        self.nfun += 1

        def body(x, y):   # body written against the oldest module, with an operator whose schema changed later
            return [MODS[17].add(MODS[17].reduce_max(x, axes=[0], keepdims=1), y)]

        f = to_function(name, "verif.fun")(body)
        return lambda a, b: list(f(a, b))

    def _same2(self, v):
        t = v.type
        if isinstance(t, B.Tensor) and t.shape == (2,) and t.dtype == np.dtype(F32):
            return v
        return MODS[17].add(v, MODS[17].const(np.zeros(2, F32)))

    def _expr(self, pool, depth):
        rng = self.rng
        k = rng.random()
        if k < 0.08:
            self.count("ml.Scaler")
            mv = self.modrng.choice([3, 4, 5]) if self.mixed else (self.modrng.choice([3, 4, 5]) and 5)
            x = self._same2(rng.choice(pool))
            return ML[mv].scaler(x, offset=[1.0, 2.0], scale=[2.0, 0.5])
        if k < 0.13:
            self.count("Inline-old")
            m = rng.choice(self.old_models)
            return list(B.inline(m)(self._same2(rng.choice(pool))).values())[0]
        if k < 0.155:
            # the same operator type from two modules between which its schema changed (18: axes became an input), newer form first
            self.count("SchemaPair")
            x = self._same2(rng.choice(pool))
            name = rng.choice(["reduce_max", "reduce_min", "reduce_mean", "reduce_prod"])
            newer = getattr(MODS[18], name)(x, keepdims=1)
            older = getattr(MODS[17], name)(x, axes=[0], keepdims=1)
            y = MODS[17].add(newer, older)
            return MODS[19].identity(y) if rng.random() < 0.7 else y
        if k < 0.17:
            self.count("ReduceMax(axes attr)")  # version-13 node (axes attribute): invalid unless converted when the model is >= 18
            x = self._same2(rng.choice(pool))
            return MODS[17].add(x, MODS[17].reduce_max(x, axes=[0], keepdims=1))
        if k < 0.24:
            self.count("ReduceSum+Unsqueeze")  # operators whose schema changed across the shipped versions (ReduceSum/ReduceMax: 18, 20)
            x = self._same2(rng.choice(pool))
            r = self.op.reduce_max(x, keepdims=1) if rng.random() < 0.5 else self.op.reduce_min(x, keepdims=1)
            return self.op.add(x, r)
        return super()._expr(pool, depth)


def expected_imports(c: B.Case):
    """Independent recomputation of the property's import rule from the reachable object graph."""
    req = collections.defaultdict(int)
    req[""] = 14
    seen = set()

    def fold(d):
        return "" if d == "ai.onnx" else d

    def visit(v):
        opn = v._op
        if id(opn) in seen:
            return
        seen.add(id(opn))
        if isinstance(opn, B._Inline):
            for imp in opn.model.opset_import:
                req[fold(imp.domain)] = max(req[fold(imp.domain)], imp.version)
        elif isinstance(opn, B.Function):
            req[fold(opn.op_type.domain)] = max(req[fold(opn.op_type.domain)], opn.op_type.version)
            for r in opn.func_graph.requested_results.values():
                visit(r)
        elif not isinstance(opn, (B.Argument, B._Initializer)):
            req[fold(opn.op_type.domain)] = max(req[fold(opn.op_type.domain)], opn.op_type.version)
        for x in opn.inputs:
            if x is not None:
                visit(x)
        for a in opn.attrs.get_fields().values():
            if isinstance(a, B.AttrGraph):
                for r in a.value.requested_results.values():
                    visit(r)

    for v in c.outs.values():
        visit(v)
    return dict(req)


def stale_nodes_in_control_flow_bodies(c: B.Case, target: int):
    """Operator applications inside If/Loop/Scan bodies whose schema at the model's default-domain version differs from the one
    they were written for (the shape of known finding F9b: such nodes are adapted against the body's own requirements)."""
    from spox._schemas import SCHEMAS

    found, seen = [], set()

    def visit(v, depth):
        opn = v._op
        if (id(opn), depth > 0) in seen:
            return
        seen.add((id(opn), depth > 0))
        if depth > 0 and not isinstance(opn, (B.Argument, B._Initializer, B._Inline, B.Function)) and opn.op_type.domain in ("", "ai.onnx"):
            a = SCHEMAS.get("", {}).get(opn.op_type.version, {}).get(opn.op_type.identifier)
            b = SCHEMAS.get("", {}).get(target, {}).get(opn.op_type.identifier)
            if opn.op_type.version != target and not (a is not None and b is not None and a == b):
                found.append(opn.op_type.identifier)
        for x in opn.inputs:
            if x is not None:
                visit(x, depth)
        for at in opn.attrs.get_fields().values():
            if isinstance(at, B.AttrGraph):
                for r in at.value.requested_results.values():
                    visit(r, depth + 1)

    for v in c.outs.values():
        visit(v, 0)
    return found


class Recorder:
    """Records which nodes are handed to the version converter (wraps spox._adapt.adapt_node and adapt_inline's converter)."""

    def __enter__(self):
        import spox._adapt as A

        self.A, self.orig_node, self.orig_conv = A, A.adapt_node, onnx.version_converter.convert_version
        self.calls = []

        def adapt_node(node, proto, source_version, target_version, var_names):
            if source_version != target_version:
                self.calls.append((id(node), source_version, target_version))
            return self.orig_node(node, proto, source_version, target_version, var_names)

        A.adapt_node = adapt_node
        self.orig_inline, self.inline_calls = A.adapt_inline, []

        def adapt_inline(node, protos, target_opsets, var_names, node_name):
            seen, orig = [], onnx.version_converter.convert_version

            def conv(model, target):
                seen.append(target)
                return orig(model, target)

            onnx.version_converter.convert_version = conv
            try:
                return self.orig_inline(node, protos, target_opsets, var_names, node_name)
            finally:
                onnx.version_converter.convert_version = orig
                src = max([i.version for i in node.model.opset_import if i.domain in ("", "ai.onnx")], default=None)
                for t in seen:
                    self.inline_calls.append((id(node), src, t))

        A.adapt_inline = adapt_inline
        return self

    def __exit__(self, *a):
        self.A.adapt_node = self.orig_node
        self.A.adapt_inline = self.orig_inline


def differs_table(refl: B.Reflect):
    from spox._schemas import SCHEMAS

    rows = []
    for k, opn in enumerate(refl._keep_nodes):
        if opn is None:
            continue
        dom = "" if opn.op_type.domain == "ai.onnx" else opn.op_type.domain
        src = SCHEMAS.get(dom, {}).get(opn.op_type.version, {}).get(opn.op_type.identifier)
        for t in range(1, 26):
            tgt = SCHEMAS.get(dom, {}).get(t, {}).get(opn.op_type.identifier)
            if src is None or tgt is None or src != tgt:
                rows.append((k, t))
    return rows


def gen_pair(seed):
    """The same recipe twice: mixed modules, and everything from the newest module (reference)."""
    out = []
    for mixed in (True, False):
        rng, modrng = random.Random(seed), random.Random(seed * 7919 + 1)
        g = GenM(rng, modrng, mixed, leak_p=0.0, max_depth=2)
        with warnings.catch_warnings():
            warnings.simplefilter("ignore")
            ins, outs = g.program()
        out.append((ins, outs, g))
    return out


def fixed_cases():
    """Corners the random recipe reaches rarely: ONE operator of a NON-default domain written against two shipped versions of that domain
    (ai.onnx.ml LabelEncoder-2 from ml.v3 next to LabelEncoder-4 from ml.v5; only default-domain nodes are ever converted, the other
    node is emitted as written and the domain imported at the larger version), alone and next to default-domain operators of two versions;
    and two nodes of one default-domain operator type that are both converted, in the main graph and in sibling If branches."""
    import spox.opset.ai.onnx.ml.v3 as ml3
    import spox.opset.ai.onnx.ml.v5 as ml5

    out = []
    for around in (False, True):
        x = B.argument(B.Tensor(np.int64, ("N",)))
        a = ml3.label_encoder(x, keys_int64s=[1, 2, 3], values_int64s=[10, 20, 30], default_int64=-1)
        b = ml5.label_encoder(x, keys_tensor=np.array([1, 2, 3], np.int64), values_tensor=np.array([100, 200, 300], np.int64),
                              default_tensor=np.array([0], np.int64))
        r = MODS[19].add(MODS[17].mul(a, MODS[17].const(np.int64(2))), b) if around else MODS[17].add(a, b)
        out.append(B.Case({"x": x}, {"out": r}, False, {"fixed": "ml-operator-at-two-versions" + ("+default-domain-mix" if around else "")}))
    # an inlined model (built by spox) that uses a NON-default domain only inside a control-flow body: the surrounding model, which does
    # not use that domain itself and is written against two ai.onnx versions, must import it
    for vouter in (17, 19):
        xi = B.argument(B.Tensor(np.float32, (3,)))
        ci = B.argument(B.Tensor(np.bool_, ()))
        (yi,) = MODS[17].if_(ci, then_branch=lambda: [ml3.binarizer(xi, threshold=0.5)], else_branch=lambda: [MODS[17].neg(xi)])
        inner = B.build({"x": xi, "c": ci}, {"y": yi})
        x = B.argument(B.Tensor(np.float32, (3,)))
        c = B.argument(B.Tensor(np.bool_, ()))
        r = B.inline(inner)(x=x, c=c)["y"]
        out.append(B.Case({"x": x, "c": c}, {"out": MODS[vouter].add(MODS[17].mul(r, r), x)}, False,
                          {"fixed": f"inlined-model-with-ml-operator-in-a-branch/outer-v{vouter}"}))
    # a function written with v17 constructors: built FIRST inside a model that needs opset 19, THEN on its own - what the model around a
    # function needed in an earlier build is no requirement of the function (the later model imports what a fresh trace imports: 14)
    from spox._function import to_function
    fn = to_function("Half", "verif.c09")(lambda x: [MODS[17].mul(x, MODS[17].const(np.array(0.5, np.float32)))])
    xf = B.argument(B.Tensor(np.float32, (3,)))
    (yf,) = list(fn(xf))
    alone = B.Case({"x": xf}, {"y": yf}, False, {"fixed": "function-built-alone-after-a-newer-model"})
    alone.pre = ({"x": xf}, {"y": MODS[19].identity(yf)}, False)
    out.append(alone)
    # an operator whose SIGNATURE is the same at two versions while the admissible VALUES of an attribute changed: GridSample-16
    # (mode bilinear / bicubic) next to an opset-20 operator (GridSample-20: linear / cubic) - default and explicit modes
    for mode in (None, "bilinear", "bicubic", "nearest"):
        xg = B.argument(B.Tensor(np.float32, (1, 1, 4, 4)))
        gg = B.argument(B.Tensor(np.float32, (1, 3, 3, 2)))
        sampled = MODS[17].grid_sample(xg, gg) if mode is None else MODS[17].grid_sample(xg, gg, mode=mode)
        out.append(B.Case({"x": xg, "grid": gg}, {"y": sampled, "z": MODS[20].gelu(sampled)}, False,
                          {"fixed": f"same-signature-other-attribute-values/GridSample-16-mode-{mode}-next-to-opset-20"}))
    from harness import c02
    for fc in c02.converted_twice_cases():
        fc.meta["fixed"] = fc.meta["names"].replace("corner:", "")
        out.append(fc)
    return out


def run(run: Run) -> int:
    run.check_theorems(PROPS, CONE, thorough_coqchk=(run.tier == "thorough"))
    n = 120 if run.tier == "quick" else 1500
    cases, refs, hist = [], [], collections.Counter()
    nprng = np.random.RandomState(run.seed)
    fails = collections.Counter()
    for i in range(n):
        seed = run.rng.randrange(10 ** 9)
        try:
            rng, modrng = random.Random(seed), random.Random(seed * 7919 + 1)
            g = GenM(rng, modrng, True, leak_p=0.0, max_depth=2)
            with warnings.catch_warnings():
                warnings.simplefilter("ignore")
                ins, outs = g.program()
        except Exception as e:  # generation itself failed (e.g. an operator missing in a module): skip, counted
            hist["genfail:" + type(e).__name__] += 1
            continue
        c = B.Case(ins, outs, False, {"recipe_seed": seed})
        with Recorder() as rec:
            B.run_impl(c)
        c.meta["converted"] = rec.calls
        c.meta["converted_inline"] = rec.inline_calls
        cases.append(c)
        refs.append(None)
        hist.update({f"module v{k}": v for k, v in g.op.used.items()})
        hist["outcome " + (c.impl.split(" ")[1] if c.impl.startswith("ERR") else "model")] += 1
        if i % 3 == 0 and c.model_proto is not None:
            # the same Vars built once more next to an operator of the newest module: the final opset may now be another one, and
            # nothing remembered from the first build (converted inlined models, function definitions) may leak into this one
            try:
                with warnings.catch_warnings():
                    warnings.simplefilter("ignore")
                    extra = MODS[21].identity(next(v for v in ins.values() if v.type.dtype == np.dtype(F32)))
            except Exception:  # noqa: BLE001
                continue
            c2 = B.Case(ins, dict(outs, zz_newest=extra), False, {"recipe_seed": seed, "second_build": True})
            with Recorder() as rec:
                B.run_impl(c2)
            c2.meta["converted"] = rec.calls
            c2.meta["converted_inline"] = rec.inline_calls
            cases.append(c2)
            refs.append(None)
            hist["second build at the newest opset"] += 1
    for fc in fixed_cases():
        with Recorder() as rec:
            B.run_impl(fc)
        fc.meta["converted"] = rec.calls
        fc.meta["converted_inline"] = rec.inline_calls
        fc.coq = None                       # judged by the direct oracle
        cases.append(fc)
        refs.append(None)
        hist["fixed: " + fc.meta["fixed"]] += 1
    # --- direct oracles
    n_sem = 0
    for c, _ in zip(cases, refs):
        if c.model_proto is None and isinstance(c.exc, ValueError) and "does not specify the shape" in str(c.exc):
            hist["skipped: requested output of unknown rank"] += 1   # outside the property's precondition
            continue
        if c.model_proto is None:
            msg = str(c.exc)
            exp_imports = expected_imports(c)
            in_body = stale_nodes_in_control_flow_bodies(c, exp_imports.get("", 14))
            mech = "body-adapted-against-body-version" if (in_body and ("Unrecognized attribute" in msg or "No Op registered" in msg or "Bad node spec" in msg)) else None
            if mech is None:
                mech = "converter-name-clash" if ("_v_" in msg or "SSA" in msg) else \
                    "rank-unknown-operand" if ("does not specify the shape" in msg or "Field 'shape' of 'type' is required but missing" in msg or ("shape" in msg.lower() and "infer" in msg.lower())) else "other"
            run.fail("impl", f"C09/mixed-program-does-not-build/{mech}",
                     f"a program mixing shipped opset modules does not build: {c.impl}: {msg[:160]}", {"case": B.describe(c)})
            continue
        m = c.model_proto
        got = collections.Counter(("" if i.domain == "ai.onnx" else i.domain) for i in m.opset_import)
        if any(v > 1 for v in got.values()):
            run.fail("impl", "C09/domain-imported-twice", f"imports {[(i.domain, i.version) for i in m.opset_import]}", {"case": B.describe(c)})
        exp = expected_imports(c)
        have = {("" if i.domain == "ai.onnx" else i.domain): i.version for i in m.opset_import}
        if have != exp:
            run.fail("impl", "C09/import-version", f"opset imports {have} != largest required versions {exp}", {"case": B.describe(c)})
        probs = B.full_check(m)
        if probs:
            run.fail("impl", "C09/node-invalid-at-import", probs[0][:200], {"problems": probs, "case": B.describe(c)})
            continue
        # meaning: onnxruntime on the mixed-version model vs direct evaluation of the dataflow (each operator's own semantics)
        from harness import c01
        prob = c01.semantic_oracle(c, nprng)
        n_sem += 1
        if prob and "Subgraph must have the shape set" in prob:
            hist["skipped: onnxruntime needs shapes on Scan body outputs"] += 1
        elif prob:
            run.fail("impl", "C09/meaning-changed" if "!=" in prob else "C09/ort-run-fails", prob[:300], {"problem": prob, "case": B.describe(c)})
    # --- correspondence
    live = [c for c in cases if c.coq is not None]
    header = B.COQ_HEADER.replace("Validate.", "Validate Adapt.")
    exprs = []
    for c in live:
        refl = c.refl
        tbl = coq_list([f"({k}, {t})" for k, t in differs_table_for(refl)])
        exprs.append(
            f"let differs := fun k t => mem (fun a b => Nat.eqb (fst a) (fst b) && Nat.eqb (snd a) (snd b)) (k, t) {tbl} in "
            f"match build_checked {c.coq[0]} {c.coq[1]} with "
            f"| inl m => (show_imports (mimports m) ++ concat \"\" (map (fun f => \" \" ++ f_name f ++ show_imports (f_imports f)) (mfunctions m)) ++ \" | \" ++ "
            f"join \",\" (map (fun ud => match ud with (NReal k, Convert s t) => (match kind (getn {c.coq[0]} k) with KInline _ _ => \"i\" | _ => \"n\" end) ++ decn k ++ \":\" ++ decn s ++ \">\" ++ decn t | (_, WarnForeign s t) => \"warn\" | _ => \"?\" end) "
            f"(decisions (with_main {c.coq[0]} None []) differs m)) ++ \" | \" ++ "
            f"join \",\" (flat_map (fun u => match u with NReal k => [decn k] | _ => [] end) (all_srcs m)) ++ \" | \" ++ show_model m) | inr e => show_err e end")
    res = [parse_coq_string(x) for x in run.coq_eval("c09", header, exprs, shard=max(1, min(40, (len(exprs) + 15) // 16)))]
    # premise of C09_default_domain_floor_by_construction on every program
    hdr2 = header.replace("Adapt.", "Adapt ReqFacts.") if "ReqFacts" not in header else header
    flags = run.coq_eval("c09wf", hdr2, [f"wf_gargs_b {c.coq[0]}" for c in live], shard=max(1, min(40, (len(live) + 15) // 16)))
    n_wf = sum(x.strip() == "true" for x in flags)
    if n_wf != len(live):
        badc = next(c for c, x in zip(live, flags) if x.strip() != "true")
        run.fail("corr", "C09/floor-premise-not-met", "a reflected program requests a result identity as a graph argument", B.describe(badc))
    mism = 0
    for c, r in zip(live, res):
        if c.model_proto is None:
            ok = r.startswith("ERR ") or True  # builds that fail are judged by the oracle (known converter findings)
            continue
        m = c.model_proto
        imp = B.show_imports(m.opset_import) + "".join(" " + f.name + B.show_imports(f.opset_import) for f in m.functions)
        nodeidx = {id(opn): k for k, opn in enumerate(c.refl._keep_nodes) if opn is not None}
        ident = lambda k: c.refl.nodes[k]["ident"] if isinstance(k, int) and k < len(c.refl.nodes) else "?"
        # compared as sets of (operator, source > target): a function called twice has its body converted once per call in the
        # implementation (the identical definitions are merged afterwards), once in the model
        dec = ",".join(sorted({f"{ident(nodeidx.get(nid))}:{s}>{t}" for nid, s, t in c.meta["converted"]}))
        parts = r.split(" | ", 3)
        if not r.startswith("ERR"):
            emitted = {int(x) for x in parts[2].split(",") if x}
            # a function called twice is converted once per call by the implementation; only the kept definition is compared
            dec = ",".join(sorted({f"{ident(nodeidx.get(nid))}:{s}>{t}" for nid, s, t in c.meta["converted"] if nodeidx.get(nid) in emitted}))
            parts = [parts[0], parts[1], parts[3]]
        if r.startswith("ERR"):
            mism += 1
            run.fail("corr", "C09/model-vs-impl/outcome", "the model predicts an exception where the implementation returns a model", {"model": r, "case": B.describe(c)})
            continue
        def mname(x):
            k, rest = x[1:].split(":", 1)
            return f"{ident(int(k))}:{rest}"
        mdec = ",".join(sorted({mname(x) for x in parts[1].split(",") if x and x != "warn" and x.startswith("n")}))
        # inlined models: which _Inline nodes had their model converted, from which version to which
        idec_model = {x[1:] for x in parts[1].split(",") if x.startswith("i")}
        idec_impl = {f"{nodeidx.get(nid)}:{sv}>{tv}" for nid, sv, tv in c.meta.get("converted_inline", []) if nodeidx.get(nid) in emitted}
        mdec_nodes = ",".join(x for x in mdec.split(",") if x)
        if parts[0] != imp:
            mism += 1
            run.fail("corr", "C09/model-vs-impl/imports", f"imports differ: impl {imp} model {parts[0]}", {"case": B.describe(c)})
        elif set(dec.split(",")) - {""} != set(mdec_nodes.split(",")) - {""}:
            mism += 1
            run.fail("corr", "C09/model-vs-impl/decisions", f"conversion decisions differ: impl [{dec}] model [{mdec_nodes}]", {"case": B.describe(c)})
        elif idec_model != idec_impl:
            mism += 1
            run.fail("corr", "C09/model-vs-impl/inline-decisions", f"conversions of inlined models differ: impl {sorted(idec_impl)} model {sorted(idec_model)}",
                     {"case": B.describe(c)})
        elif not mdec and not idec_model and parts[2] != c.impl:
            mism += 1
            run.fail("corr", "C09/model-vs-impl/rendering", "no conversion needed but the emitted models differ", {"model": parts[2][:600], "case": B.describe(c)})
    cov = {
        "evaluations": len(cases), "distinct_nontrivial": len({c.impl for c in cases if c.model_proto is not None and c.meta["converted"]}),
        "rule": "random programs whose operators are drawn from ai.onnx v17-v21, ai.onnx.ml v3-v5 and inlined opset-13 models; non-trivial = at least one node was handed to the version converter",
        "traces_validated_against_impl": len(live) - mism, "disagreements_checked": mism, "semantic_runs_ort_vs_direct_evaluation": n_sem,
        "input_distribution": dict(hist),
        "samples": [{"converted": c.meta["converted"][:3], "impl": c.impl[:300]} for c in cases[:3]],
    }
    return run.finish(cov, [
        "A: onnx.version_converter preserves operator meaning (oracle); judged by onnxruntime on the built model vs direct evaluation",
        "the schema-difference table is regenerated from spox._schemas.SCHEMAS on every run",
    ])


def differs_table_for(refl):
    from spox._schemas import SCHEMAS

    rows = []
    for k, nd in enumerate(refl.nodes):
        if nd["kind"] != "KOp":
            continue
        dom = "" if nd["domain"] == "ai.onnx" else nd["domain"]
        src = SCHEMAS.get(dom, {}).get(nd["version"], {}).get(nd["ident"])
        for t in range(1, 26):
            tgt = SCHEMAS.get(dom, {}).get(t, {}).get(nd["ident"])
            if not (src is not None and tgt is not None and src == tgt):
                rows.append((k, t))
    return rows


def replay(run: Run, case) -> int:
    print(json.dumps(case.get("detail"), indent=1, default=str)[:4000])
    return 1
