"""C17 — overloaded Python operators on Var follow numpy semantics.

Model: coq/Ops.v (dispatcher: _promote, emitted operator tree, error classes, integer semantics on Z), proofs
coq/OpsFacts.v, snapshot of numpy's tables coq/OpsTable.v (+ OpsTableFacts.v), theorems coq/props/C17.v.

Per run:
  1. translator obligation: numpy's result_type table and numpy's own operator-result-dtype table are REGENERATED from
     the installed numpy, written as Gallina into the scratch directory and the three table checks (check_promo,
     check_nopromo, check_lossless) are re-proved on them by vm_compute and lifted by the proved lemmas of
     OpsFacts.v; side obligations on numpy (numpy scalars act as their dtype, Python scalar values do not change the
     result dtype) are tested directly;
  2. correspondence: every generated operator application is executed against the real dispatcher (inside a real
     operator_overloading block, or outside any block); outcome class (Var / TypeError / OverflowError / onnx
     InferenceError / NotImplemented), result element type and the emitted operator tree (walked back from the result
     Var through Var._op to the operand Vars, with Cast targets, Constant dtypes and integer Constant values) are
     compared INSIDE Coq with the model's prediction; for integer-typed trees the model's Z-semantics (ieval) is also
     compared with the values onnxruntime computed;
  3. direct oracle on the implementation alone: the built model (spox.build -> onnxruntime, graph optimisations
     disabled) and the propagated value (Var._get_value(), constants as operands) against numpy on the same operand
     values: dtype must be numpy's, integers exact, floats allclose; error-class statements of the property
     (no promotion: TypeError; outside a block: TypeError) are decided on the implementation's own outcome.
"""

from __future__ import annotations

import json
import operator
import random
import shutil
import sys
import time
import warnings
from pathlib import Path

from harness.common import COQ, Run, coq_list, sh

CONE = ["Ops.v", "OpsFacts.v", "OpsTable.v", "OpsTableFacts.v"]
PROPS = "props/C17.v"

ETY = ["I8", "I16", "I32", "I64", "U8", "U16", "U32", "U64", "F16", "F32", "F64", "TB"]
NUMERIC = ETY[:-1]
SINT, UINT, FLT = ETY[0:4], ETY[4:8], ETY[8:11]
NPNAME = {"I8": "int8", "I16": "int16", "I32": "int32", "I64": "int64", "U8": "uint8", "U16": "uint16", "U32": "uint32",
          "U64": "uint64", "F16": "float16", "F32": "float32", "F64": "float64", "TB": "bool"}
WIDTH = {"I8": 8, "I16": 16, "I32": 32, "I64": 64, "U8": 8, "U16": 16, "U32": 32, "U64": 64}
ARITH = ["add", "sub", "mul", "truediv", "floordiv"]
ARITH_COQ = {"add": "Add", "sub": "Sub", "mul": "Mul", "truediv": "TrueDiv", "floordiv": "FloorDiv"}
LOGIC = ["and", "or", "xor"]
LOGIC_COQ = {"and": "LAnd", "or": "LOr", "xor": "LXor"}
SETTINGS = [(True, True), (True, False), (False, True), (False, False)]
SHAPES = [((3,), (3,)), ((2, 3), (3,)), ((2, 1), (1, 3)), ((), (3,)), ((3,), ()), ((), ()), ((1,), (2, 2))]
INT_MINIMA = {-(2 ** 7), -(2 ** 15), -(2 ** 31), -(2 ** 63)}

KEY_F10A = "C17/floordiv-int-truncates"
KEY_F10B = "C17/floordiv-float-rounding"
KEY_F21 = "C17/outside-block-unary-notimplemented"
KEY_NEGU = "C17/neg-unsigned-unsupported"


def lo(t):
    return -(2 ** (WIDTH[t] - 1)) if t in SINT else 0


def hi(t):
    return 2 ** (WIDTH[t] - 1) - 1 if t in SINT else (2 ** WIDTH[t] - 1 if t in UINT else 1)


def Z(n):
    return f"({int(n)})%Z"


# ------------------------------------------------------------------------------------------------ numpy tables


def numpy_tables():
    """(rt entries, np entries, side-obligation failures) regenerated from the installed numpy."""
    import numpy as np

    name2ety = {np.dtype(v).name: k for k, v in NPNAME.items()}
    tks = [("TE", t) for t in ETY] + [("TWI", None), ("TWF", None)]

    def rep(tk):  # representative for np.result_type
        return np.dtype(NPNAME[tk[1]]) if tk[0] == "TE" else (1 if tk[0] == "TWI" else 1.0)

    def operand(tk):
        return np.ones(2, dtype=NPNAME[tk[1]]) if tk[0] == "TE" else (1 if tk[0] == "TWI" else 1.0)

    def ety_of(dt):
        return name2ety.get(np.dtype(dt).name)

    fns = {"add": operator.add, "sub": operator.sub, "mul": operator.mul, "truediv": operator.truediv,
           "floordiv": operator.floordiv}
    rt, npt, bad = [], [], []
    with warnings.catch_warnings(), np.errstate(all="ignore"):
        warnings.simplefilter("ignore")
        for x in tks:
            for y in tks:
                try:
                    r = ety_of(np.result_type(rep(x), rep(y)))
                except Exception:  # noqa: BLE001
                    r = None
                rt.append((x, y, r))
                for o in ARITH:
                    if x[0] != "TE" and y[0] != "TE":
                        continue
                    try:
                        r2 = ety_of(fns[o](operand(x), operand(y)).dtype)
                    except Exception:  # noqa: BLE001
                        r2 = None
                    npt.append((o, x, y, r2))
        # side obligations: a numpy scalar operand behaves as its dtype; Python scalar values do not matter
        for t1 in ETY:
            d1 = np.dtype(NPNAME[t1])
            for t2 in ETY:
                d2 = np.dtype(NPNAME[t2])
                s2 = d2.type(1)
                if np.result_type(d1, s2) != np.result_type(d1, d2) or np.result_type(s2, d1) != np.result_type(d2, d1):
                    bad.append(f"np.result_type({t1}, scalar {t2}) differs from the dtype-dtype entry")
                for o in ARITH:
                    try:
                        a = fns[o](np.ones(2, d1), s2).dtype
                    except Exception:  # noqa: BLE001
                        a = None
                    try:
                        b = fns[o](np.ones(2, d1), np.ones(2, d2)).dtype
                    except Exception:  # noqa: BLE001
                        b = None
                    if a != b:
                        bad.append(f"numpy {o}: array {t1} with scalar {t2} gives {a}, with array {b}")
            for v in (0, 1, -1, 7, 127, 2 ** 40):
                if np.result_type(d1, v) != np.result_type(d1, 1):
                    bad.append(f"np.result_type({t1}, {v}) depends on the Python int value")
            for v in (0.5, -1e10, 3.0):
                if np.result_type(d1, v) != np.result_type(d1, 1.0):
                    bad.append(f"np.result_type({t1}, {v}) depends on the Python float value")
    return rt, npt, bad


def tk_coq(tk):
    return f"TE {tk[1]}" if tk[0] == "TE" else tk[0]


def opt_coq(r):
    return "None" if r is None else f"Some {r}"


def table_text(rt, npt, version):
    lines = [
        "(* OpsTable.v — GENERATED by harness/c17.py (python -m harness.c17 gen-table) from numpy's own behaviour;",
        f"   numpy {version}.  rt_tab = np.result_type over (element type | Python int | Python float)^2,",
        "   np_tab = dtype of numpy's own  x <op> y  (arrays for element types, Python scalars for weak kinds).",
        "   Regenerated and re-checked on every run of ./check C17 (translator obligation).  Do not edit. *)",
        "From Coq Require Import ZArith List.",
        "From Spox Require Import Ops.",
        "Import ListNotations.",
        "",
        "Definition rt_tab : rt_table := [",
    ]
    lines.append(";\n".join(f"  ({tk_coq(x)}, {tk_coq(y)}, {opt_coq(r)})" for x, y, r in rt))
    lines.append("].")
    lines.append("Definition np_tab : np_table := [")
    lines.append(";\n".join(f"  ({ARITH_COQ[o]}, {tk_coq(x)}, {tk_coq(y)}, {opt_coq(r)})" for o, x, y, r in npt))
    lines.append("].")
    lines.append("Definition rt0 : tk -> tk -> option ety := rt_lookup rt_tab.")
    lines.append("Definition np0 : arith -> tk -> tk -> option ety := np_lookup np_tab.")
    return "\n".join(lines) + "\n"


TABLE_FACTS = """From Coq Require Import ZArith List Bool.
From Spox Require Import Ops OpsFacts.
From {lib} Require Import {mod}.
Import ListNotations.
Lemma run_check_promo : check_promo rt0 np0 = true. Proof. vm_compute. reflexivity. Qed.
Lemma run_check_nopromo : check_nopromo np0 = true. Proof. vm_compute. reflexivity. Qed.
Lemma run_check_lossless : check_lossless rt0 = true. Proof. vm_compute. reflexivity. Qed.
Definition run_promo := promo_dtype_is_numpys rt0 np0 run_check_promo.
Definition run_nopromo := nopromo_dtype_is_numpys rt0 np0 run_check_nopromo.
Definition run_lossless := int_promotion_lossless rt0 run_check_lossless.
Print Assumptions run_promo.
Print Assumptions run_nopromo.
Print Assumptions run_lossless.
"""

TABLE_DIAG = """From Coq Require Import ZArith List Bool.
From Spox Require Import Ops OpsFacts.
From {lib} Require Import {mod}.
Import ListNotations.
Set Printing Width 100000.
Eval vm_compute in (check_promo rt0 np0, check_nopromo np0, check_lossless rt0).
Eval vm_compute in (promo_failures rt0 np0).
"""


def table_obligation(run: Run):
    """Regenerate the tables, re-prove the checks on them in the scratch dir; returns the Gallina text of rt_tab."""
    import numpy as np

    rt, npt, bad = numpy_tables()
    for b in bad[:5]:
        run.fail("proof", "C17/numpy-side-obligation", "numpy no longer treats scalars the way the table abstraction assumes", bad[:20])
    text = table_text(rt, npt, np.__version__)
    sc = run.scratch() / "table"
    sc.mkdir(parents=True, exist_ok=True)
    (sc / "C17Table.v").write_text(text)
    (sc / "C17TableFacts.v").write_text(TABLE_FACTS.format(lib="RunTab", mod="C17Table"))
    t0 = time.time()
    rc, out = sh(f"timeout 300 coqc -R {COQ} Spox -R {sc} RunTab C17Table.v && "
                 f"timeout 600 coqc -R {COQ} Spox -R {sc} RunTab C17TableFacts.v", cwd=sc, timeout=930)
    closed = out.count("Closed under the global context")
    info = {"rt_entries": len(rt), "np_entries": len(npt), "numpy": np.__version__, "recheck_rc": rc,
            "closed": closed, "wall_s": round(time.time() - t0, 1)}
    committed = (COQ / "OpsTable.v").read_text() if (COQ / "OpsTable.v").exists() else ""
    data = lambda s: s[s.index("Definition rt_tab"):] if "Definition rt_tab" in s else ""  # noqa: E731
    info["same_as_committed_snapshot"] = data(committed) == data(text)
    if rc != 0 or closed != 3:
        (sc / "Diag.v").write_text(TABLE_DIAG.format(lib="RunTab", mod="C17Table"))
        _, dout = sh(f"timeout 300 coqc -R {COQ} Spox -R {sc} RunTab Diag.v", cwd=sc, timeout=330)
        run.fail("proof", "C17/table-check", "the dispatcher model's result dtype no longer equals numpy's on the regenerated tables",
                 {"coqc": out[-1500:], "diagnostic (checks; failing (repairs, cp, op, operand-pair index))": dout[-1500:]})
    elif not info["same_as_committed_snapshot"]:
        run.notes.append("numpy's tables differ from the committed snapshot coq/OpsTable.v; the table theorems were re-proved "
                         "on the regenerated tables in the scratch directory (regenerate the snapshot: python -m harness.c17 gen-table)")
    run.obligations += 3
    if rc == 0 and closed == 3:
        run.discharged += 3
    body = text[text.index("Definition rt_tab"):text.index("Definition np_tab")]
    return body, info


# ------------------------------------------------------------------------------------------------ operand values


def sig_values(t, slot):
    if t == "TB":
        return [True, False, True, True] if slot != "B" else [True, True, True]
    if t in FLT:
        a = [-7.0, 7.0, 1.0, 0.0, -0.5, 6.0, 1000.0, -3.75]
        b = [2.0, -2.0, 0.1, 3.0, -0.25, -3.0, 0.3, 7.0]
        return a if slot != "B" else b
    if t in UINT:
        a = [7, 9, 6, 0, hi(t), 1, hi(t) - 1, 200]
        b = [2, 4, 3, hi(t), 1, 5, 7, 255]
        return a if slot != "B" else b
    a = [-7, 7, -6, 5, 0, lo(t), hi(t), lo(t) + 1, -1]
    b = [2, -2, 4, -3, -1, hi(t), 3, lo(t), 1]
    if slot == "Adiv":
        a = [v for v in a if v != lo(t)]
    return a if slot != "B" else b


def pool_array(pseed, t, shape, slot, vs):
    """Deterministic operand array for (element type, shape, slot, value-set)."""
    import numpy as np

    rng = random.Random(f"{pseed}/{t}/{shape}/{slot}/{vs}")
    n = 1
    for s in shape:
        n *= s
    sig = sig_values(t, slot)
    if vs > 0:
        rng.shuffle(sig)
    vals = []
    for i in range(n):
        if i < len(sig) and (vs == 0 or rng.random() < 0.6):
            v = sig[i]
        elif t == "TB":
            v = True if slot == "B" else rng.random() < 0.5
        elif t in FLT:
            k = rng.random()
            if k < 0.4:
                v = float(rng.randint(-20, 20))
            elif k < 0.8:
                v = rng.uniform(-100, 100)
            else:
                v = rng.choice([-1, 1]) * 10 ** rng.uniform(-3, 4)
            if slot == "B" and v == 0:
                v = 1.5
        else:
            k = rng.random()
            if k < 0.5:
                v = rng.randint(max(lo(t), -50), min(hi(t), 50))
            elif k < 0.8:
                v = rng.randint(lo(t), hi(t))
            else:
                v = rng.choice([lo(t), hi(t), lo(t) + 1, hi(t) - 1])
            if slot == "B" and v == 0:
                v = 3
            if slot == "Adiv" and t in SINT and v == lo(t):
                v = lo(t) + 1
        vals.append(v)
    with warnings.catch_warnings():
        warnings.simplefilter("ignore")
        return np.array(vals, dtype=NPNAME[t]).reshape(shape)


PYINTS = [1, 2, 3, -3, 7, -7, 100, -1, 127, 128, 255, 256, -129, 32767, 65536, 2 ** 31, 2 ** 40, 2 ** 63 - 1, 2 ** 63, 2 ** 64 - 1, -(2 ** 63) + 1, 0]
PYFLOATS = [0.5, 1.5, -2.25, 0.1, 3.0, -7.0, 1e10, 1e-3, 2.0]
SMALL = [1, 2, 3, -3, 7, -7, 5]


def gen_scalar(rng, kind, opname, on_left, t=None):
    div = opname in ("truediv", "floordiv")
    if kind == "int":
        v = rng.choice(PYINTS[:10] if rng.random() < 0.7 else PYINTS)
        if div and v == 0:
            v = 2
        if v in INT_MINIMA:
            v += 1
        return ["int", v]
    if kind == "float":
        return ["float", rng.choice(PYFLOATS)]
    # numpy scalar of dtype t
    if t == "TB":
        return ["np", t, 1 if (div or rng.random() < 0.7) else 0]
    if t in FLT:
        return ["np", t, rng.choice(PYFLOATS[:6] + [2.0, -3.0])]
    if div:
        v = rng.choice(SMALL)
        return ["np", t, abs(v) if t in UINT else v]
    cands = [v for v in PYINTS + [-128, lo(t), hi(t)] if lo(t) <= v <= hi(t)]
    return ["np", t, rng.choice(cands)]


# ------------------------------------------------------------------------------------------------ case generation


def gen_cases(rng, tier, pseed):
    cases = []

    def add(d, op, x, y, shp=None, vs=0):
        sx, sy = shp if shp is not None else rng.choice(SHAPES)
        cases.append({"d": d, "op": op, "x": x, "y": y, "sx": list(sx), "sy": list(sy), "vs": vs, "pseed": pseed})

    # corpus of past minimal failures first
    add([False, True], "floordiv", ["var", "I32"], ["var", "I32"], ((3,), (3,)))          # F10a: -7 // 2
    add([True, True], "floordiv", ["var", "I64"], ["int", 2], ((3,), (3,)))
    add([True, True], "floordiv", ["var", "F64"], ["var", "F64"], ((3,), (3,)))           # F10b: 1.0 // 0.1
    add([True, True], "floordiv", ["var", "F32"], ["float", 0.1], ((3,), (3,)))
    add(None, "neg", ["var", "I32"], None, ((3,), (3,)))                                  # F21
    add(None, "invert", ["var", "TB"], None, ((3,), (3,)))
    add([True, True], "sub", ["int", 1], ["var", "I16"], ((3,), (3,)))
    add([True, True], "add", ["var", "U8"], ["int", 300], ((3,), (3,)))                   # OverflowError
    thorough = tier == "thorough"
    nvs = 6 if thorough else 2
    np_frac = 1.0
    for vs in range(nvs):
        for d in SETTINGS:
            d = list(d)
            for op in ARITH:
                for tx in ETY:
                    for ty in ETY:
                        add(d, op, ["var", tx], ["var", ty], vs=vs)
                    for rep in range(2 if thorough else 1):
                        for left in (False, True):
                            for kind in ("int", "int", "float"):
                                s = gen_scalar(rng, kind, op, left)
                                add(d, op, s, ["var", tx], vs=vs) if left else add(d, op, ["var", tx], s, vs=vs)
                    for ty in ETY:
                        for left in (False, True):
                            if rng.random() < np_frac:
                                s = gen_scalar(rng, "np", op, left, ty)
                                add(d, op, s, ["var", tx], vs=vs) if left else add(d, op, ["var", tx], s, vs=vs)
            # logical and unary operators inside the block (not promoted)
            for op in LOGIC:
                for tx, ty in [("TB", "TB"), ("TB", "I32"), ("I8", "TB"), ("U8", "U8"), ("F32", "TB"), ("I64", "I64")]:
                    add(d, op, ["var", tx], ["var", ty], vs=vs)
                add(d, op, ["var", "TB"], ["int", 1], vs=vs)
                add(d, op, ["int", 1], ["var", "TB"], vs=vs)
                add(d, op, ["var", "TB"], ["np", "TB", 1], vs=vs)
                add(d, op, ["var", "I32"], ["float", 1.5], vs=vs)
            for tx in ETY:
                add(d, "neg", ["var", tx], None, vs=vs)
                add(d, "invert", ["var", tx], None, vs=vs)
        # outside any block
        for op in ARITH + LOGIC:
            for tx, ty in [("I32", "I32"), ("F32", "F64"), ("TB", "TB"), ("U8", "I64")]:
                add(None, op, ["var", tx], ["var", ty], vs=vs)
            for tx in ("I64", "F32", "TB"):
                add(None, op, ["var", tx], ["int", 2], vs=vs)
                add(None, op, ["int", 2], ["var", tx], vs=vs)
                add(None, op, ["var", tx], ["float", 1.5], vs=vs)
                add(None, op, ["float", 1.5], ["var", tx], vs=vs)
                add(None, op, ["var", tx], ["np", "I64", 3], vs=vs)
        for tx in ETY:
            add(None, "neg", ["var", tx], None, vs=vs)
            add(None, "invert", ["var", tx], None, vs=vs)
    return cases


# ------------------------------------------------------------------------------------------------ implementation side

PYOP = {"add": operator.add, "sub": operator.sub, "mul": operator.mul, "truediv": operator.truediv,
        "floordiv": operator.floordiv, "and": operator.and_, "or": operator.or_, "xor": operator.xor}
BOPS = {"Add": "OAdd", "Sub": "OSub", "Mul": "OMul", "Div": "ODiv", "And": "OAnd", "Or": "OOr", "Xor": "OXor",
        "Equal": "OEqual", "Less": "OLess"}
UOPS = {"Neg": "ONeg", "Floor": "OFloor", "Not": "ONot"}


class Impl:
    def __init__(self):
        import numpy as np
        import onnx
        import onnxruntime as ort
        import spox
        import spox._future as F
        from spox import Tensor, Var, argument
        import spox.opset.ai.onnx.v17 as op17
        import spox.opset.ai.onnx.v19 as op19
        import spox.opset.ai.onnx.v21 as op21

        self.np, self.ort, self.spox, self.F, self.Var = np, ort, spox, F, Var
        self.Tensor, self.argument = Tensor, argument
        self.opsets = [op17, op19, op21]
        self.InferenceError = onnx.shape_inference.InferenceError
        self.name2ety = {np.dtype(v).name: k for k, v in NPNAME.items()}

    def ety(self, dt):
        return self.name2ety.get(self.np.dtype(dt).name, "?" + str(dt))

    def scalar(self, desc):
        np = self.np
        if desc[0] == "int":
            return int(desc[1])
        if desc[0] == "float":
            return float(desc[1])
        return np.dtype(NPNAME[desc[1]]).type(desc[2])

    def apply(self, case, op, xo, yo):
        """Evaluate the Python operator expression exactly as user code would."""
        name = case["op"]

        def body():
            if name == "neg":
                return -xo
            if name == "invert":
                return ~xo
            if case["x"][0] == "np":
                # a numpy scalar on the left would run numpy's own operator first (object-array path); the reflected
                # dunder of Var is what the property speaks about, call it directly
                return getattr(yo, {"add": "__radd__", "sub": "__rsub__", "mul": "__rmul__", "truediv": "__rtruediv__",
                                    "floordiv": "__rfloordiv__", "and": "__rand__", "or": "__ror__", "xor": "__rxor__"}[name])(xo)
            return PYOP[name](xo, yo)

        try:
            with warnings.catch_warnings():
                warnings.simplefilter("ignore")
                if case["d"] is None:
                    r = body()
                else:
                    self._ncall = getattr(self, "_ncall", 0) + 1
                    with self.F.operator_overloading(op, type_promotion=case["d"][0], constant_promotion=case["d"][1]):
                        if self._ncall % 4 == 0:
                            # a nested block with the opposite options that has already ended: the outer block's rules apply again
                            with self.F.operator_overloading(op, type_promotion=not case["d"][0], constant_promotion=not case["d"][1]):
                                pass
                        r = body()
        except TypeError:
            return ("err", "ETypeError")
        except OverflowError:
            return ("err", "EOverflow")
        except self.InferenceError:
            return ("err", "EInference")
        except Exception as e:  # noqa: BLE001
            return ("other", f"{type(e).__name__}: {str(e)[:200]}")
        if r is NotImplemented:
            return ("notimpl",)
        if isinstance(r, self.Var):
            return ("ok", r)
        return ("other", f"returned {type(r).__name__}")

    def term(self, var, xo, yo, float_scalar, depth=0):
        """Emitted operator tree of ``var`` as a Gallina term of type Ops.expr (None if it leaves the model's language)."""
        if var is xo:
            return "EArg SA"
        if var is yo:
            return "EArg SB"
        if depth > 12:
            return None
        node = var._op
        ident = node.op_type.identifier
        if node.op_type.domain not in ("", "ai.onnx"):
            return None
        ins = list(node.inputs.get_vars().values())
        if ident == "Constant":
            if getattr(node.attrs, "value", None) is None:      # a Constant given through value_int / value_float / ...: outside the model's language
                return None
            val = node.attrs.value.value
            if val.shape != ():
                return None
            t = self.ety(val.dtype)
            if t in ETY and (t in SINT or t in UINT or t == "TB") and not float_scalar:
                return f"EConst {t} (Some {Z(int(val))})"
            return f"EConst {t} None"
        if ident == "Cast" and len(ins) == 1:
            sub = self.term(ins[0], xo, yo, float_scalar, depth + 1)
            return None if sub is None else f"ECast {self.ety(node.attrs.to.value)} ({sub})"
        if ident in BOPS and len(ins) == 2:
            a = self.term(ins[0], xo, yo, float_scalar, depth + 1)
            b = self.term(ins[1], xo, yo, float_scalar, depth + 1)
            if a is None or b is None:
                return None
            return f"EBin {BOPS[ident]} {self.ety(ins[0].type.dtype)} ({a}) ({b})"
        if ident in UOPS and len(ins) == 1:
            a = self.term(ins[0], xo, yo, float_scalar, depth + 1)
            return None if a is None else f"EUn {UOPS[ident]} {self.ety(ins[0].type.dtype)} ({a})"
        return None

    def has_operand_cast(self, var, xo, yo, depth=0):
        if var is xo or var is yo or depth > 12:
            return False
        node = var._op
        ins = list(node.inputs.get_vars().values())
        if node.op_type.identifier == "Cast" and ins and (ins[0] is xo or ins[0] is yo):
            return True
        return any(self.has_operand_cast(i, xo, yo, depth + 1) for i in ins)


def slot_for(case, side):
    if side == "y":
        return "B"
    return "Adiv" if case["op"] in ("truediv", "floordiv") else "A"


def operand_coq(desc):
    if desc is None:
        return "OPyFloat"
    if desc[0] == "var":
        return f"(OVar {desc[1]})"
    if desc[0] == "int":
        return f"(OPyInt {Z(desc[1])})"
    if desc[0] == "float":
        return "OPyFloat"
    v = int(desc[2]) if desc[1] not in FLT else 0
    return f"(ONp {desc[1]} {Z(v)})"


def pyop_coq(name):
    if name in ARITH_COQ:
        return f"(PArith {ARITH_COQ[name]})"
    if name in LOGIC_COQ:
        return f"(PLogic {LOGIC_COQ[name]})"
    return "PNeg" if name == "neg" else "PInvert"


def setting_coq(d):
    return "None" if d is None else f"(Some (mk_setting {'true' if d[0] else 'false'} {'true' if d[1] else 'false'}))"


def describe(case):
    def od(d):
        if d is None:
            return ""
        if d[0] == "var":
            return f"Var[{NPNAME[d[1]]}]"
        if d[0] == "np":
            return f"np.{NPNAME[d[1]]}({d[2]})"
        return repr(d[1])
    sym = {"add": "+", "sub": "-", "mul": "*", "truediv": "/", "floordiv": "//", "and": "&", "or": "|", "xor": "^"}
    ctx = "outside any block" if case["d"] is None else f"type_promotion={case['d'][0]}, constant_promotion={case['d'][1]}"
    if case["op"] in ("neg", "invert"):
        return f"{'-' if case['op'] == 'neg' else '~'}{od(case['x'])}  [{ctx}]"
    return f"{od(case['x'])} {sym[case['op']]} {od(case['y'])}  [{ctx}; shapes {tuple(case['sx'])}, {tuple(case['sy'])}]"


class Batch:
    """Many operator applications over shared argument Vars, built into ONE model and run by onnxruntime once."""

    def __init__(self, impl: Impl, op):
        self.impl, self.op = impl, op
        self.args, self.feeds, self.outs = {}, {}, {}

    def arg(self, pseed, t, shape, slot, vs):
        key = f"a_{t}_{'x'.join(map(str, shape))}_{slot}_{vs}"
        if key not in self.args:
            self.args[key] = self.impl.argument(self.impl.Tensor(self.impl.np.dtype(NPNAME[t]), tuple(shape)))
            self.feeds[key] = pool_array(pseed, t, tuple(shape), slot, vs)
        return self.args[key], self.feeds[key]

    def run(self):
        """Results by output name; if the whole model is rejected, retry in pieces so one bad expression does not
        hide the others (the rejected ones are returned under the key '!rejected')."""
        if not self.outs:
            return {}
        try:
            return self._run(dict(self.outs))
        except Exception as e:  # noqa: BLE001
            first_err = f"{type(e).__name__}: {str(e)[:800]}"
        res, rejected = {}, {}
        names = list(self.outs)
        for i in range(0, len(names), 40):
            part = {n: self.outs[n] for n in names[i:i + 40]}
            try:
                res.update(self._run(part))
            except Exception:  # noqa: BLE001
                for n, v in part.items():
                    try:
                        res.update(self._run({n: v}))
                    except Exception as e2:  # noqa: BLE001
                        rejected[n] = f"{type(e2).__name__}: {str(e2)[:600]}"
        res["!rejected"] = rejected or {"<whole model only>": first_err}
        return res

    def _run(self, outs):
        ort = self.impl.ort
        model = self.impl.spox.build(dict(self.args), outs)
        so = ort.SessionOptions()
        so.graph_optimization_level = ort.GraphOptimizationLevel.ORT_DISABLE_ALL
        so.log_severity_level = 3
        sess = ort.InferenceSession(model.SerializeToString(), so, providers=["CPUExecutionProvider"])
        names = [o.name for o in sess.get_outputs()]
        res = sess.run(names, {k: v for k, v in self.feeds.items()})
        return dict(zip(names, res))


def run_case_impl(impl: Impl, batch: Batch, case, idx, with_values=True):
    """Execute one case against the implementation inside ``batch``; returns a record."""
    np = impl.np
    rec = {"case": case, "idx": idx}
    xo = yo = xa = ya = None
    x, y = case["x"], case["y"]
    if x[0] == "var":
        xo, xa = batch.arg(case["pseed"], x[1], case["sx"], slot_for(case, "x"), case["vs"])
    else:
        xo = xa = impl.scalar(x)
    if y is not None:
        if y[0] == "var":
            yo, ya = batch.arg(case["pseed"], y[1], case["sy"], "B", case["vs"])
        else:
            yo = ya = impl.scalar(y)
    rec["xa"], rec["ya"] = xa, ya
    out = impl.apply(case, batch.op, xo, yo)
    rec["outcome"] = out[0]
    float_scalar = any(d is not None and (d[0] == "float" or (d[0] == "np" and d[1] in FLT)) for d in (x, y))
    if out[0] == "ok":
        r = out[1]
        xv = xo if x[0] == "var" else None
        yv = yo if (y is not None and y[0] == "var") else None
        t = impl.term(r, xv, yv, float_scalar)
        rec["ety"] = impl.ety(r.type.dtype)
        rec["shape"] = tuple(r.type.shape) if r.type.shape is not None else None
        rec["operand_cast"] = impl.has_operand_cast(r, xv, yv)
        rec["coq"] = f"(Ok ({t}) {rec['ety']})" if t is not None and rec["ety"] in ETY else None
        rec["tree"] = t
        if with_values:
            batch.outs[f"r{idx}"] = r
            if case["op"] == "floordiv" and rec["ety"] in FLT and r._op.op_type.identifier == "Floor":
                batch.outs[f"q{idx}"] = list(r._op.inputs.get_vars().values())[0]
    elif out[0] == "err":
        rec["coq"] = f"(Err {out[1]})"
        rec["err"] = out[1]
    elif out[0] == "notimpl":
        rec["coq"] = "RNotImplemented"
    else:
        rec["coq"] = None
        rec["other"] = out[1]
    return rec


def propagate_case(impl: Impl, op, case, rec):
    """Same expression with constants as operands; returns the propagated value (Var._get_value())."""
    x, y = case["x"], case["y"]
    xo = op.const(rec["xa"]) if x[0] == "var" else rec["xa"]
    yo = None
    if y is not None:
        yo = op.const(rec["ya"]) if y[0] == "var" else rec["ya"]
    out = impl.apply(case, op, xo, yo)
    if out[0] != "ok":
        return ("outcome", out[0])
    try:
        q = None
        if case["op"] == "floordiv" and out[1]._op.op_type.identifier == "Floor":
            q = list(out[1]._op.inputs.get_vars().values())[0]._get_value()
        return ("value", out[1]._get_value(), q)
    except Exception as e:  # noqa: BLE001
        return ("novalue", f"{type(e).__name__}: {e}")


# ------------------------------------------------------------------------------------------------ numpy oracle


def trunc_div(np, a, b, dt):
    aa, bb = np.broadcast_arrays(a, b)
    flat = []
    for p, q in zip(aa.ravel().tolist(), bb.ravel().tolist()):
        p, q = int(p), int(q)
        s = abs(p) // abs(q)
        flat.append(s if (p < 0) == (q < 0) else -s)
    return np.array(flat, dtype=object).astype(dt).reshape(aa.shape)


def numpy_expected(impl: Impl, case, rec):
    """numpy's result on the same operands (type promotion on), or what 'nothing is converted' means (promotion off)."""
    np = impl.np
    name = case["op"]
    xa, ya = rec["xa"], rec["ya"]
    with warnings.catch_warnings(), np.errstate(all="ignore"):
        warnings.simplefilter("ignore")
        try:
            if name == "neg":
                return ("value", -xa)
            if name == "invert":
                return ("value", ~xa)
            if name in LOGIC:
                return ("value", PYOP[name](xa, ya))
            if case["d"] is not None and not case["d"][0]:
                # no promotion: scalars become constants of the Var's own element type, then numpy on equal dtypes
                dt = xa.dtype if case["x"][0] == "var" else ya.dtype
                xc = xa if case["x"][0] == "var" else np.array(xa, dtype=dt)
                yc = ya if case["y"][0] == "var" else np.array(ya, dtype=dt)
                if name == "truediv" and dt.kind in "iu":
                    return ("value", trunc_div(np, xc, yc, dt))     # documented: integer Div without promotion
                return ("value", PYOP[name](xc, yc))
            return ("value", PYOP[name](xa, ya))
        except OverflowError:
            return ("err", "EOverflow")
        except TypeError:
            return ("err", "ETypeError")


def values_equal(np, got, exp):
    if got.shape != exp.shape:
        return False
    if exp.dtype.kind == "f":
        tol = {2: 2e-3, 4: 2e-6, 8: 1e-12}[exp.dtype.itemsize]
        with np.errstate(all="ignore"):
            return bool(np.allclose(got.astype(np.float64), exp.astype(np.float64), rtol=tol, atol=0, equal_nan=True))
    return bool(np.array_equal(got, exp))


def first_diff(np, xa, ya, got, exp):
    try:
        shape = exp.shape
        xb = np.broadcast_to(xa, shape) if hasattr(xa, "shape") or True else xa
        yb = np.broadcast_to(ya, shape) if ya is not None else None
        g, e = got.astype(np.float64) if exp.dtype.kind == "f" else got, exp.astype(np.float64) if exp.dtype.kind == "f" else exp
        for i in np.ndindex(*shape):
            same = (g[i] == e[i]) or (exp.dtype.kind == "f" and (np.isnan(g[i]) and np.isnan(e[i]) or np.isclose(g[i], e[i], rtol=2e-3 if exp.dtype.itemsize == 2 else 2e-6, atol=0)))
            if not same:
                return {"a": repr(xb[i].item()), "b": None if yb is None else repr(yb[i].item()),
                        "implementation": repr(got[i].item()), "numpy": repr(exp[i].item())}
    except Exception:  # noqa: BLE001
        pass
    return {}


def classify_value_mismatch(impl: Impl, case, rec, got, exp, qdiv):
    """Key of the mechanism behind a value/dtype mismatch with numpy."""
    np = impl.np
    name = case["op"]
    if got.dtype != exp.dtype:
        return f"C17/{name}/{kinds_of(case)}/result-dtype-differs-from-numpy", "result element type differs from numpy's"
    if name == "floordiv" and exp.dtype.kind == "i":
        dt = exp.dtype
        xc = np.asarray(rec["xa"]).astype(dt) if not isinstance(rec["xa"], int) else np.array(rec["xa"], dtype=dt)
        yc = np.asarray(rec["ya"]).astype(dt) if not isinstance(rec["ya"], int) else np.array(rec["ya"], dtype=dt)
        if np.array_equal(got, trunc_div(np, xc, yc, dt)):
            return KEY_F10A, "integer // truncates towards zero (ONNX Div) instead of flooring like numpy/Python"
    if name == "floordiv" and exp.dtype.kind == "f" and qdiv is not None:
        dt = exp.dtype
        with np.errstate(all="ignore"), warnings.catch_warnings():
            warnings.simplefilter("ignore")
            xc, yc = np.asarray(rec["xa"]).astype(dt), np.asarray(rec["ya"]).astype(dt)
            q = np.divide(xc, yc)
            div_correct = qdiv.dtype == dt and np.array_equal(qdiv, q, equal_nan=True)
            is_floor_of_div = np.array_equal(got, np.floor(q), equal_nan=True)
        if div_correct and is_floor_of_div:
            return KEY_F10B, ("float //: Floor(Div(a, b)) differs from numpy.floor_divide where the correctly rounded quotient a/b "
                              "rounds to an integer above the exact quotient (1.0 // 0.1: numpy 9.0, Floor(Div) 10.0)")
    return f"C17/{name}/{kinds_of(case)}/value-differs-from-numpy", "result values differ from numpy's on the same operands"


# ------------------------------------------------------------------------------------------------ model side


def header(rt_body):
    return ("From Coq Require Import ZArith List Bool.\nFrom Spox Require Import Ops.\nImport ListNotations.\nOpen Scope Z_scope.\n"
            + rt_body +
            "Definition rt := rt_lookup rt_tab.\n"
            "Definition model (r : repairs) d o x y : res :=\n"
            "  match o with PNeg | PInvert => py_unop r d o x | _ => py_binop rt r d o x y end.\n"
            "Definition case2 d o x y impl vals : Z :=\n"
            "  let c := case_code (model repaired d o x y) impl vals in\n"
            "  if c =? 0 then 0 else 10 * c + case_code (model pinned d o x y) impl vals.\n")


def case_expr(case, rec, triples):
    impl_term = rec["coq"] if rec["coq"] is not None else "RNoVar"
    vals = coq_list([f"({Z(a)}, {Z(b)}, {Z(r)})" for a, b, r in triples])
    return (f"case2 {setting_coq(case['d'])} {pyop_coq(case['op'])} {operand_coq(case['x'])} {operand_coq(case['y'])} "
            f"{impl_term} {vals}")


def model_codes(run: Run, rt_body, recs, triples, name="c17", chunk=120):
    """Returns {index: code} for cases whose model/implementation comparison is not 0."""
    exprs = []
    for i in range(0, len(recs), chunk):
        exprs.append("bad_cases " + coq_list([case_expr(r["case"], r, triples.get(r["idx"], [])) for r in recs[i:i + chunk]], sep=";\n "))
    res = run.coq_eval(name, header(rt_body), exprs, shard=max(1, (len(exprs) + 15) // 16))
    bad = {}
    for k, out in enumerate(res):
        body = out.strip()
        body = body[1:body.rindex("]")] if body.startswith("[") else ""
        for item in [s for s in body.split(";") if s.strip()]:
            a, b = item.strip().strip("()").split(",")
            bad[recs[k * chunk + int(a.strip().strip("()"))]["idx"]] = int(b.strip().strip("()"))
    return bad


def model_terms(run: Run, rt_body, cases, name="c17diag"):
    exprs = []
    for c in cases:
        exprs.append(f"(model repaired {setting_coq(c['d'])} {pyop_coq(c['op'])} {operand_coq(c['x'])} {operand_coq(c['y'])}, "
                     f"model pinned {setting_coq(c['d'])} {pyop_coq(c['op'])} {operand_coq(c['x'])} {operand_coq(c['y'])})")
    return run.coq_eval(name, header(rt_body), exprs, shard=50) if exprs else []


# ------------------------------------------------------------------------------------------------ one pass


def int_triples(np, case, rec, got):
    """(a, b, result) samples for the model's Z semantics; only when everything is integer/bool valued."""
    if rec.get("ety") not in SINT + UINT + ["TB"]:
        return []
    for d in (case["x"], case["y"]):
        if d is not None and (d[0] == "float" or (d[0] in ("var", "np") and d[1] in FLT)):
            return []
    xa = rec["xa"] if case["x"][0] == "var" else 0
    ya = rec["ya"] if (case["y"] is not None and case["y"][0] == "var") else 0
    try:
        xb, yb = np.broadcast_to(np.asarray(xa), got.shape), np.broadcast_to(np.asarray(ya), got.shape)
    except ValueError:
        return []
    out = []
    for i in list(np.ndindex(*got.shape))[:6]:
        out.append((int(xb[i]), int(yb[i]), int(got[i])))
    return out


def evaluate(run: Run, impl: Impl, cases, rt_body, prop_every, hist, name="c17"):
    """Run all cases through implementation, oracle and model. Returns (records, stats)."""
    np = impl.np
    recs, triples = [], {}
    stats = {"ort_models": 0, "ort_outputs": 0, "value_checks": 0, "propagated_checks": 0, "model_value_triples": 0,
             "matching_pinned_model_only": 0, "numpy_error_agreements": 0}
    BATCH = 700
    install_cap(run, stats)
    for b0 in range(0, len(cases), BATCH):
        op = impl.opsets[(b0 // BATCH) % len(impl.opsets)]
        batch = Batch(impl, op)
        brecs = [run_case_impl(impl, batch, c, b0 + k) for k, c in enumerate(cases[b0:b0 + BATCH])]
        results = batch.run()
        for n, why in (results.pop("!rejected", None) or {}).items():
            cidx = int(n[1:]) if n[1:].isdigit() else None
            bc = cases[cidx] if cidx is not None else cases[b0]
            run.fail("impl", f"C17/{bc['op']}/{kinds_of(bc)}/built-model-rejected",
                     "onnxruntime rejects the model built from an overloaded-operator expression",
                     {"expression": describe(bc), "case": bc, "error": why})
        stats["ort_models"] += 1
        stats["ort_outputs"] += len(results)
        for rec in brecs:
            case = rec["case"]
            hist["outcome"][rec["outcome"] + ("/" + rec["err"] if "err" in rec else "")] = hist["outcome"].get(rec["outcome"] + ("/" + rec["err"] if "err" in rec else ""), 0) + 1
            oracle_errors(run, impl, case, rec)
            stats["numpy_error_agreements"] += bool(rec.get("numpy_error_agrees"))
            got = results.get(f"r{rec['idx']}")
            if rec["outcome"] == "ok" and got is not None:
                rec["got"] = got
                triples[rec["idx"]] = int_triples(np, case, rec, got)
                stats["model_value_triples"] += len(triples[rec["idx"]])
                oracle_values(run, impl, case, rec, got, results.get(f"q{rec['idx']}"), "onnxruntime result of the built model")
                stats["value_checks"] += 1
                if prop_every and rec["idx"] % prop_every == 0:
                    pv = propagate_case(impl, op, case, rec)
                    stats["propagated_checks"] += 1
                    if pv[0] != "value":
                        run.fail("impl", f"C17/{case['op']}/no-propagated-value", "no propagated value for an operator expression over constants",
                                 {"expression": describe(case), "case": case, "why": pv[1]})
                    else:
                        pval = np.asarray(pv[1])
                        if pval.dtype != got.dtype or not np.array_equal(pval, got, equal_nan=True):
                            # the two evaluators disagree: let numpy decide which side is wrong
                            oracle_values(run, impl, case, rec, pval, None if pv[2] is None else np.asarray(pv[2]),
                                          "propagated value (Var._get_value())")
            recs.append(rec)
    unrenderable = [r for r in recs if r["coq"] is None]
    for r in unrenderable[:3]:
        run.fail("corr", f"C17/outside-model-language/{r['case']['op']}", "the implementation's outcome is outside the model's language",
                 {"expression": describe(r["case"]), "case": r["case"], "outcome": r.get("other") or r.get("tree")})
    bad = model_codes(run, rt_body, recs, triples, name=name)
    return recs, triples, bad, stats


def kinds_of(case):
    """Operand-kind class used in keys of fresh findings: var / int / float / np, with the dtype family for Vars."""
    def fam(d):
        if d[0] != "var":
            return d[0]
        return "var:" + ("sint" if d[1] in SINT else "uint" if d[1] in UINT else "float" if d[1] in FLT else "bool")
    return "-".join(fam(d) for d in (case["x"], case["y"]) if d is not None)


def numeric_operands(case):
    """All operand element types are integer or floating (the property's quantifier; bool is excluded)."""
    return all(q is None or q[0] in ("int", "float") or q[1] in NUMERIC for q in (case["x"], case["y"]))


DESIGNATED = {KEY_F10A, KEY_F10B, KEY_F21, KEY_NEGU}
MAX_FRESH = 12


def install_cap(run: Run, stats):
    """Keep the report readable when an edit breaks whole families: at most MAX_FRESH distinct fresh findings per kind
    (designated mechanism keys are never dropped); the rest is counted."""
    orig = run.fail

    def capped(kind, key, what, detail=None):
        if key not in DESIGNATED and not any(f.key == key and f.kind == kind for f in run.failures):
            if sum(1 for f in run.failures if f.kind == kind and f.key not in DESIGNATED) >= MAX_FRESH:
                stats["suppressed_further_findings"] = stats.get("suppressed_further_findings", 0) + 1
                return
        orig(kind, key, what, detail)

    run.fail = capped


def oracle_errors(run: Run, impl: Impl, case, rec):
    """Property statements about errors, decided on the implementation's outcome alone."""
    d, x, y = case["d"], case["x"], case["y"]
    if d is None:
        if rec["outcome"] == "err" and rec["err"] == "ETypeError":
            return
        if rec["outcome"] == "notimpl" and case["op"] in ("neg", "invert"):
            run.fail("impl", KEY_F21, "outside an operator_overloading block unary - / ~ on a Var evaluate to NotImplemented instead of raising TypeError",
                     {"expression": describe(case), "case": case, "implementation": "returned the object NotImplemented",
                      "property": "outside such a block every one of these operators raises TypeError"})
            return
        run.fail("impl", f"C17/outside-block/{case['op']}/no-typeerror", "operator outside an operator_overloading block does not raise TypeError",
                 {"expression": describe(case), "case": case, "implementation": rec["outcome"] + " " + str(rec.get("err", rec.get("other", "")))})
        return
    if case["op"] == "neg" and rec["outcome"] != "ok" and x[1] in NUMERIC:
        if x[1] in UINT and rec["outcome"] == "err" and rec["err"] == "EInference":
            run.fail("impl", KEY_NEGU, "unary - on a Var of an unsigned integer type raises (ONNX Neg is not defined for unsigned types); numpy wraps modulo 2^w",
                     {"expression": describe(case), "case": case, "implementation": "onnx InferenceError", "numpy": "-x modulo 2^w (e.g. -uint8(1) = 255)"})
        else:
            run.fail("impl", f"C17/neg/{x[1]}/error-where-numpy-computes", "unary - raises although numpy computes a result",
                     {"expression": describe(case), "case": case, "implementation": rec["outcome"] + " " + str(rec.get("err", rec.get("other", "")))})
        return
    if case["op"] not in ARITH:
        return
    if not d[0]:
        must = None
        if x[0] == "var" and y[0] == "var" and x[1] != y[1]:
            must = "operands of different element types"
        else:
            var = x if x[0] == "var" else y
            oth = y if x[0] == "var" else x
            if var[1] in SINT + UINT and oth[0] == "float":
                must = "a Python float meets an integer Var"
        if must and not (rec["outcome"] == "err" and rec["err"] == "ETypeError"):
            run.fail("impl", f"C17/no-promotion/{case['op']}/missing-typeerror", f"type promotion off, {must}: no TypeError",
                     {"expression": describe(case), "case": case, "implementation": rec["outcome"] + " " + str(rec.get("err", rec.get("ety", "")))})
        if rec["outcome"] == "ok":
            var = x if x[0] == "var" else y
            if rec["ety"] != var[1]:
                run.fail("impl", f"C17/no-promotion/{case['op']}/result-type-changed", "type promotion off: the result does not keep the operand's element type",
                         {"expression": describe(case), "case": case, "result": rec["ety"]})
            if rec["operand_cast"]:
                run.fail("impl", f"C17/no-promotion/{case['op']}/operand-cast", "type promotion off: an operand is converted (Cast emitted)",
                         {"expression": describe(case), "case": case, "tree": rec["tree"]})
        # a result must exist where the property promises one: equal numeric element types, or a Python scalar that
        # fits (int with any numeric Var, float with a floating Var), constant promotion on for scalars
        if rec["outcome"] != "ok" and numeric_operands(case):
            var = x if x[0] == "var" else y
            oth = y if x[0] == "var" else x
            promised = (oth[0] == "var" and oth[1] == var[1]) or (d[1] and (
                (oth[0] == "int" and (var[1] in FLT or lo(var[1]) <= oth[1] <= hi(var[1]))) or (oth[0] == "float" and var[1] in FLT)))
            if promised:
                run.fail("impl", f"C17/no-promotion/{case['op']}/unexpected-error", "type promotion off: error although the operands have one element type",
                         {"expression": describe(case), "case": case, "implementation": rec["outcome"] + " " + str(rec.get("err", rec.get("other", "")))})
    else:
        exp = numpy_expected(impl, case, rec)
        if rec["outcome"] == "err" and rec["err"] == "EOverflow" and exp[0] == "err" and exp[1] == "EOverflow":
            rec["numpy_error_agrees"] = True
            return
        if rec["outcome"] != "ok" and exp[0] == "value" and numeric_operands(case) and (d[1] or (x[0] == "var" and y[0] == "var")):
            run.fail("impl", f"C17/{case['op']}/{kinds_of(case)}/error-where-numpy-computes",
                     "type promotion on: the operator raises although numpy computes a result for these operands",
                     {"expression": describe(case), "case": case, "implementation": rec["outcome"] + " " + str(rec.get("err", rec.get("other", ""))),
                      "numpy": {"dtype": str(impl.np.asarray(exp[1]).dtype)}})


def oracle_values(run: Run, impl: Impl, case, rec, got, qdiv, what):
    np = impl.np
    if case["op"] in ARITH + ["neg"] or case["op"] in LOGIC + ["invert"]:
        exp = numpy_expected(impl, case, rec)
        if exp[0] != "value":
            if case["d"] is not None and case["d"][0]:
                run.fail("impl", f"C17/{case['op']}/result-where-numpy-raises", "a result is produced where numpy raises",
                         {"expression": describe(case), "case": case, "numpy": exp[1]})
            return
        e = np.asarray(exp[1])
        shape_ok = tuple(got.shape) == tuple(e.shape) and (rec["shape"] is None or tuple(rec["shape"]) == tuple(e.shape))
        if got.dtype == e.dtype and shape_ok and values_equal(np, got, e):
            return
        if not shape_ok:
            key, why = f"C17/{case['op']}/result-shape", "result shape differs from numpy's broadcast shape"
        else:
            key, why = classify_value_mismatch(impl, case, rec, got, e, qdiv)
        run.fail("impl", key, why,
                 {"expression": describe(case), "case": case, "observed": what,
                  "operand_a": np.asarray(rec["xa"]).tolist(), "operand_b": None if rec["ya"] is None else np.asarray(rec["ya"]).tolist(),
                  "implementation": {"dtype": str(got.dtype), "values": got.tolist()},
                  "numpy": {"dtype": str(e.dtype), "values": e.tolist()},
                  "first_difference": first_diff(np, rec["xa"], rec["ya"], got, e),
                  "emitted": rec.get("tree")})


def report_model_mismatches(run: Run, rt_body, recs, bad, stats):
    by_idx = {r["idx"]: r for r in recs}
    real = []
    for idx, code in sorted(bad.items()):
        if code % 10 == 0 and code >= 10:
            stats["matching_pinned_model_only"] += 1      # the implementation is the unrepaired variant (F10a / F21)
            continue
        real.append((idx, code))
    known_impl = {f.key for f in run.failures if f.kind == "impl"}
    if stats["matching_pinned_model_only"] and not ({KEY_F10A, KEY_F21, KEY_NEGU} & known_impl):
        idx = next(i for i, c in sorted(bad.items()) if c % 10 == 0 and c >= 10)
        run.fail("corr", "C17/unrepaired-variant-without-oracle-failure",
                 "the implementation matches the model of the unrepaired code but the value oracle found no violation",
                 {"expression": describe(by_idx[idx]["case"]), "case": by_idx[idx]["case"]})
    terms = model_terms(run, rt_body, [by_idx[i]["case"] for i, _ in real[:6]])
    for (idx, code), mt in zip(real[:6], terms):
        r = by_idx[idx]
        c = r["case"]
        kind = "emitted tree / result type / error class" if code // 10 == 1 else "integer values (model's Z semantics vs onnxruntime)"
        run.fail("corr", f"C17/model-vs-impl/{c['op']}/{kinds_of(c)}/{'outside' if c['d'] is None else ''.join('T' if v else 'F' for v in c['d'])}",
                 f"model and implementation disagree on {kind}",
                 {"expression": describe(c), "case": c, "code": code, "implementation": r["coq"] or r.get("other"),
                  "model (repaired, pinned)": mt})
    return real


# ------------------------------------------------------------------------------------------------ entry points


def signed_zero_scenarios(run: Run, impl: Impl):
    """Python float literals that are EQUAL as Python objects but are different numbers: 0.0 and -0.0, used one after the other in one
    process (x + 0.0 first, then x * -0.0, -0.0 * x, x / -0.0).  The built model must agree with numpy including the SIGN of zeros and
    infinities; so must the value propagated for constant operands.  Returns the number of comparisons."""
    np = impl.np
    n = 0

    def same(got, want):
        return got.dtype == want.dtype and got.shape == want.shape and np.array_equal(got, want, equal_nan=True) and \
            np.array_equal(np.signbit(got), np.signbit(want))

    for op in impl.opsets:
        for dt in (np.float64, np.float32):
            xv = np.array([1.0, 2.0, -3.0, 0.0], dtype=dt)
            x = impl.argument(impl.Tensor(dt, (4,)))
            for first, second in ((0.0, -0.0), (-0.0, 0.0)):
                try:
                    with impl.F.operator_overloading(op, type_promotion=True, constant_promotion=True):
                        outs = {"shifted": x + first, "prod": x * second, "rprod": second * x, "quot": x / second, "again": x * first}
                        cq = (op.const(xv) * second)._value
                    model = impl.spox.build({"x": x}, outs)
                    so = impl.ort.SessionOptions()
                    so.log_severity_level = 3
                    got = dict(zip(outs, impl.ort.InferenceSession(model.SerializeToString(), so).run(None, {"x": xv})))
                except Exception as e:  # noqa: BLE001
                    run.fail("impl", "C17/signed-zero/raises", f"x (*,/,+) ±0.0 with {np.dtype(dt).name} raised {type(e).__name__}: {str(e)[:150]}",
                             {"dtype": np.dtype(dt).name, "literals": [first, second]})
                    continue
                with np.errstate(all="ignore"):
                    want = {"shifted": xv + first, "prod": xv * second, "rprod": second * xv, "quot": xv / second, "again": xv * first}
                for k in outs:
                    n += 1
                    if not same(got[k], want[k].astype(dt)):
                        run.fail("impl", "C17/signed-zero/value-differs-from-numpy",
                                 f"{k}: with x={xv.tolist()} ({np.dtype(dt).name}) and the literals {first!r} then {second!r}, the built model gives "
                                 f"{got[k].tolist()} but numpy gives {want[k].tolist()} (signs of zero / infinity compared)",
                                 {"dtype": np.dtype(dt).name, "literals": [first, second], "expression": k, "module": op.__name__})
                        break
                if cq is not None:
                    n += 1
                    with np.errstate(all="ignore"):
                        w = (xv * second).astype(dt)
                    if not same(np.asarray(cq.value), w):
                        run.fail("impl", "C17/signed-zero/propagated-value-differs-from-numpy",
                                 f"const(x) * {second!r}: propagated {np.asarray(cq.value).tolist()} but numpy gives {w.tolist()}",
                                 {"dtype": np.dtype(dt).name, "literals": [first, second], "module": op.__name__})
    return n


def equal_literal_scenarios(run: Run, impl: Impl):
    """Literals that are EQUAL as Python objects but are different operands (1 / 1.0 / True, 2 / 2.0, 0 / 0.0 / False), used one after
    the other with the SAME Var inside ONE operator_overloading block: every expression must come out exactly as it does alone in a
    fresh block (result type or exception class) - the single expressions themselves are judged against numpy by the main sweep."""
    np = impl.np
    n = 0
    groups = [[1, 1.0, True], [2, 2.0], [0.0, 0, False], [True, 1, 1.0], [2.0, 2]]
    exprs = {"add": lambda x, c: x + c, "radd": lambda x, c: c + x, "mul": lambda x, c: x * c, "sub": lambda x, c: x - c, "rsub": lambda x, c: c - x,
             "floordiv": lambda x, c: x // c, "truediv": lambda x, c: x / c}

    def outcome(f, x, c):
        try:
            v = f(x, c)
            return ("var", str(v.type))
        except Exception as e:  # noqa: BLE001
            return ("exc", type(e).__name__)

    for op in impl.opsets[:2]:
        for dt in (np.int64, np.int32, np.float32, np.float64):
            for tp in (True, False):
                for grp in groups:
                    for name, f in exprs.items():
                        if name in ("floordiv", "truediv") and any(c == 0 for c in grp):
                            continue
                        x = impl.argument(impl.Tensor(dt, (3,)))
                        alone = []
                        for c in grp:
                            with impl.F.operator_overloading(op, type_promotion=tp, constant_promotion=True):
                                alone.append(outcome(f, x, c))
                        with impl.F.operator_overloading(op, type_promotion=tp, constant_promotion=True):
                            together = [outcome(f, x, c) for c in grp]
                        n += len(grp)
                        if together != alone:
                            k = next(i for i in range(len(grp)) if together[i] != alone[i])
                            run.fail("impl", f"C17/equal-literals-in-one-block/{name}",
                                     f"{name} of a {np.dtype(dt).name} Var with the literal {grp[k]!r}, used after {grp[:k]!r} in the same block "
                                     f"(type_promotion={tp}), gives {together[k]} but {alone[k]} when it is the first expression of a block",
                                     {"dtype": np.dtype(dt).name, "type_promotion": tp, "literals": [repr(c) for c in grp], "alone": alone, "in_one_block": together,
                                      "module": op.__name__})
    # a FLOAT literal whose value happens to be zero is a float literal all the same: with an integer Var and type_promotion=False it
    # must come out exactly as the float literal 1.5 does (a TypeError) - 0.0, -0.0 and numpy float scalars of value zero included
    for op in impl.opsets[:2]:
        for dt in (np.int64, np.int32, np.uint8):
            for name, f in exprs.items():
                if name in ("floordiv", "truediv"):
                    continue
                x = impl.argument(impl.Tensor(dt, (3,)))
                with impl.F.operator_overloading(op, type_promotion=False, constant_promotion=True):
                    ref = outcome(f, x, 1.5)
                for z in (0.0, -0.0, np.float32(0.0), np.float64(-0.0)):
                    with impl.F.operator_overloading(op, type_promotion=False, constant_promotion=True):
                        got = outcome(f, x, z)
                    n += 1
                    if got != ref:
                        run.fail("impl", f"C17/float-zero-literal-without-promotion/{name}",
                                 f"{name} of a {np.dtype(dt).name} Var with the float literal {z!r} under type_promotion=False gives {got}, while the float "
                                 f"literal 1.5 gives {ref}: a float operand does not stop being one because its value is zero",
                                 {"dtype": np.dtype(dt).name, "literal": repr(z), "module": op.__name__})
    return n


def run(run: Run) -> int:
    ok = run.check_theorems(PROPS, CONE, thorough_coqchk=False)
    if run.tier == "thorough" and ok:
        # common.check_theorems' own coqchk call names the scratch copy Scratch.C17 although it was compiled as C17;
        # check the built library of the development instead
        t = time.time()
        rc, out = sh(f"timeout 900 coqchk -silent -o -R {COQ} Spox Spox.props.C17", cwd=COQ, timeout=930)
        run.cov["coqchk"] = {"rc": rc, "tail": out[-400:], "wall_s": round(time.time() - t, 1)}
        if rc != 0:
            run.fail("proof", "coqchk", "coqchk rejected the compiled property file", out[-2000:])
            run.discharged = 0
    rt_body, tinfo = table_obligation(run)
    impl = Impl()
    pseed = run.seed
    cases = gen_cases(run.rng, run.tier, pseed)
    hist = {"outcome": {}, "operator": {}, "setting": {}, "operand_kinds": {}, "shapes": {}}
    for c in cases:
        hist["operator"][c["op"]] = hist["operator"].get(c["op"], 0) + 1
        s = "outside" if c["d"] is None else f"tp={int(c['d'][0])},cp={int(c['d'][1])}"
        hist["setting"][s] = hist["setting"].get(s, 0) + 1
        k = "/".join(d[0] for d in (c["x"], c["y"]) if d is not None)
        hist["operand_kinds"][k] = hist["operand_kinds"].get(k, 0) + 1
        sh_ = f"{tuple(c['sx'])}x{tuple(c['sy'])}"
        hist["shapes"][sh_] = hist["shapes"].get(sh_, 0) + 1
    n_zero = signed_zero_scenarios(run, impl)
    n_eqlit = equal_literal_scenarios(run, impl)
    recs, triples, bad, stats = evaluate(run, impl, cases, rt_body, prop_every=(3 if run.tier == "quick" else 2), hist=hist)
    real = report_model_mismatches(run, rt_body, recs, bad, stats)
    distinct = {json.dumps([c["d"], c["op"], c["x"][:2], None if c["y"] is None else c["y"][:2]]) for c in cases}
    samples = []
    for i in (0, 2, 6, 7, 40, 400):
        if i < len(recs):
            r = recs[i]
            samples.append({"expression": describe(r["case"]), "implementation": r["coq"] or r.get("other"),
                            "onnxruntime": None if "got" not in r else {"dtype": str(r["got"].dtype), "values": r["got"].tolist()}})
    cov = {
        "evaluations": len(cases) + n_zero + n_eqlit,
        "signed_zero_comparisons": n_zero,
        "equal_literals_in_one_block_expressions": n_eqlit,
        "distinct_nontrivial": len(distinct),
        "rule": "operator x promotion setting (or outside any block) x operand kinds (Var of 12 element types, Python int, Python float, "
                "numpy scalar of 12 dtypes; scalars on either side) x broadcasting shape pair; distinct by (setting, operator, operand kinds/"
                "element types); every case applies a real overloaded operator to real Vars",
        "traces_validated_against_impl": len(recs) - len(real),
        "disagreements_checked": len(real),
        "numpy_tables": tinfo,
        "oracle": stats,
        "input_distribution": hist,
        "samples": samples,
        "exhaustive": True,
        "exhaustive_family": "operand KINDS are enumerated completely in both tiers: all 5 arithmetic operators x all 4 settings x "
                             "(Var x Var over 12x12 element types, Var with Python int / Python float on either side, Var with a numpy scalar of "
                             "each of the 12 dtypes on either side), the 3 logical and 2 unary operators, and every operator outside a block; "
                             "operand VALUES, scalar values and shape pairs are sampled (thorough: 6 value sets per kind combination)",
    }
    return run.finish(cov, [
        "onnxruntime's Add/Sub/Mul/Div/Neg/Cast/Floor on the CPU provider are the operations of the ONNX specification "
        "(integer semantics additionally compared with the model's Z semantics on every integer-typed case)",
        "numpy's tables enter the theorems as regenerated finite data; numpy scalars act as their dtype and Python scalar values do not "
        "influence np.result_type (both tested on every run)",
        "INT_MIN // -1 (and INT_MIN / -1 without promotion) is not executed: C++ undefined behaviour in the runtime; the model states the wrap-around corner as a theorem under the assumption that Div wraps",
        "floating-point arithmetic is validated against numpy only (not modelled in Coq); operands exclude inf/nan and zero divisors",
        "a numpy scalar as LEFT operand is exercised through Var's reflected dunder directly (numpy's own scalar operator would run first and hand a Python scalar to the dunder)",
    ])


def replay(run: Run, case) -> int:
    det = case.get("detail") or {}
    c = det.get("case") if isinstance(det, dict) else None
    if c is None:
        print("replay: this record has no single failing case (proof/table failure); re-run ./check C17 quick")
        print(json.dumps(det, indent=1)[:3000])
        return 1
    impl = Impl()
    rt_body, _ = table_obligation(run)
    hist = {"outcome": {}}
    print("expression:", describe(c))
    recs, triples, bad, stats = evaluate(run, impl, [c], rt_body, prop_every=1, hist=hist, name="replay")
    r = recs[0]
    print("implementation outcome:", r["coq"] or r.get("other"))
    if "got" in r:
        print("onnxruntime:", r["got"].dtype, r["got"].tolist())
        e = numpy_expected(impl, c, r)
        if e[0] == "value":
            print("numpy      :", impl.np.asarray(e[1]).dtype, impl.np.asarray(e[1]).tolist())
    mt = model_terms(run, rt_body, [c], name="replaydiag")
    print("model (repaired, pinned):", mt[0] if mt else None)
    print("model comparison code:", bad.get(0, 0), "(0 = agrees with the repaired model; 10 = agrees with the pinned model only)")
    report_model_mismatches(run, rt_body, recs, bad, stats)
    for f in run.failures:
        print(f"  [{f.kind}] {f.key}: {f.what}")
    fresh = [f for f in run.failures if not (f.kind == "impl" and run.is_known(f.key))]
    for f in run.failures:
        if f not in fresh:
            print(f"KNOWN-FINDING: property=C17 {f.what} [{f.key}]")
    if fresh:
        print("VIOLATION property=C17 replay=" + str(case.get("key")))
    return 1 if fresh else 0


if __name__ == "__main__":
    if len(sys.argv) > 1 and sys.argv[1] == "gen-table":
        import numpy as _np

        _rt, _npt, _bad = numpy_tables()
        if _bad:
            print("side obligations failed:", _bad[:10])
            sys.exit(1)
        (COQ / "OpsTable.v").write_text(table_text(_rt, _npt, _np.__version__))
        print("wrote", COQ / "OpsTable.v", len(_rt), len(_npt))
