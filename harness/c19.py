"""C19 — subgraph callbacks run exactly once, with the prescribed arguments.

Model: coq/Subgraph.v, theorems: coq/props/C19.v.

A *session* is a short history: control-flow constructor calls (if_/loop/scan/sequence_map of one of the opset modules
v17..v21) with instrumented callbacks, followed by builds (spox.build) and inference re-runs
(Node.to_singleton_onnx_model) of what was constructed.  Each session is executed against the real code and against
the model (``show_world (run_ops_on f13 f19 ...)`` under vm_compute); compared: the global call trace (callback id and
the exact types of the argument Vars it received, in order), per constructor the Graph attributes (argument types,
result types, stored constructor) and ``out_variadic`` of the node request, the exception class, and per build the
signature of every subgraph in the produced ModelProto.

Direct oracle (implementation only, written from the ONNX operator documentation, independent of the model):
invocation counts, argument types vs the ONNX prescription, freshness of the argument Vars, output count vs the number
of Vars the callback yielded, TypeError for malformed callbacks, no further invocation on build; and for runnable
sessions the built model is executed in onnxruntime and the shapes/dtypes of the values the body really receives
(returned as scan outputs / carried values / mapped samples) are compared with the declared argument types.
"""

from __future__ import annotations

import contextlib
import copy
import importlib
import json
import warnings

from harness.common import COQ, Run, coq_list, parse_coq_string, sh

CONE = ["Subgraph.v", "SubgraphFacts.v"]
PROPS = "props/C19.v"
MODS = ["v17", "v18", "v19", "v20", "v21"]
DT = {"float32": 1, "uint8": 2, "int8": 3, "int32": 6, "int64": 7, "str": 8, "bool": 9, "float64": 11}
DT_INV = {v: k for k, v in DT.items()}
NUMERIC = ["float32", "int64", "float64", "int32", "uint8", "bool"]
SYMS = ["N", "M", "L"]
SEQ_LEN = 3  # runtime length of every scanned axis / mapped sequence in runnable sessions
TRIPS = 2  # runtime trip count of runnable loops
KINDS = ("if", "loop", "scan", "seqmap")

# ------------------------------------------------------------------------------------------------ type descriptors
# ["T", dtype name, shape | None] (shape: list of int | symbol str | None), ["S", t], ["O", t]; an operand is a type or None


def T(dt, shape):
    return ["T", dt, None if shape is None else list(shape)]


def show_dim(d):
    if d is None:
        return "?"
    if isinstance(d, str):
        return "s%d" % SYMS.index(d)
    return str(d)


def show_ty(t):
    if t[0] == "T":
        if t[2] is None:
            return "T%d*" % DT[t[1]]
        return "T%d[%s]" % (DT[t[1]], ",".join(show_dim(d) for d in t[2]))
    return ("S(%s)" if t[0] == "S" else "O(%s)") % show_ty(t[1])


def show_tys(ts):
    return "<" + ";".join(show_ty(t) for t in ts) + ">"


def coq_dim(d):
    if d is None:
        return "DUnk"
    if isinstance(d, str):
        return "DSym %d%%N" % SYMS.index(d)
    return "DInt %d%%N" % d


def coq_ty(t):
    if t[0] == "T":
        sh = "None" if t[2] is None else "(Some %s)" % coq_list([coq_dim(d) for d in t[2]])
        return "(Tensor %d%%N %s)" % (DT[t[1]], sh)
    return "(%s %s)" % ("Seq" if t[0] == "S" else "Opt", coq_ty(t[1]))


def coq_operand(t):
    return "None" if t is None else "(Some %s)" % coq_ty(t)


def coq_zs(l):
    return "None" if l is None else "(Some %s)" % coq_list(["(%d)%%Z" % a for a in l])


def coq_elem(e):
    if e[0] == "arg":
        return "RArg %d" % e[1]
    if e[0] == "outer":
        return "ROuter %s" % coq_ty(e[1])
    return "RNonVar"


def coq_cb(cid, beh):
    k = beh[0]
    if k in ("list", "tuple"):
        b = "BList %s" % coq_list([coq_elem(e) for e in beh[1]])
    elif k in ("gen", "iter"):
        b = "BOneShot %s" % coq_list([coq_elem(e) for e in beh[1]])
    elif k == "nonit":
        b = "BNonIterable"
    elif k == "raise":
        b = "BRaise %d" % beh[1]
    else:
        b = "BNotCallable"
    return "(mkcb %d (%s))" % (cid, b)


def coq_op(o, cbs):
    k = o[0]
    if k == "if":
        return "OpIf %s %s" % (coq_cb(o[1], cbs[o[1]]), coq_cb(o[2], cbs[o[2]]))
    if k == "loop":
        return "OpLoop %s %s" % (coq_list([coq_operand(t) for t in o[1]]), coq_cb(o[2], cbs[o[2]]))
    if k == "scan":
        return "OpScan %s (%d)%%Z %s %s %s" % (
            coq_list([coq_operand(t) for t in o[1]]), o[2], coq_zs(o[3]), coq_zs(o[4]), coq_cb(o[5], cbs[o[5]]))
    if k == "seqmap":
        return "OpSeqMap %s %s %s" % (coq_operand(o[1]), coq_list([coq_operand(t) for t in o[2]]), coq_cb(o[3], cbs[o[3]]))
    if k == "build":
        return "OpBuild %d" % o[1]
    return "OpSingleton %d" % o[1]


HEADER = ("From Coq Require Import ZArith NArith List String.\nFrom Spox Require Import Subgraph.\n"
          "Import ListNotations.\nOpen Scope Z_scope.\n")


def model_expr(case, f13, f19):
    ops = coq_list([coq_op(o, case["cbs"]) for o in case["ops"]])
    return "show_world (run_ops_on %s %s %s)" % ("true" if f13 else "false", "true" if f19 else "false", ops)


def model_eval(run: Run, cases, name, variants=((True, True), (False, False))):
    exprs = []
    for c in cases:
        for f13, f19 in variants:
            exprs.append(model_expr(c, f13, f19))
    res = [parse_coq_string(r) for r in run.coq_eval(name, HEADER, exprs, shard=120)]
    k = len(variants)
    return [res[i * k:(i + 1) * k] for i in range(len(cases))]


def sub_expr(sc, mat):
    tys = coq_list(["None" if t == "bad" else "(Some %s)" % coq_ty(t) for t in sc["types"]])
    return "show_sub (subgraph_gen %s %s %s)" % ("true" if mat else "false", tys, coq_cb(0, sc["cb"]))


# ------------------------------------------------------------------------------------------------ ONNX prescription
# Written from the ONNX operator documentation (If-16/19/21, Loop-16/19/21, Scan-16/19/21, SequenceMap-17); these
# functions never look at the model or at the implementation.


def is_tensor(t):
    return t is not None and t[0] == "T"


def spec_args(o):
    """Prescribed argument types of each callback of op ``o`` (list per callback), or None if ONNX does not admit the operands."""
    k = o[0]
    if k == "if":
        return [[], []]
    if k == "loop":
        if any(t is None for t in o[1]):
            return None
        # iteration number: tensor(int64) with one element; condition: tensor(bool) with one element; carried: as given
        return [[("single", "int64"), ("single", "bool")] + [copy.deepcopy(t) for t in o[1]]]
    if k == "scan":
        ops, m, axes = o[1], o[2], o[3]
        if m < 1 or m > len(ops) or not all(is_tensor(t) for t in ops):  # at least one scan input
            return None
        n = len(ops) - m
        axes = [0] * m if axes is None else list(axes)
        if len(axes) != m:
            return None
        out = [copy.deepcopy(t) for t in ops[:n]]  # state variables keep their type
        for t, a in zip(ops[n:], axes):  # scanned values lose the scan axis
            if t[2] is None:
                out.append(T(t[1], None))
                continue
            r = len(t[2])
            if not (-r <= a <= r - 1):
                return None
            a = a + r if a < 0 else a
            out.append(T(t[1], [d for i, d in enumerate(t[2]) if i != a]))
        return [out]
    if k == "seqmap":
        first, adds = o[1], o[2]
        if first is None or first[0] != "S" or first[1][0] != "T":
            return None
        out = [copy.deepcopy(first[1])]
        for t in adds:
            if t is None:
                return None
            if t[0] == "S" and t[1][0] == "T":
                out.append(copy.deepcopy(t[1]))  # a sample of the sequence
            elif t[0] == "T":
                out.append(copy.deepcopy(t))  # tensors are passed to every invocation as they are
            else:
                return None
        return [out]
    raise ValueError(k)


def arg_matches(spec, got):
    if isinstance(spec, tuple):  # ("single", dtype): one element, rank 0 or shape [1]
        return got is not None and got[0] == "T" and got[1] == spec[1] and got[2] in ([], [1])
    return spec == got


def args_match(spec, got):
    return len(spec) == len(got) and all(arg_matches(s, g) for s, g in zip(spec, got))


def spec_out_count(kind, n_results):
    return n_results - 1 if kind == "loop" else n_results


def op_cb_ids(o):
    k = o[0]
    return [o[1], o[2]] if k == "if" else [o[2]] if k == "loop" else [o[5]] if k == "scan" else [o[3]] if k == "seqmap" else []


def yielded(beh):
    return beh[1] if beh[0] in ("list", "tuple", "gen", "iter") else None


def is_malformed(beh, nargs):
    if beh[0] in ("notcallable", "nonit"):
        return True
    el = yielded(beh)
    if el is None:
        return False
    return any(e[0] == "nonvar" for e in el) and all(e[0] != "arg" or e[1] < nargs for e in el)


# ------------------------------------------------------------------------------------------------ implementation side


class _User(Exception):
    def __init__(self, n):
        super().__init__(n)
        self.n = n


NODE_CLASS = {"if": "_If", "loop": "_Loop", "scan": "_Scan", "seqmap": "_SequenceMap"}
FN_NAME = {"if": "if_", "loop": "loop", "scan": "scan", "seqmap": "sequence_map"}
ONNX_OP = {"if": "If", "loop": "Loop", "scan": "Scan", "seqmap": "SequenceMap"}
GRAPH_ATTRS = {"if": ["else_branch", "then_branch"], "loop": ["body"], "scan": ["body"], "seqmap": ["body"]}


@contextlib.contextmanager
def spy_init(cls, log):
    had = "__init__" in cls.__dict__
    orig = cls.__init__

    def init(self_, *a, **k):
        log.append({"attrs": a[0] if a else k.get("attrs"), "out_variadic": k.get("out_variadic"), "node": self_})
        return orig(self_, *a, **k)

    cls.__init__ = init
    try:
        yield
    finally:
        if had:
            cls.__init__ = orig
        else:
            del cls.__init__


class Impl:
    def __init__(self):
        import numpy as np
        import onnx
        import onnxruntime as ort
        import spox
        import spox._graph
        from spox import Optional, Sequence, Tensor, Var, argument

        ort.set_default_logger_severity(4)
        self.np, self.onnx, self.ort, self.spox = np, onnx, ort, spox
        self.Tensor, self.Sequence, self.Optional, self.Var, self.argument = Tensor, Sequence, Optional, Var, argument
        self.subgraph = spox._graph.subgraph
        self.npdt = {"float32": np.float32, "uint8": np.uint8, "int8": np.int8, "int32": np.int32, "int64": np.int64,
                     "str": np.str_, "bool": np.bool_, "float64": np.float64}

    def mod(self, name):
        return importlib.import_module("spox.opset.ai.onnx." + name)

    # -- types
    def mk_type(self, d):
        if d[0] == "T":
            return self.Tensor(self.npdt[d[1]], None if d[2] is None else tuple(d[2]))
        return (self.Sequence if d[0] == "S" else self.Optional)(self.mk_type(d[1]))

    def desc_of(self, t):
        if t is None:
            return None
        if isinstance(t, self.Tensor):
            dt = t.dtype
            name = "str" if dt.kind in "US" else dt.name
            return ["T", name, None if t.shape is None else list(t.shape)]
        if isinstance(t, self.Sequence):
            return ["S", self.desc_of(t.elem_type)]
        if isinstance(t, self.Optional):
            return ["O", self.desc_of(t.elem_type)]
        return ["?", repr(t)]

    def desc_of_proto(self, tp):
        which = tp.WhichOneof("value")
        if which == "tensor_type":
            tt = tp.tensor_type
            name = DT_INV.get(tt.elem_type, "e%d" % tt.elem_type)
            if not tt.HasField("shape"):
                return ["T", name, None]
            dims = []
            for d in tt.shape.dim:
                w = d.WhichOneof("value")
                dims.append(d.dim_value if w == "dim_value" else (d.dim_param if w == "dim_param" and d.dim_param in SYMS else None))
            return ["T", name, dims]
        if which == "sequence_type":
            return ["S", self.desc_of_proto(tp.sequence_type.elem_type)]
        if which == "optional_type":
            return ["O", self.desc_of_proto(tp.optional_type.elem_type)]
        return ["?", str(tp)]

    def show_t(self, d):
        return "None" if d is None else (show_ty(d) if d[0] != "?" else d[1])

    # -- callbacks
    def make_cb(self, cid, beh, st):
        if beh[0] == "notcallable":
            return "not callable %d" % cid

        def f(*args):
            st["calls"].append((cid, args))
            k = beh[0]
            if k == "raise":
                raise _User(beh[1])
            if k == "nonit":
                return 17

            def elem(e):
                if e[0] == "arg":
                    v = args[e[1]]
                    return st["op"].identity(v) if st["ident"] else v
                if e[0] == "outer":
                    return st["outer"](e[1])
                return "not a Var"

            if k == "list":
                return [elem(e) for e in beh[1]]
            if k == "tuple":
                return tuple(elem(e) for e in beh[1])
            if k == "gen":
                return (elem(e) for e in beh[1])
            return iter([elem(e) for e in beh[1]])

        return f

    # -- one session
    def run_session(self, case, do_run=False):
        """Execute the session; returns (observation string, facts for the direct oracle)."""
        op = self.mod(case["mod"])
        st = {"calls": [], "op": op, "ident": bool(case.get("ident")), "inputs": {}, "outer_cache": {}}

        st["unk"] = []

        def new_arg(desc):
            v = self.argument(self.mk_type(desc))
            st["inputs"]["a%d" % len(st["inputs"])] = (v, desc)
            return v

        def make_var(desc):
            """A Var of type ``desc``; spox.build wants concrete argument types, so a tensor of unknown rank is made by
            reshaping a concrete argument to a run-time shape (and a sequence of those by SequenceConstruct)."""
            if desc[0] == "T" and desc[2] is None:
                data = new_arg(T(desc[1], [None]))
                shp = new_arg(T("int64", [None]))
                names = list(st["inputs"])[-2:]
                v = op.reshape(data, shp)
                st["unk"].append((v, names[0], names[1], desc))
                return v
            if desc[0] == "S" and desc[1][0] == "T" and desc[1][2] is None:
                r = make_var(desc[1])
                return op.sequence_construct([r] * SEQ_LEN)
            return new_arg(desc)

        def outer(desc):
            key = json.dumps(desc)
            if key not in st["outer_cache"]:
                st["outer_cache"][key] = make_var(desc)
            return st["outer_cache"][key]

        st["outer"] = outer

        def operand(desc):
            if desc is None:
                return self.Var(new_arg(T("float32", []))._op, None)
            return make_var(desc)

        cbs = [self.make_cb(i, b, st) for i, b in enumerate(case["cbs"])]
        nodes, built, facts = [], [], []
        shown = 0
        for o in case["ops"]:
            k = o[0]
            before = len(st["calls"])
            if k in ("build", "singleton"):
                rec = nodes[o[1]] if o[1] < len(nodes) else None
                fact = {"op": o, "kind": k, "calls_added": 0, "error": None}
                if rec is None or not rec.get("accepted"):
                    built.append("")
                else:
                    try:
                        if k == "build":
                            protos = self.build_protos(rec, st)
                        else:
                            protos = self.singleton_protos(rec)
                        built.append("|".join(show_tys(a) + "->" + show_tys(r) for a, r in protos))
                    except Exception as e:  # noqa: BLE001
                        built.append("error:%s" % type(e).__name__)
                        fact["error"] = "%s: %s" % (type(e).__name__, str(e)[:300])
                fact["calls_added"] = len(st["calls"]) - before
                fact["target_kind"] = rec["kind"] if rec else None
                facts.append(fact)
                continue
            rec = self.construct(op, o, cbs, st, operand)
            rec["new_calls"] = st["calls"][before:]
            nodes.append(rec)
            facts.append(rec)
        calls_s = " ".join("%d%s" % (cid, "<" + ";".join(self.show_t(self.desc_of(a.type)) for a in args) + ">")
                           for cid, args in st["calls"])
        obs = "calls=%s nodes=%s built=%s" % (calls_s, " / ".join(r["shown"] for r in nodes), " / ".join(built))
        run_obs = None
        if do_run and nodes and nodes[0].get("accepted"):
            run_obs = self.run_ort(case, nodes[0], st)
        return obs, {"facts": facts, "cbs": cbs, "calls": st["calls"], "run": run_obs, "inputs": st["inputs"]}

    def construct(self, op, o, cbs, st, operand):
        k = o[0]
        fn = getattr(op, FN_NAME[k])
        cls = fn.__globals__[NODE_CLASS[k]]
        log, outs, exc = [], None, None
        rec = {"op": o, "kind": k, "operands": []}
        try:
            if k == "if":
                cond = operand(T("bool", []))
                rec["operands"] = [cond]
                with spy_init(cls, log):
                    outs = fn(cond, else_branch=cbs[o[1]], then_branch=cbs[o[2]])
            elif k == "loop":
                m_ = operand(T("int64", []))
                vs = [operand(t) for t in o[1]]
                rec["operands"] = [m_] + vs
                rec["trip_input"] = m_
                with spy_init(cls, log):
                    outs = fn(m_, None, vs, body=cbs[o[2]])
            elif k == "scan":
                vs = [operand(t) for t in o[1]]
                rec["operands"] = vs
                with spy_init(cls, log):
                    outs = fn(vs, body=cbs[o[5]], num_scan_inputs=o[2], scan_input_axes=o[3], scan_input_directions=o[4])
            else:
                first = operand(o[1])
                vs = [operand(t) for t in o[2]]
                rec["operands"] = [first] + vs
                with spy_init(cls, log):
                    outs = fn(first, vs, body=cbs[o[3]])
        except Exception as e:  # noqa: BLE001
            exc = e
        rec["exc"] = exc
        rec["exc_class"] = None if exc is None else ("User%d" % exc.n if isinstance(exc, _User) else type(exc).__name__)
        rec["outs"] = None if outs is None else list(outs)
        rec["accepted"] = exc is None
        rec["request"] = log[0] if log else None
        rec["requests"] = len(log)
        if log:
            graphs = [getattr(log[0]["attrs"], a).value for a in GRAPH_ATTRS[k]]
            rec["graphs"] = graphs
            parts = []
            for g in graphs:
                cid = next((i for i, c in enumerate(cbs) if c is g._constructor), -1)
                a = [self.desc_of(v.type) for v in (g.requested_arguments or ())]
                r = [self.desc_of(v.type) for v in g.requested_results.values()]
                parts.append("%d<%s>-><%s>" % (cid, ";".join(self.show_t(x) for x in a), ";".join(self.show_t(x) for x in r)))
            rec["shown"] = "node{%s}out=%s" % ("|".join(parts), log[0]["out_variadic"])
        else:
            rec["graphs"] = []
            rec["shown"] = "raise %s" % rec["exc_class"]
        return rec

    def _final_outputs(self, rec, st):
        """Outputs handed to spox.build: the constructor's outputs, or their runtime shape when the type is not concrete."""
        outs = {}
        for j, v in enumerate(rec["outs"]):
            t = v.type
            if t is not None and t._is_concrete:
                outs["o%d" % j] = v
            elif isinstance(t, self.Tensor):
                outs["shape%d" % j] = st["op"].shape(v)
            else:
                outs["len%d" % j] = st["op"].sequence_length(v)
        return outs

    def build_model(self, rec, st):
        outs = self._final_outputs(rec, st)
        if not outs:
            raise ValueError("node without outputs")
        return self.spox.build({n: v for n, (v, _) in st["inputs"].items()}, outs)

    def _protos_of_node(self, nd, kind):
        protos = []
        attrs = {a.name: a for a in nd.attribute}
        for name in GRAPH_ATTRS[kind]:
            g = attrs[name].g
            protos.append(([self.desc_of_proto(i.type) for i in g.input], [self.desc_of_proto(x.type) for x in g.output]))
        return protos

    def build_protos(self, rec, st):
        model = self.build_model(rec, st)
        nds = [nd for nd in model.graph.node if nd.op_type == ONNX_OP[rec["kind"]]]
        if len(nds) != 1:
            raise ValueError("expected one %s node, found %d" % (ONNX_OP[rec["kind"]], len(nds)))
        return self._protos_of_node(nds[0], rec["kind"])

    def singleton_protos(self, rec):
        node = rec["request"]["node"]
        model, _ = node.to_singleton_onnx_model()
        node.infer_output_types()
        return self._protos_of_node(model.graph.node[0], rec["kind"])

    # -- onnxruntime: what does the body really receive?
    def concretise(self, desc, scan_axis=None):
        """A runtime shape for a Tensor descriptor (unknown dim -> 2, N -> 3, M -> 4, L -> SEQ_LEN)."""
        sym = {"N": 3, "M": 4, "L": SEQ_LEN}
        if desc[2] is None:
            if scan_axis is None:
                return (2,)
            return (2,) * scan_axis + (SEQ_LEN,) if scan_axis >= 0 else (SEQ_LEN,) + (2,) * (-scan_axis - 1)
        shape = [2 if d is None else sym[d] if isinstance(d, str) else d for d in desc[2]]
        if scan_axis is not None and shape:
            shape[scan_axis] = SEQ_LEN if desc[2][scan_axis] is None else shape[scan_axis]
        return tuple(shape)

    def value(self, desc, scan_axis=None, count=SEQ_LEN):
        np = self.np
        if desc[0] == "S":
            return [self.value(desc[1]) for _ in range(count)]
        shape = self.concretise(desc, scan_axis)
        n = int(np.prod(shape)) if shape else 1
        return (np.arange(n) % 2).reshape(shape).astype(self.npdt[desc[1]])

    def run_ort(self, case, rec, st):
        np = self.np
        o = rec["op"]
        k = o[0]
        try:
            model = self.build_model(rec, st)
            feeds = {}
            scan_axis_of = {}
            if k == "scan":
                n = len(o[1]) - o[2]
                axes = o[3] if o[3] is not None else [0] * o[2]
                for v, a in zip(rec["operands"][n:], axes):
                    scan_axis_of[id(v)] = a
            helper = {}
            for v, dname, sname, desc in st["unk"]:
                shape = self.concretise(desc, scan_axis_of.get(id(v)))
                helper[dname] = self.value(T(desc[1], [int(np.prod(shape))]))
                helper[sname] = np.array(shape, dtype=np.int64)
            for name, (v, desc) in st["inputs"].items():
                if name in helper:
                    feeds[name] = helper[name]
                elif rec.get("trip_input") is v:
                    feeds[name] = np.array(TRIPS, dtype=np.int64)
                elif desc == T("bool", []):
                    feeds[name] = np.array(True)
                else:
                    feeds[name] = self.value(desc, scan_axis_of.get(id(v)))
            sess = self.ort.InferenceSession(model.SerializeToString(), providers=["CPUExecutionProvider"])
            names = [x.name for x in sess.get_outputs()]
            vals = sess.run(None, feeds)
        except Exception as e:  # noqa: BLE001
            return {"error": "%s: %s" % (type(e).__name__, str(e)[:400])}
        return {"outputs": dict(zip(names, vals))}


# ------------------------------------------------------------------------------------------------ direct oracle


def oracle(impl: Impl, case, info):
    """Decide the property statement on the implementation alone.  Returns a list of (key, what, detail)."""
    bad = []
    cbs_desc = case["cbs"]
    total_before = 0
    for fact in info["facts"]:
        k = fact["kind"]
        if k in ("build", "singleton"):
            if fact["calls_added"]:
                bad.append(("C19/%s/called-again-on-%s" % (fact["target_kind"], k),
                            "a subgraph callback was invoked again by %s" % ("spox.build" if k == "build" else "to_singleton_onnx_model"),
                            {"added_calls": fact["calls_added"]}))
            continue
        o = fact["op"]
        ids = op_cb_ids(o)
        new = fact["new_calls"]
        got_ids = [cid for cid, _ in new]
        spec = spec_args(o)
        # (1) exactly once
        if fact["exc"] is None or fact["request"] is not None:
            if got_ids != ids:
                bad.append(("C19/%s/callback-count" % k, "callbacks were not invoked exactly once each, in order",
                            {"expected_ids": ids, "invoked_ids": got_ids}))
        else:
            if got_ids != ids[:len(got_ids)]:
                bad.append(("C19/%s/callback-count" % k, "a failing constructor invoked callbacks more than once / out of order",
                            {"expected_prefix_of": ids, "invoked_ids": got_ids}))
        # (2) prescribed argument types, (3) fresh arguments
        operand_ids = {id(v) for v in fact["operands"]} | {id(v) for v, _ in info["inputs"].values()}
        for pos, (cid, args) in enumerate(new):
            got = [impl.desc_of(a.type) for a in args]
            if spec is not None and pos < len(ids) and cid == ids[pos]:
                want = spec[pos]
                if not args_match(want, got):
                    key = "C19/%s/arg-types" % k
                    if k == "scan":
                        n_state = len(o[1]) - o[2]
                        key = "C19/scan/state-scan-split" if n_state >= 1 else "C19/scan/scan-input-axes-ignored"
                    bad.append((key, "the callback received argument types that differ from the ONNX prescription",
                                {"prescribed": [("%s[1 element]" % s[1]) if isinstance(s, tuple) else show_ty(s) for s in want],
                                 "received": [impl.show_t(g) for g in got]}))
            fresh = (len({id(a) for a in args}) == len(args) and all(id(a) not in operand_ids for a in args)
                     and all(a._name is None for a in args) and all(type(a._op).__name__ == "Argument" for a in args))
            if not fresh:
                bad.append(("C19/%s/arguments-not-fresh" % k, "argument Vars are not fresh unnamed arguments", {"callback": cid}))
        if fact["request"] is not None:
            for g, cid, (cid2, args) in zip(fact["graphs"], ids, new):
                ga = tuple(g.requested_arguments or ())
                if len(ga) != len(args) or any(x is not y for x, y in zip(ga, args)):
                    bad.append(("C19/%s/graph-arguments-differ" % k, "Graph._arguments are not the Vars the callback was invoked with", {"callback": cid}))
        # (1b) F13b: operands that ONNX admits but the constructor cannot type
        operands_rejected = False
        if spec is not None and fact["exc"] is not None and not new and fact["request"] is None:
            first_cb = cbs_desc[ids[0]]
            if first_cb[0] != "notcallable" or fact["exc_class"] != "TypeError":
                operands_rejected = True
                key = "C19/%s/operands-rejected" % k
                if k == "seqmap" and fact["exc_class"] == "AttributeError" and any(is_tensor(t) for t in o[2]):
                    key = "C19/sequence_map/tensor-operand"
                bad.append((key, "operands admitted by ONNX are rejected before the callback is invoked (%s)" % fact["exc_class"],
                            {"exception": "%s: %s" % (fact["exc_class"], str(fact["exc"])[:200])}))
        # (4) output count
        if fact["request"] is not None:
            for g, cid in zip(fact["graphs"], ids):
                y = yielded(cbs_desc[cid])
                n_res = len(g.requested_results)
                if y is not None and n_res != len(y):
                    one_shot = cbs_desc[cid][0] in ("gen", "iter")
                    bad.append(("C19/one-shot-iterable-results-lost" if one_shot and n_res == 0 else "C19/%s/result-count" % k,
                                "the subgraph has %d results but the callback yielded %d Vars" % (n_res, len(y)),
                                {"callback": cid, "returns": cbs_desc[cid][0]}))
            y = yielded(cbs_desc[ids[0]])
            if y is not None:
                want_n = spec_out_count(k, len(y))
                ov = fact["request"]["out_variadic"]
                got_n = len(fact["outs"]) if fact["outs"] is not None else None
                if ov != want_n or (got_n is not None and got_n != want_n):
                    one_shot = cbs_desc[ids[0]][0] in ("gen", "iter")
                    bad.append(("C19/one-shot-iterable-results-lost" if one_shot and ov == spec_out_count(k, 0) else "C19/%s/out-count" % k,
                                "operator output count is not fixed by the number of Vars the callback returned",
                                {"returned_vars": len(y), "prescribed_outputs": want_n, "out_variadic": ov, "len(outputs)": got_n}))
        # (5) malformed callbacks raise TypeError at the call
        if spec is not None and not operands_rejected:
            for pos, cid in enumerate(ids):
                if is_malformed(cbs_desc[cid], len(spec[pos])):
                    if fact["exc_class"] != "TypeError" or fact["request"] is not None:
                        bad.append(("C19/%s/malformed-not-typeerror" % k, "a malformed callback did not raise TypeError at the call",
                                    {"callback": cbs_desc[cid], "outcome": fact["shown"], "exception": fact["exc_class"]}))
                    break
                if yielded(cbs_desc[cid]) is None:
                    break
    # (6) onnxruntime
    r = info.get("run")
    if r is not None and "outputs" in r:
        bad += oracle_run(impl, case, info, r["outputs"])
    return bad


def oracle_run(impl, case, info, outputs):
    """Values the body received at run time (returned by the body as carried finals / scan outputs / mapped samples)
    against the types of the argument Vars the callback was given."""
    bad = []
    fact = info["facts"][0]
    o = fact["op"]
    k = o[0]
    if k == "if" or not fact["new_calls"]:
        return bad
    cid, args = fact["new_calls"][0]
    elems = yielded(case["cbs"][cid]) or []
    n_keep = len(o[1]) if k == "loop" else (len(o[1]) - o[2]) if k == "scan" else 0
    first_out = 1 if k == "loop" else 0  # the loop condition is not an output
    for j, e in enumerate(elems[first_out:]):
        if e[0] != "arg":
            continue
        decl = impl.desc_of(args[e[1]].type)
        if decl is None or decl[0] != "T":
            continue
        val = outputs.get("o%d" % j)
        shp = outputs.get("shape%d" % j)
        if val is None and shp is None:
            continue
        if k == "seqmap":
            samples = [(v.shape, v.dtype) for v in val] if val is not None else []
        else:
            full = tuple(val.shape) if val is not None else tuple(int(x) for x in shp)
            per = full if j < n_keep else full[1:]  # finals are one value, scan outputs are stacked along axis 0
            samples = [(per, val.dtype if val is not None else None)]
        for shape, dtype in samples:
            ok = True
            if decl[2] is not None:
                ok = len(decl[2]) == len(shape) and all(not isinstance(d, int) or d == s for d, s in zip(decl[2], shape))
            if dtype is not None:
                name = "str" if dtype.kind in "USO" else dtype.name
                ok = ok and name == decl[1]
            if not ok:
                bad.append(("C19/%s/runtime-value-differs-from-argument-type" % k,
                            "at run time the body receives a value that does not have the type of its argument Var",
                            {"argument": e[1], "declared": show_ty(decl), "runtime_shape": list(shape), "runtime_dtype": str(dtype)}))
    return bad


# ------------------------------------------------------------------------------------------------ generation


def gen_shape(rng, max_rank=3, min_rank=0, allow_unknown_rank=True):
    if allow_unknown_rank and rng.random() < 0.15:
        return None
    r = rng.randint(min_rank, max_rank)
    return [rng.choice([1, 2, 2, 3, 4, 5, None, "N", "M"]) for _ in range(r)]


def gen_tensor(rng, dtypes=NUMERIC, **kw):
    return T(rng.choice(dtypes), gen_shape(rng, **kw))


def gen_any_type(rng):
    r = rng.random()
    t = gen_tensor(rng, dtypes=NUMERIC + ["str", "int8"])
    if r < 0.12:
        return ["S", t]
    if t[2] is None:
        t = T(t[1], [2])
    if r < 0.17:
        return ["O", t]
    if r < 0.20:
        return ["O", ["S", t]]
    return t


def result_kind(rng, p_oneshot=0.3):
    r = rng.random()
    if r < p_oneshot * 0.7:
        return "gen"
    if r < p_oneshot:
        return "iter"
    return "list" if r < 0.75 else "tuple"


def gen_scan_operands(rng, n, m, runnable):
    """n state tensors, m scanned tensors with their axes; scanned axes carry SEQ_LEN / None / 'L' when runnable."""
    state = [gen_tensor(rng, allow_unknown_rank=not runnable) for _ in range(n)]  # ORT's Scan wants ranked body outputs
    scanned, axes = [], []
    use_axes = rng.random() < 0.6
    for _ in range(m):
        sh = gen_shape(rng, max_rank=3, min_rank=1, allow_unknown_rank=not runnable)
        if sh is None:
            a = rng.choice([0, 0, 1, -1]) if use_axes else 0
        else:
            a = rng.randrange(-len(sh), len(sh)) if use_axes else 0
            sh[a] = rng.choice([SEQ_LEN, SEQ_LEN, None, "L"])
        scanned.append(T(rng.choice(NUMERIC), sh))
        axes.append(a)
    return state + scanned, (axes if use_axes else None)


def gen_constructor(rng, kind, count, cbs, runnable=False, oneshot=0.3):
    """One well-formed constructor op (the node is expected to be accepted); appends its callbacks to ``cbs``."""
    if kind == "if":
        tys = [gen_tensor(rng, allow_unknown_rank=False) if rng.random() < 0.85 else ["S", gen_tensor(rng, allow_unknown_rank=False)]
               for _ in range(max(1, count))]
        for _ in range(2):
            cbs.append([result_kind(rng, oneshot), [["outer", t] for t in tys]])
        return ["if", len(cbs) - 2, len(cbs) - 1]
    if kind == "loop":
        carried = [gen_tensor(rng) if (runnable or rng.random() < 0.8) else gen_any_type(rng) for _ in range(count)]
        elems = [["arg", 1]] + [["arg", 2 + i] for i in range(count)]
        tensor_args = [0, 1] + [2 + i for i, t in enumerate(carried) if t[0] == "T"]
        scans = tensor_args if runnable else rng.sample(tensor_args, rng.randint(0 if count else 1, min(2, len(tensor_args))))
        elems += [["arg", j] for j in scans]
        cbs.append([result_kind(rng, oneshot), elems])
        return ["loop", carried, len(cbs) - 1]
    if kind == "scan":
        n = count
        m = rng.randint(1, 3)
        if rng.random() < 0.5:
            n, m = rng.randint(0, 2), max(1, count)
        ops, axes = gen_scan_operands(rng, n, m, runnable)
        dirs = None if rng.random() < 0.7 else [rng.randint(0, 1) for _ in range(m)]
        elems = [["arg", i] for i in range(n)]
        scans = list(range(n + m)) if runnable else rng.sample(range(n + m), rng.randint(0 if n else 1, min(2, n + m)))
        elems += [["arg", j] for j in scans]
        cbs.append([result_kind(rng, oneshot), elems])
        return ["scan", ops, m, axes, dirs, len(cbs) - 1]
    first = ["S", gen_tensor(rng, allow_unknown_rank=not runnable)]
    adds = [(["S", gen_tensor(rng, allow_unknown_rank=not runnable)] if rng.random() < 0.5 else gen_tensor(rng, allow_unknown_rank=not runnable))
            for _ in range(count)]
    js = list(range(1 + count)) if runnable else rng.sample(range(1 + count), rng.randint(1, min(3, 1 + count)))
    cbs.append([result_kind(rng, oneshot), [["arg", j] for j in js]])
    return ["seqmap", first, adds, len(cbs) - 1]


def gen_wellformed(rng, kind=None, count=None, builds=None, mod=None, runnable=False):
    kind = kind or rng.choice(KINDS)
    if count is None:
        # wide bodies now and then: with 11 or more body arguments their generated names no longer sort like their positions
        count = rng.choice([9, 10, 12]) if rng.random() < 0.08 else rng.randint(0, 3)
    cbs = []
    op = gen_constructor(rng, kind, count, cbs, runnable=runnable, oneshot=0.0 if runnable else 0.3)
    builds = rng.randint(0, 3) if builds is None else builds
    tail = [["build", 0] if rng.random() < 0.7 else ["singleton", 0] for _ in range(builds)]
    return {"mod": mod or rng.choice(MODS), "cbs": cbs, "ops": [op] + tail, "wellformed": True, "run": runnable,
            "ident": True if runnable else rng.random() < 0.5}


def gen_shared(rng):
    """Two or three constructors handed the SAME callback objects, with builds in between."""
    cbs = []
    kind = rng.choice(["if", "if", "loop", "seqmap"])
    ops = []
    if kind == "if":
        t = gen_tensor(rng, allow_unknown_rank=False)
        cbs.append([result_kind(rng), [["outer", t]]])
        if rng.random() < 0.5:
            cbs.append([result_kind(rng), [["outer", t]]])
        a, b = 0, len(cbs) - 1
        ops = [["if", a, b], ["build", 0], ["if", b, a], ["if", a, a]]
    elif kind == "loop":
        carried = [gen_tensor(rng)]
        cbs.append([result_kind(rng), [["arg", 1], ["arg", 2], ["arg", 0]]])
        ops = [["loop", carried, 0], ["singleton", 0], ["loop", [gen_tensor(rng)], 0], ["build", 1], ["build", 0]]
    else:
        cbs.append([result_kind(rng), [["arg", 0]]])
        ops = [["seqmap", ["S", gen_tensor(rng)], [], 0], ["build", 0], ["seqmap", ["S", gen_tensor(rng)], [gen_tensor(rng)], 0], ["build", 1]]
    return {"mod": rng.choice(MODS), "cbs": cbs, "ops": ops, "wellformed": True, "run": False, "ident": rng.random() < 0.5}


def gen_malformed(rng):
    """Malformed callbacks, untyped / ill-kinded operands, bodies that raise, counts the node class rejects."""
    kind = rng.choice(KINDS)
    cbs = []
    op = gen_constructor(rng, kind, rng.randint(0, 3), cbs)
    what = rng.choice(["notcallable", "nonit", "nonvar", "nonvar", "raise", "untyped", "illkinded", "index", "empty", "extra"])
    which = rng.randrange(len(cbs))
    beh = cbs[which]
    if what == "notcallable":
        cbs[which] = ["notcallable"]
    elif what == "nonit":
        cbs[which] = ["nonit"]
    elif what == "raise":
        cbs[which] = ["raise", rng.randint(0, 3)]
    elif what == "nonvar":
        el = list(beh[1])
        el.insert(rng.randint(0, len(el)), ["nonvar"])
        cbs[which] = [rng.choice(["list", "tuple", "gen", "iter"]), el]
    elif what == "index":
        el = list(beh[1])
        el.insert(rng.randint(0, len(el)), ["arg", 9])
        cbs[which] = [rng.choice(["list", "gen"]), el]
    elif what == "empty":
        cbs[which] = [beh[0], []]
    elif what == "extra":
        cbs[which] = [beh[0], list(beh[1]) + [["outer", gen_tensor(rng, allow_unknown_rank=False)]]]
    elif what == "untyped":
        if kind == "loop" and op[1]:
            op[1][rng.randrange(len(op[1]))] = None
        elif kind == "scan" and op[1]:
            op[1][rng.randrange(len(op[1]))] = None
        elif kind == "seqmap":
            if op[2] and rng.random() < 0.6:
                op[2][rng.randrange(len(op[2]))] = None
            else:
                op[1] = None
    else:  # ill-kinded operands: sequences / optionals where tensors are required and vice versa, odd splits
        if kind == "scan":
            r = rng.random()
            if r < 0.4 and op[1]:
                op[1][rng.randrange(len(op[1]))] = ["S", gen_tensor(rng)]
            elif r < 0.7:
                op[2] = rng.choice([0, len(op[1]) + 1, -1, len(op[1])])
            else:
                op[3] = [rng.randint(-4, 4) for _ in range(rng.randint(0, op[2] + 1))]
        elif kind == "seqmap":
            r = rng.random()
            if r < 0.4:
                op[1] = gen_tensor(rng)
            elif r < 0.7:
                op[1] = ["O", gen_tensor(rng)]
            else:
                op[2] = op[2] + [["O", gen_tensor(rng)]]
        elif kind == "loop":
            op[1] = op[1] + [gen_any_type(rng)]
    return {"mod": rng.choice(MODS), "cbs": cbs, "ops": [op], "wellformed": False, "run": False, "ident": False, "what": what}


def corpus():
    f32 = lambda *s: T("float32", list(s))  # noqa: E731
    out = []
    # F13a: state float32[3], scan input float32[5,3]
    out.append({"mod": "v17", "cbs": [["list", [["arg", 0], ["arg", 1]]]], "ops": [["scan", [f32(3), f32(5, 3)], 1, None, None, 0]],
                "wellformed": True, "run": False, "ident": False})
    out.append({"mod": "v21", "cbs": [["list", [["arg", 0], ["arg", 1]]]],
                "ops": [["scan", [f32(3), f32(SEQ_LEN, 3)], 1, None, None, 0], ["build", 0]],
                "wellformed": True, "run": True, "ident": True})
    # scan axes: no state, scanned along the last axis
    out.append({"mod": "v19", "cbs": [["list", [["arg", 0]]]], "ops": [["scan", [f32(2, SEQ_LEN)], 1, [-1], None, 0], ["build", 0]],
                "wellformed": True, "run": True, "ident": True})
    # F13b: tensor-typed additional input
    out.append({"mod": "v17", "cbs": [["list", [["arg", 0], ["arg", 1]]]], "ops": [["seqmap", ["S", f32(2)], [f32(3)], 0], ["build", 0]],
                "wellformed": True, "run": True, "ident": True})
    out.append({"mod": "v20", "cbs": [["list", [["arg", 1]]]], "ops": [["seqmap", ["S", f32(2)], [f32(3)], 0]],
                "wellformed": True, "run": False, "ident": False})
    # F19: generator results
    out.append({"mod": "v17", "cbs": [["gen", [["outer", f32(2)]]], ["gen", [["outer", f32(2)]]]], "ops": [["if", 0, 1], ["build", 0]],
                "wellformed": True, "run": False, "ident": False})
    out.append({"mod": "v19", "cbs": [["gen", [["arg", 1], ["arg", 2]]]], "ops": [["loop", [f32(2)], 0], ["build", 0], ["build", 0]],
                "wellformed": True, "run": False, "ident": False})
    out.append({"mod": "v21", "cbs": [["iter", [["arg", 0]]]], "ops": [["seqmap", ["S", f32(2)], [], 0]],
                "wellformed": True, "run": False, "ident": False})
    # a Loop whose carried value does not keep its type over an iteration (another extent / another rank): one callback call all the same
    for mod in ("v17", "v19", "v21"):
        out.append({"mod": mod, "cbs": [["list", [["arg", 1], ["outer", f32(5)]]]], "ops": [["loop", [f32(2)], 0], ["build", 0]],
                    "wellformed": True, "run": False, "ident": False})
        out.append({"mod": mod, "cbs": [["list", [["arg", 1], ["outer", f32(2, 2)], ["arg", 3]]]], "ops": [["loop", [f32(2), f32(3)], 0]],
                    "wellformed": True, "run": False, "ident": False})
    # the same function as both branches, and shared by two constructors
    out.append({"mod": "v18", "cbs": [["list", [["outer", f32()]]]], "ops": [["if", 0, 0], ["build", 0], ["if", 0, 0], ["build", 1], ["singleton", 0]],
                "wellformed": True, "run": False, "ident": False})
    # loop with every kind of carried value, run
    out.append({"mod": "v17", "cbs": [["tuple", [["arg", 1], ["arg", 2], ["arg", 3], ["arg", 0], ["arg", 1], ["arg", 2], ["arg", 3]]]],
                "ops": [["loop", [T("int32", [2, None]), T("float64", None)], 0], ["build", 0], ["singleton", 0], ["build", 0]],
                "wellformed": True, "run": True, "ident": True})
    return out


def gen_sub_case(rng):
    """A direct call of spox._graph.subgraph(types, fun)."""
    n = rng.randint(0, 3)
    types = [gen_any_type(rng) for _ in range(n)]
    if rng.random() < 0.2:
        types.insert(rng.randint(0, n), "bad")
    r = rng.random()
    if r < 0.1:
        cb = ["notcallable"]
    elif r < 0.2:
        cb = ["nonit"]
    elif r < 0.28:
        cb = ["raise", rng.randint(0, 2)]
    else:
        el = []
        for _ in range(rng.randint(0, 4)):
            q = rng.random()
            if q < 0.55 and n:
                el.append(["arg", rng.randrange(n) if rng.random() < 0.93 else n + 2])
            elif q < 0.85:
                el.append(["outer", gen_any_type(rng)])
            else:
                el.append(["nonvar"])
        cb = [rng.choice(["list", "tuple", "gen", "iter"]), el]
        if cb[0] == "iter":  # iter([...]) evaluates eagerly: keep its argument indices in range
            cb[1] = [e for e in el if e[0] != "arg" or e[1] < n]
    return {"types": types, "cb": cb}


def run_sub_case(impl: Impl, sc):
    st = {"calls": [], "op": impl.mod("v17"), "ident": False, "outer": lambda d: impl.argument(impl.mk_type(d))}
    f = impl.make_cb(0, sc["cb"], st)
    types = [object() if t == "bad" else impl.mk_type(t) for t in sc["types"]]
    try:
        g = impl.subgraph(types, f)
        a = [impl.desc_of(v.type) for v in g.requested_arguments]
        r = [impl.desc_of(v.type) for v in g.requested_results.values()]
        shown = "graph{%d%s->%s}" % (0 if g._constructor is f else -1, show_tys(a), show_tys(r))
    except Exception as e:  # noqa: BLE001
        shown = "raise %s" % ("User%d" % e.n if isinstance(e, _User) else type(e).__name__)
    calls = " ".join("%d%s" % (cid, show_tys([impl.desc_of(a.type) for a in args])) for cid, args in st["calls"])
    return "%s calls=%s" % (shown, calls)


# ------------------------------------------------------------------------------------------------ nested control flow
# Implementation-only oracle (the model has no nesting): callbacks whose bodies call further constructors.


def gen_tree(rng, depth):
    kind = rng.choice(KINDS)
    ncb = 2 if kind == "if" else 1
    return {"kind": kind, "inner": [[gen_tree(rng, depth - 1) for _ in range(0 if depth == 0 else rng.randint(0, 2))]
                                    for _ in range(ncb)]}


def tree_size(t):
    return 1 + sum(tree_size(c) for cb in t["inner"] for c in cb)


def tree_depth(t):
    return 1 + max([tree_depth(c) for cb in t["inner"] for c in cb] or [0])


def run_nested(impl: Impl, tree, mod_name, builds):
    """Returns a list of (key, what, detail)."""
    np = impl.np
    op = impl.mod(mod_name)
    f32 = impl.Tensor(np.float32, (2,))
    x0 = impl.argument(f32)
    cond = impl.argument(impl.Tensor(np.bool_, ()))
    trips = impl.argument(impl.Tensor(np.int64, ()))
    scanned = impl.argument(impl.Tensor(np.float32, (SEQ_LEN, 2)))
    counts, bad, ids = {}, [], [0]

    def register(kind, spec):
        cid = ids[0]
        ids[0] += 1
        counts[cid] = 0
        return cid

    def called(cid, kind, args, spec):
        counts[cid] += 1
        got = [impl.desc_of(a.type) for a in args]
        if spec is not None and not args_match(spec, got):
            bad.append(("C19/scan/state-scan-split" if kind == "scan" else "C19/nested/%s/arg-types" % kind, "a nested callback received argument types that differ from the ONNX prescription",
                        {"prescribed": [str(t) for t in spec], "received": [impl.show_t(g) for g in got]}))

    def chain(trees, x):
        for t in trees:
            x = emit(t, x)
        return x

    def emit(t, x):
        k = t["kind"]
        dx = impl.desc_of(x.type)
        if k == "if":
            c_else, c_then = register(k, []), register(k, [])

            def else_():
                called(c_else, k, (), [])
                return [chain(t["inner"][0], x)]

            def then_():
                called(c_then, k, (), [])
                return [chain(t["inner"][1], op.add(x, x))]

            return op.if_(cond, else_branch=else_, then_branch=then_)[0]
        if k == "loop":
            cid = register(k, None)
            spec = spec_args(["loop", [dx], 0])[0]

            def body(i, c, a):
                called(cid, k, (i, c, a), spec)
                return [c, chain(t["inner"][0], a)]

            return op.loop(trips, None, [x], body=body)[0]
        if k == "scan":
            cid = register(k, None)
            sp = spec_args(["scan", [dx, T("float32", [SEQ_LEN, 2])], 1, None, None, 0])
            spec = sp[0] if sp else None

            def body(st, el):
                called(cid, k, (st, el), spec)
                return (v for v in [chain(t["inner"][0], op.add(st, el))])

            return op.scan([x, scanned], body=body, num_scan_inputs=1)[0]
        cid = register(k, None)
        sp = spec_args(["seqmap", ["S", dx], [], 0])
        spec = sp[0] if sp else None

        def body(e):
            called(cid, k, (e,), spec)
            return (chain(t["inner"][0], e),)

        out = op.sequence_map(op.sequence_construct([x, x]), body=body)[0]
        return op.reshape(op.sequence_at(out, op.const(0)), op.const(np.array([2], dtype=np.int64)))

    try:
        with warnings.catch_warnings():
            warnings.simplefilter("ignore")
            y = emit(tree, x0)
            if [c for c in counts.values() if c != 1]:
                bad.append(("C19/nested/callback-count", "nested callbacks were not invoked exactly once each during construction",
                            {"counts": dict(counts)}))
            y = op.reshape(y, op.const(np.array([2], dtype=np.int64)))
            for b in range(builds):
                model = impl.spox.build({"x": x0, "cond": cond, "trips": trips, "scanned": scanned}, {"y": y})
                if [c for c in counts.values() if c != 1]:
                    bad.append(("C19/nested/called-again-on-build", "a nested callback was invoked again by spox.build",
                                {"counts": dict(counts), "build": b + 1}))
                    break
    except Exception as e:  # noqa: BLE001
        return bad, "%s: %s" % (type(e).__name__, str(e)[:300])
    if builds:
        try:  # onnxruntime cannot load every nesting (SequenceMap is expanded as a function): counted, not judged
            sess = impl.ort.InferenceSession(model.SerializeToString(), providers=["CPUExecutionProvider"])
            (val,) = sess.run(None, {"x": np.ones(2, np.float32), "cond": np.array(True), "trips": np.array(TRIPS),
                                     "scanned": np.ones((SEQ_LEN, 2), np.float32)})
            if val.shape != (2,) or val.dtype != np.float32:
                bad.append(("C19/nested/runtime-value", "nested model produced a value of unexpected type", {"shape": list(val.shape)}))
        except Exception as e:  # noqa: BLE001
            return bad, "onnxruntime: %s" % type(e).__name__
    return bad, None


# ------------------------------------------------------------------------------------------------ shrinking


def _drop_arg(elems, q):
    out = []
    for e in elems:
        if e[0] == "arg":
            if e[1] == q:
                continue
            out.append(["arg", e[1] - 1] if e[1] > q else e)
        else:
            out.append(e)
    return out


def candidates(case):
    ops = case["ops"]
    # drop trailing builds / other ops
    for i in range(len(ops) - 1, -1, -1):
        if ops[i][0] in ("build", "singleton"):
            c = copy.deepcopy(case)
            del c["ops"][i]
            yield c
    ctor_idx = [i for i, o in enumerate(ops) if o[0] in KINDS]
    if len(ctor_idx) > 1:
        for i in ctor_idx:
            c = copy.deepcopy(case)
            c["ops"] = [o for j, o in enumerate(ops) if j == i or (o[0] not in KINDS and False)]
            yield c
    for i in ctor_idx:
        o = ops[i]
        k = o[0]
        lists = {"loop": [(1, 2)], "scan": [(1, 0)], "seqmap": [(2, 1)]}.get(k, [])
        cb_pos = {"loop": 2, "scan": 5, "seqmap": 3}.get(k)
        for li, offset in lists:
            for p in range(len(o[li])):
                c = copy.deepcopy(case)
                oo = c["ops"][i]
                del oo[li][p]
                beh = c["cbs"][oo[cb_pos]]
                if yielded(beh) is not None:
                    beh[1] = _drop_arg(beh[1], p + offset)
                if k == "scan":
                    n = len(o[1]) - o[2]
                    if p >= n:
                        oo[2] -= 1
                        for ax in (3, 4):
                            if oo[ax] is not None and p - n < len(oo[ax]):
                                del oo[ax][p - n]
                yield c
            for p in range(len(o[li])):
                t = o[li][p]
                if t is not None and t[0] == "T" and t[2]:
                    c = copy.deepcopy(case)
                    c["ops"][i][li][p][2] = [2 if not isinstance(d, int) else d for d in t[2]]
                    if c["ops"][i][li][p][2] != t[2]:
                        yield c
                    if t[1] != "float32":
                        c = copy.deepcopy(case)
                        c["ops"][i][li][p][1] = "float32"
                        yield c
        if k == "scan" and o[3] is not None and all(a == 0 for a in o[3]):
            c = copy.deepcopy(case)
            c["ops"][i][3] = None
            yield c
        if k == "scan" and o[4] is not None:
            c = copy.deepcopy(case)
            c["ops"][i][4] = None
            yield c
        # fewer results
        for cid in op_cb_ids(o):
            beh = case["cbs"][cid]
            if yielded(beh) and len(beh[1]) > 1:
                for p in range(len(beh[1])):
                    c = copy.deepcopy(case)
                    del c["cbs"][cid][1][p]
                    yield c


def shrink(impl, case, key, budget=150):
    def bad(c):
        try:
            with warnings.catch_warnings():
                warnings.simplefilter("ignore")
                _, info = impl.run_session(c, do_run=False)
            return any(b[0] == key for b in oracle(impl, c, info))
        except Exception:  # noqa: BLE001
            return False

    changed = True
    while changed and budget > 0:
        changed = False
        for cand in candidates(case):
            budget -= 1
            if budget <= 0:
                break
            if bad(cand):
                case, changed = cand, True
                break
    return case


# ------------------------------------------------------------------------------------------------ the check


def describe(case):
    return {"module": "spox.opset.ai.onnx." + case["mod"], "callbacks": case["cbs"], "ops": case["ops"],
            "how_to_read": "ops: [if, else_cb, then_cb] | [loop, carried types, body_cb] | [scan, operands, num_scan_inputs, "
                           "scan_input_axes, scan_input_directions, body_cb] | [seqmap, input_sequence, additional_inputs, body_cb] | "
                           "[build, i] | [singleton, i]; type = [T, dtype, shape|null] | [S, t] | [O, t]; callback = "
                           "[list|tuple|gen|iter, results] | [nonit] | [raise, n] | [notcallable]; result = [arg, i] | [outer, type] | [nonvar]"}


def run(run: Run) -> int:
    ok = run.check_theorems(PROPS, CONE, thorough_coqchk=False)
    quick = run.tier == "quick"
    if ok and not quick:
        # common.check_theorems' own coqchk step asks for library Scratch.C19 but compiles the scratch copy as bare C19
        # (reported to the lead); check the .vo of the locked build instead
        import time as _time

        t0 = _time.time()
        rc, out = sh(f"timeout 900 coqchk -silent -o -R {COQ} Spox Spox.props.C19", cwd=str(COQ), timeout=930)
        run.cov["coqchk"] = {"rc": rc, "tail": out[-600:], "wall_s": round(_time.time() - t0, 1)}
        if rc != 0:
            run.discharged = 0
            run.fail("proof", "coqchk", "coqchk rejected the compiled property file", out[-2000:])
    rng = run.rng
    impl = Impl()
    cases = corpus()
    # systematic grid: every constructor x every operand count 0..3 x 0..3 builds, modules in rotation
    g = 0
    for kind in KINDS:
        for count in range(4):
            for builds in range(4):
                cases.append(gen_wellformed(rng, kind, count, builds, MODS[g % len(MODS)], runnable=(builds % 2 == 1)))
                g += 1
    n_total = 700 if quick else 8000
    while len(cases) < n_total:
        r = rng.random()
        if r < 0.45:
            cases.append(gen_wellformed(rng, runnable=rng.random() < 0.5))
        elif r < 0.55:
            cases.append(gen_shared(rng))
        else:
            cases.append(gen_malformed(rng))
    hist = {"constructor": {}, "module": {}, "operands": {}, "builds": {}, "returns": {}, "exception": {}, "kinds_of_type": {},
            "wellformed": 0, "run_in_onnxruntime": 0, "run_errors": 0, "node_rejected": 0, "build_errors": 0, "shared_callbacks": 0}
    impl_obs, samples, distinct = [], [], set()
    rejected_sessions = set()
    found = {}
    n_run_values = 0
    for idx, case in enumerate(cases):
        with warnings.catch_warnings():
            warnings.simplefilter("ignore")
            obs, info = impl.run_session(case, do_run=case.get("run", False))
            bad = oracle(impl, case, info)
        impl_obs.append(obs)
        ctors = [o for o in case["ops"] if o[0] in KINDS]
        for o in ctors:
            hist["constructor"][o[0]] = hist["constructor"].get(o[0], 0) + 1
            nops = 0 if o[0] == "if" else 1 + len(o[2]) if o[0] == "seqmap" else len(o[1])
            hist["operands"][nops] = hist["operands"].get(nops, 0) + 1
            for cid in op_cb_ids(o):
                b = case["cbs"][cid][0]
                hist["returns"][b] = hist["returns"].get(b, 0) + 1
        hist["module"][case["mod"]] = hist["module"].get(case["mod"], 0) + 1
        nb = sum(1 for o in case["ops"] if o[0] in ("build", "singleton"))
        hist["builds"][nb] = hist["builds"].get(nb, 0) + 1
        hist["wellformed"] += bool(case.get("wellformed"))
        hist["shared_callbacks"] += len(ctors) > 1
        js = json.dumps(case["ops"])
        for tag, name in (('"S"', "sequence"), ('"O"', "optional"), ("null]", "unknown_rank_or_dim"), ('"N"', "symbolic_dim")):
            if tag in js:
                hist["kinds_of_type"][name] = hist["kinds_of_type"].get(name, 0) + 1
        for f in info["facts"]:
            if f["kind"] in KINDS:
                e = f["exc_class"] or "none"
                hist["exception"][e] = hist["exception"].get(e, 0) + 1
                if f["exc"] is not None and f["request"] is not None:
                    hist["node_rejected"] += 1
                    rejected_sessions.add(idx)
                    if case.get("wellformed") and not bad:
                        run.fail("corr", "C19/wellformed-node-rejected/%s" % f["kind"],
                                 "a constructor call generated as well-formed was rejected by the node class",
                                 {"session": describe(case), "exception": "%s: %s" % (f["exc_class"], str(f["exc"])[:400])})
            elif f.get("error"):
                hist["build_errors"] += 1
                if not bad:
                    run.fail("corr", "C19/build-failed/%s" % f["target_kind"], "build / singleton model of an accepted node failed",
                             {"session": describe(case), "error": f["error"]})
        if info["run"] is not None:
            hist["run_in_onnxruntime"] += 1
            if "error" in info["run"]:
                hist["run_errors"] += 1
                if not bad:
                    run.fail("corr", "C19/onnxruntime-failed/%s" % ctors[0][0], "a runnable session could not be executed in onnxruntime",
                             {"session": describe(case), "error": info["run"]["error"]})
            else:
                n_run_values += len(info["run"]["outputs"])
        if len(case["ops"]) >= 2 or any(len(o[1]) > 0 for o in ctors if o[0] in ("loop", "scan")) or any(o[2] for o in ctors if o[0] == "seqmap"):
            distinct.add(json.dumps([case["mod"], case["cbs"], case["ops"]]))
        for key, what, detail in bad:
            if key not in found:
                found[key] = (idx, what, detail)
        if idx in (0, 3, 9, 12, 40):
            samples.append({"session": {"module": case["mod"], "callbacks": case["cbs"], "ops": case["ops"]}, "impl": obs})
    for key, (idx, what, detail) in sorted(found.items()):
        small = shrink(impl, cases[idx], key)
        with warnings.catch_warnings():
            warnings.simplefilter("ignore")
            obs, info = impl.run_session(small, do_run=False)
            det = [b for b in oracle(impl, small, info) if b[0] == key]
        run.fail("impl", key, what, {"session": describe(small), "case": small, "violation": det[0][2] if det else detail,
                                     "implementation": obs, "original_index": idx})
    # correspondence with the model (repaired and unchanged variants)
    model = model_eval(run, cases, "c19")
    agree_fixed = [i for i, (o, m) in enumerate(zip(impl_obs, model)) if o == m[0]]
    agree_orig = [i for i, (o, m) in enumerate(zip(impl_obs, model)) if o == m[1]]
    differ = [i for i, m in enumerate(model) if m[0] != m[1]]
    mism = [i for i in range(len(cases)) if impl_obs[i] != model[i][0]]
    for i in mism[:4]:
        run.fail("corr", "C19/model-vs-impl/%s" % "+".join(o[0] for o in cases[i]["ops"])[:60],
                 "model (repaired code) and implementation disagree on a session",
                 {"session": describe(cases[i]), "case": cases[i], "impl": impl_obs[i], "model": model[i][0],
                  "model_of_unchanged_tree": model[i][1], "index": i})
    for s, i in zip(samples, (0, 3, 9, 12, 40)):
        s["model"] = model[i][0]
    # direct calls of spox._graph.subgraph
    n_sub = 150 if quick else 1500
    subs = [gen_sub_case(rng) for _ in range(n_sub)]
    with warnings.catch_warnings():
        warnings.simplefilter("ignore")
        sub_impl = [run_sub_case(impl, sc) for sc in subs]
    sub_model = [parse_coq_string(r) for r in run.coq_eval(
        "c19sub", HEADER, [sub_expr(sc, m) for sc in subs for m in (True, False)], shard=150)]
    sub_fixed, sub_orig = sub_model[0::2], sub_model[1::2]
    sub_mism = [i for i in range(n_sub) if sub_impl[i] != sub_fixed[i]]
    for i in sub_mism:
        sc = subs[i]
        oneshot_lost = sc["cb"][0] in ("gen", "iter") and sub_impl[i] == sub_orig[i] and "->" in sub_impl[i] and "-><>" in sub_impl[i]
        if oneshot_lost:
            run.fail("impl", "C19/one-shot-iterable-results-lost",
                     "a callback returning a one-shot iterable loses all its results",
                     {"subgraph_call": sc, "implementation": sub_impl[i], "prescribed": sub_fixed[i]})
        else:
            run.fail("corr", "C19/subgraph-model-vs-impl", "model and implementation disagree on a direct subgraph() call",
                     {"subgraph_call": sc, "impl": sub_impl[i], "model": sub_fixed[i], "model_of_unchanged_tree": sub_orig[i]})
            break
    # nested control flow (implementation-only oracle)
    n_nested = 60 if quick else 600
    nested_hist = {"size": {}, "depth": {}, "errors": 0}
    for j in range(n_nested):
        tree = gen_tree(rng, rng.randint(1, 3))
        mod_name, nb = rng.choice(MODS), rng.randint(0, 3)
        nbad, err = run_nested(impl, tree, mod_name, nb)
        nested_hist["size"][tree_size(tree)] = nested_hist["size"].get(tree_size(tree), 0) + 1
        nested_hist["depth"][tree_depth(tree)] = nested_hist["depth"].get(tree_depth(tree), 0) + 1
        for key, what, detail in nbad:
            run.fail("impl", key, what, {"nested": {"tree": tree, "module": mod_name, "builds": nb}, "violation": detail})
        if err and err.startswith("onnxruntime:"):
            nested_hist["onnxruntime_could_not_run"] = nested_hist.get("onnxruntime_could_not_run", 0) + 1
        elif err:
            nested_hist["errors"] += 1
            if not nbad and not found:
                run.fail("corr", "C19/nested/session-failed", "a nested session could not be constructed / built / run",
                         {"nested": {"tree": tree, "module": mod_name, "builds": nb}, "error": err})
    hist["nested"] = nested_hist
    cov = {
        "evaluations": len(cases) + n_sub + n_nested,
        "nested_sessions_oracle_only": n_nested,
        "distinct_nontrivial": len(distinct),
        "rule": "sessions = constructor calls (if_/loop/scan/sequence_map, modules v17..v21 incl. the re-exporting v18/v20) with 0-3 carried / "
                "state / scanned / additional operands of random element type, rank 0-3, unknown and symbolic dims, unknown rank, sequences "
                "and optionals; callbacks returning list / tuple / generator / iterator, malformed ones, raising ones; followed by 0-3 "
                "builds / inference re-runs; callbacks shared between constructors; distinct by (module, callbacks, ops), non-trivial = at "
                "least one operand or one build",
        "traces_validated_against_impl": len(agree_fixed) + (n_sub - len(sub_mism)),
        "disagreements_checked": len(mism) + len(sub_mism),
        "sessions": len(cases),
        "sessions_agreeing_with_model_of_repaired_code": len(agree_fixed),
        "sessions_agreeing_with_model_of_unchanged_tree": len(agree_orig),
        "sessions_where_the_two_models_differ": len(differ),
        "sessions_without_node_rejection": len(cases) - len(rejected_sessions),
        "of_those_agreeing_with_model_of_repaired_code": len([i for i in agree_fixed if i not in rejected_sessions]),
        "of_those_agreeing_with_model_of_unchanged_tree": len([i for i in agree_orig if i not in rejected_sessions]),
        "direct_subgraph_calls": n_sub,
        "direct_subgraph_calls_agreeing": n_sub - len(sub_mism),
        "runtime_values_compared_with_argument_types": n_run_values,
        "oracle_violations_by_key": {k: v[0] for k, v in found.items()},
        "input_distribution": hist,
        "samples": samples[:4],
    }
    return run.finish(cov, [
        "the instrumented callbacks of harness/c19.py (Impl.make_cb) behave as the behaviour term handed to the model says "
        "(list/tuple = re-iterable, gen/iter = one-shot, element i of the result = argument i / an outer Var / a non-Var)",
        "a Var's declared type is read through Var.type / Tensor.dtype / Tensor.shape / Sequence.elem_type",
        "ONNX prescription for Loop's first two body inputs: int64 / bool tensor holding one element (rank 0 or shape [1]); spox "
        "declares shape [1] and onnxruntime feeds what the body declares (checked per run)",
        "node-level acceptance of a request (ONNX type inference of If/Loop/Scan/SequenceMap) is outside the model; sessions generated "
        "as well-formed must be accepted",
    ])


def replay(run: Run, case) -> int:
    impl = Impl()
    d = case["detail"]
    if "nested" in d:
        nd = d["nested"]
        nbad, err = run_nested(impl, nd["tree"], nd["module"], nd["builds"])
        print("nested session:", json.dumps(nd))
        print("oracle violations:", nbad, "error:", err)
        bad = bool(nbad) or bool(err)
    elif "subgraph_call" in d:
        sc = d["subgraph_call"]
        got = run_sub_case(impl, sc)
        m = [parse_coq_string(r) for r in run.coq_eval("replay", HEADER, [sub_expr(sc, True), sub_expr(sc, False)])]
        print("subgraph call:", sc)
        print("impl :", got)
        print("model:", m[0], "| model of unchanged tree:", m[1])
        bad = got != m[0]
    else:
        c = d["case"]
        with warnings.catch_warnings():
            warnings.simplefilter("ignore")
            obs, info = impl.run_session(c, do_run=c.get("run", False))
            viol = oracle(impl, c, info)
        m = model_eval(run, [c], "replay")[0]
        print("session:", json.dumps(describe(c)))
        print("impl :", obs)
        print("model:", m[0])
        print("model of unchanged tree:", m[1])
        print("oracle violations:", [(k, w, dd) for k, w, dd in viol])
        bad = bool(viol) or obs != m[0]
    if bad:
        print(f"VIOLATION property=C19 replay={run.pid}")
    return 1 if bad else 0
