"""Shared machinery of the spox verification harness.

A check run (``Run``) does, for one property:
  1. build the Coq development (full .vo build, ``make`` under ``timeout``) and re-check the property's theorem file,
     auditing ``Print Assumptions``;
  2. let the property module generate inputs, run them through the real implementation (imported from /repo/src)
     and through the executable Gallina model (``Eval vm_compute`` inside coqc), and compare;
  3. classify failures (implementation violates the property / model and implementation disagree / proof broken),
     consult the committed known-findings file, print KNOWN-FINDING / VIOLATION lines, write replay + evidence.
"""

from __future__ import annotations

import fcntl
import json
import os
import random
import re
import shutil
import subprocess
import sys
import tempfile
import time
from pathlib import Path

VERIF = Path(os.environ.get("VERIF_ROOT") or Path(__file__).resolve().parents[1])
REPO = Path(os.environ.get("VERIF_REPO", "/repo"))
COQ = VERIF / "coq"
# evidence and replays of a run against anything but /repo (tools/seedtest.py: a scratch worktree carrying a seeded change)
# go to a scratch output directory, so that evidence/ only ever describes /repo itself
_OUT = Path(os.environ["VERIF_OUT"]) if os.environ.get("VERIF_OUT") else VERIF
EVID = _OUT / "evidence"
REPLAYS = _OUT / "replays"
SCRATCH_ROOT = VERIF / ".scratch"
KNOWN = Path(os.environ.get("VERIF_KNOWN", str(VERIF / "known_findings.json")))
PY = "/venv/bin/python"
NPROC = os.cpu_count() or 4

ALLOWED_AXIOMS: set[str] = set()  # the development is axiom-free; anything printed by Print Assumptions is an alarm

FORBIDDEN = re.compile(
    r"\b(Admitted|admit|Axiom|Axioms|Parameter|Parameters|Conjecture|Admit Obligations|bypass_check|Unset Guard Checking|"
    r"Unset Positivity Checking|Unset Universe Checking|type-in-type|impredicative-set|native_compute)\b"
)


def sh(cmd, timeout=600, cwd=None, env=None, input=None):
    """Run a command; return (rc, stdout+stderr)."""
    try:
        p = subprocess.run(
            cmd, shell=isinstance(cmd, str), cwd=cwd, env=env, input=input, timeout=timeout,
            stdout=subprocess.PIPE, stderr=subprocess.STDOUT, text=True,
        )
        return p.returncode, p.stdout
    except subprocess.TimeoutExpired as e:
        out = e.stdout if isinstance(e.stdout, str) else (e.stdout or b"").decode("utf8", "replace")
        return 124, out + "\n[timeout]"


# ------------------------------------------------------------------------------------------------ Gallina printing


def coq_str(s: str) -> str:
    """Python str -> Gallina string literal (bytes of the UTF-8 encoding; Coq strings are byte strings)."""
    out = []
    for ch in s:
        if ch == '"':
            out.append('""')
        else:
            out.append(ch)
    return '"' + "".join(out) + '"'


def coq_list(items, sep="; "):
    return "[" + sep.join(items) + "]"


def coq_opt(x):
    return "None" if x is None else f"(Some {x})"


def coq_bool(b):
    return "true" if b else "false"


def coq_Z(n: int) -> str:
    return f"({n})%Z"


def coq_N(n: int) -> str:
    return f"{n}%N"


def parse_coq_string(term: str) -> str:
    """Inverse of coq_str for a printed string literal."""
    term = term.strip()
    if term.endswith("%string"):
        term = term[: -len("%string")].strip()
    assert term.startswith('"') and term.endswith('"'), term[:200]
    return term[1:-1].replace('""', '"')


def split_top(s: str, sep: str = ";"):
    """Split a printed Coq list body at top level (respects brackets, parens and string literals)."""
    out, depth, cur, instr, i = [], 0, [], False, 0
    while i < len(s):
        c = s[i]
        if instr:
            cur.append(c)
            if c == '"':
                if i + 1 < len(s) and s[i + 1] == '"':
                    cur.append('"')
                    i += 1
                else:
                    instr = False
        elif c == '"':
            instr = True
            cur.append(c)
        elif c in "([":
            depth += 1
            cur.append(c)
        elif c in ")]":
            depth -= 1
            cur.append(c)
        elif c == sep and depth == 0:
            out.append("".join(cur).strip())
            cur = []
        else:
            cur.append(c)
        i += 1
    last = "".join(cur).strip()
    if last:
        out.append(last)
    return out


def parse_coq_list(term: str):
    term = term.strip()
    m = re.match(r"^\[(.*)\](%\w+)?$", term, re.S)
    assert m, term[:200]
    return split_top(m.group(1))


EVAL_RE = re.compile(r"^     = (.*?)\n     : ", re.S | re.M)


def parse_evals(out: str):
    """All results printed by ``Eval ... in`` commands, in order (needs a very wide Printing Width)."""
    return [re.sub(r"\s*\n\s*", " ", m.group(1)).strip() for m in EVAL_RE.finditer(out)]


# ------------------------------------------------------------------------------------------------ the run context


class Failure:
    def __init__(self, kind, key, what, detail):
        self.kind = kind  # 'impl' (implementation violates the property statement on a concrete input)
        #                   'corr' (model and implementation disagree on a concrete input)
        #                   'proof' (a theorem / table obligation no longer checks)
        self.key = key
        self.what = what
        self.detail = detail


class Run:
    def __init__(self, pid: str, tier: str, seed: int):
        self.pid, self.tier, self.seed = pid, tier, seed
        self.rng = random.Random(f"{pid}/{seed}")
        self.t0 = time.time()
        self.failures: list[Failure] = []
        self.cov: dict = {}
        self.assumptions: list[str] = []
        self.trusted: list[str] = [
            "Coq 8.16.1 kernel and its vm_compute VM (no native_compute, no -type-in-type, no disabled checks)",
            "hand-written Gallina model files named in coverage.model_files (tied to /repo only by the correspondence run)",
            "Python harness under /verif/harness (generators, reflectors, Gallina term printer, coqc output parser)",
        ]
        self.notes: list[str] = []
        self._scratch: Path | None = None
        self.obligations = 0
        self.discharged = 0
        self.checker_cmd = ""
        self.known = json.loads(KNOWN.read_text()) if KNOWN.exists() else {"findings": [], "fixed": []}
        for old in REPLAYS.glob(f"{pid}-{tier}-{seed}-*.json"):  # stale replays of an earlier run with the same parameters
            old.unlink()

    # -- scratch ---------------------------------------------------------------------------------
    def scratch(self) -> Path:
        if self._scratch is None:
            SCRATCH_ROOT.mkdir(exist_ok=True)
            self._scratch = Path(tempfile.mkdtemp(prefix=f"{self.pid}-", dir=SCRATCH_ROOT))
        return self._scratch

    def cleanup(self):
        if self._scratch is not None:
            shutil.rmtree(self._scratch, ignore_errors=True)
            self._scratch = None

    # -- Coq build and theorem audit --------------------------------------------------------------
    def coq_build(self, files=None, timeout=2400) -> bool:
        """Full .vo build of the development (incremental; serialised by a lock).

        coq/_CoqProject is regenerated from the fragments coq/project.d/*.txt (one per property group, files in
        dependency order).  ``make -k`` keeps going past a broken file so that one group's breakage does not hide
        another's result; success for this run = every file in ``files`` has an up-to-date .vo."""
        COQ.mkdir(exist_ok=True)
        with open(COQ / ".build.lock", "w") as lk:
            fcntl.flock(lk, fcntl.LOCK_EX)
            seen, lines = set(), ["-R . Spox"]
            for frag in sorted((COQ / "project.d").glob("*.txt")):
                for ln in frag.read_text().split():
                    if ln and ln not in seen and (COQ / ln).exists():
                        seen.add(ln)
                        lines.append(ln)
            new = "\n".join(lines) + "\n"
            cp = COQ / "_CoqProject"
            if not cp.exists() or cp.read_text() != new or not (COQ / "Makefile").exists():
                cp.write_text(new)
                rc, out = sh("coq_makefile -f _CoqProject -o Makefile", cwd=COQ, timeout=60)
                if rc != 0:
                    self.build_log, self.build_failed_files = out, ["_CoqProject"]
                    return False
            rc, out = sh(f"timeout {timeout} make -k -j{NPROC} 2>&1", cwd=COQ, timeout=timeout + 30)
        self.build_log = out
        stale = []
        for f in (files if files is not None else list(seen)):
            v, vo = COQ / f, COQ / (f[:-2] + ".vo")
            if not v.exists() or not vo.exists() or vo.stat().st_mtime < v.stat().st_mtime:
                stale.append(f)
        self.build_failed_files = stale
        return not stale

    def audit_sources(self, files):
        """No Admitted/Axiom/... anywhere in the development files used by this property."""
        bad = []
        for f in files:
            p = COQ / f
            if not p.exists():
                bad.append(f"{f}: missing")
                continue
            txt = re.sub(r"\(\*.*?\*\)", "", p.read_text(), flags=re.S)
            for i, line in enumerate(txt.splitlines(), 1):
                if FORBIDDEN.search(line):
                    bad.append(f"{f}:{i}: {line.strip()[:120]}")
        return bad

    def check_theorems(self, props_file: str, cone: list[str], thorough_coqchk=False) -> bool:
        """Build everything, then re-compile the property's theorem file from scratch and audit Print Assumptions.

        obligations = statements (Theorem/Lemma/Corollary/Example/Fact/Proposition) in the property file and its cone;
        discharged  = the same count if every file compiled and every Print Assumptions is closed."""
        files = cone + [props_file]
        self.cov["model_files"] = cone
        self.cov["theorem_file"] = props_file
        stmt_re = re.compile(r"^\s*(Theorem|Lemma|Corollary|Example|Fact|Proposition)\s+(\w+)", re.M)
        stmts = {}
        for f in files:
            p = COQ / f
            if p.exists():
                stmts[f] = [m.group(2) for m in stmt_re.finditer(p.read_text())]
        self.obligations = sum(len(v) for v in stmts.values())
        bad = self.audit_sources(files)
        ok = True
        if bad:
            ok = False
            self.fail("proof", "forbidden-construct", "forbidden construct in the development", bad[:20])
        built = self.coq_build(files)
        self.checker_cmd = (
            f"cd /verif/coq && coq_makefile -f _CoqProject -o Makefile && make -j{NPROC} && "
            f"coqc -R . Spox {props_file}  (Print Assumptions under every property theorem)"
        )
        if not built:
            ok = False
            broken = [f for f in self.build_failed_files if f in files] or self.build_failed_files
            self.fail("proof", "coq-build:" + ",".join(broken or ["?"]), "the Coq development no longer builds",
                      {"files": broken, "log_tail": self.build_log[-3000:]})
            self.discharged = 0
            self.cov["theorems"] = stmts.get(props_file, [])
            return False
        # re-check the property file on its own, capturing Print Assumptions
        sc = self.scratch()
        src = COQ / props_file
        dst = sc / Path(props_file).name
        shutil.copy(src, dst)
        rc, out = sh(f"timeout 600 coqc -R {COQ} Spox -o {sc / (dst.stem + '.vo')} {dst}", cwd=sc, timeout=630)
        thms = stmts.get(props_file, [])
        n_pa = len(re.findall(r"^\s*Print Assumptions\s+\w+", src.read_text(), re.M))
        closed = out.count("Closed under the global context")
        axioms = re.findall(r"^Axioms:\n((?:.+\n?)+)", out, re.M)
        self.cov["theorems"] = thms
        self.cov["print_assumptions"] = {"commands": n_pa, "closed": closed, "axioms_reported": [a.strip() for a in axioms]}
        if rc != 0:
            ok = False
            self.fail("proof", f"theorem-file:{props_file}", "the property theorem file no longer checks", out[-3000:])
        if n_pa < len([t for t in thms]) or closed != n_pa:
            ok = False
            self.fail("proof", f"assumptions:{props_file}", "Print Assumptions audit failed (axioms or missing audit)",
                      {"theorems": thms, "commands": n_pa, "closed": closed, "out": out[-2000:]})
        if thorough_coqchk and ok:
            t = time.time()
            lib = "Spox." + props_file[:-2].replace("/", ".")
            rc2, out2 = sh(f"timeout 1500 coqchk -silent -o -R {COQ} Spox {lib}", cwd=COQ, timeout=1530)
            ax = re.findall(r"^\* Axioms:\s*\n((?:\s+.+\n?)*)", out2, re.M)
            self.cov["coqchk"] = {"rc": rc2, "library": lib, "tail": out2[-800:], "wall_s": round(time.time() - t, 1)}
            if rc2 != 0:
                ok = False
                self.fail("proof", "coqchk", "coqchk rejected the compiled property file", out2[-2000:])
        self.discharged = self.obligations if ok else 0
        return ok

    # -- running the model ---------------------------------------------------------------------------
    def coq_eval(self, name: str, header: str, exprs: list[str], shard=250, timeout=900, per_file_prefix=None):
        """Evaluate each Gallina expression with vm_compute inside coqc; returns the printed terms (strings).

        ``header`` = Require/Import lines + helper definitions. Shards are compiled in parallel."""
        sc = self.scratch() / name
        sc.mkdir(parents=True, exist_ok=True)
        shards = [exprs[i : i + shard] for i in range(0, len(exprs), shard)] or [[]]
        files = []
        for k, sh_exprs in enumerate(shards):
            f = sc / f"{name}_{k}.v"
            body = [header, "Set Printing Width 100000000.", "Set Printing Depth 100000000."]
            body += [f"Eval vm_compute in ({e})." for e in sh_exprs]
            f.write_text("\n".join(body) + "\n")
            files.append(f)
        listing = "\n".join(str(f) for f in files)
        cmd = (
            f"xargs -P{NPROC} -I{{}} sh -c 'ulimit -s unlimited; timeout {timeout} coqc -R {COQ} Spox -R {sc} Cases {{}} "
            f"> {{}}.out 2>&1; echo $? > {{}}.rc'"
        )
        sh(cmd, input=listing, timeout=timeout * max(1, (len(files) + NPROC - 1) // NPROC) + 60)
        results = []
        for f, sh_exprs in zip(files, shards):
            out = Path(str(f) + ".out").read_text(errors="replace") if Path(str(f) + ".out").exists() else ""
            rc = Path(str(f) + ".rc").read_text().strip() if Path(str(f) + ".rc").exists() else "?"
            ev = parse_evals(out)
            if rc != "0" or len(ev) != len(sh_exprs):
                raise CoqEvalError(f"coqc failed on {f} (rc={rc}, {len(ev)}/{len(sh_exprs)} results):\n{out[-3000:]}")
            results += ev
        return results

    # -- failures, findings, verdict ---------------------------------------------------------------
    def fail(self, kind, key, what, detail=None):
        if any(f.key == key and f.kind == kind for f in self.failures):
            return
        self.failures.append(Failure(kind, key, what, detail))

    def is_known(self, key):
        for e in self.known.get("findings", []):
            if e.get("property") == self.pid and e.get("key") == key:
                return e
        return None

    def finish(self, coverage: dict, assumptions: list[str] | None = None) -> int:
        REPLAYS.mkdir(parents=True, exist_ok=True)
        EVID.mkdir(parents=True, exist_ok=True)
        n_viol = 0
        known_hits = []
        lines = []
        has_impl = any(f.kind == "impl" and not self.is_known(f.key) for f in self.failures)
        for idx, f in enumerate(self.failures):
            if f.kind == "impl":
                k = self.is_known(f.key)
                if k:
                    known_hits.append(f.key)
                    lines.append(f"KNOWN-FINDING: property={self.pid} {k.get('what', f.what)} [{f.key}]")
                    continue
            rp = REPLAYS / f"{self.pid}-{self.tier}-{self.seed}-{idx}.json"
            rp.write_text(json.dumps({
                "property": self.pid, "tier": self.tier, "seed": self.seed, "kind": f.kind, "key": f.key,
                "what": f.what, "detail": f.detail,
                "meaning": {
                    "impl": "concrete input on which the implementation violates the property statement",
                    "corr": "model and implementation disagree on this input; no input violating the property itself was found",
                    "proof": "this theorem / proof obligation / table check no longer checks; no failing input was found",
                }[f.kind],
            }, indent=1, default=str))
            n_viol += 1
            if f.kind == "impl":
                lines.append(f"VIOLATION property={self.pid} replay={rp}")
            else:
                # a broken proof or correspondence without a concrete failing input of the property itself
                if has_impl:
                    lines.append(f"NOTE property={self.pid} {f.kind} failure [{f.key}] recorded in {rp}")
                    n_viol -= 1
                else:
                    lines.append(f"VIOLATION property={self.pid} replay={rp} no-failing-input-found")
        cov = dict(self.cov)
        cov.update(coverage)
        cov.setdefault("obligations", self.obligations)
        cov.setdefault("discharged", self.discharged)
        cov.setdefault("checker_cmd", self.checker_cmd or "cd /verif/coq && make")
        cov.setdefault("trusted_base", self.trusted)
        cov.setdefault("evaluations", 0)
        cov.setdefault("distinct_nontrivial", 0)
        cov.setdefault("samples", [])
        cov["known_findings_reproduced"] = known_hits
        cov["failures"] = [{"kind": f.kind, "key": f.key, "what": f.what} for f in self.failures]
        if self.notes:
            cov["notes"] = self.notes
        ev = {
            "property_id": self.pid, "tier": self.tier, "seed": self.seed, "level": "proof",
            "coverage": cov, "assumptions": (assumptions or []) + self.assumptions,
            "wall_s": round(time.time() - self.t0, 2), "violations": n_viol,
        }
        (EVID / f"{self.pid}.json").write_text(json.dumps(ev, indent=1, default=str) + "\n")
        for l in lines:
            print(l)
        print(f"[{self.pid}] tier={self.tier} seed={self.seed} obligations={cov['obligations']} discharged={cov['discharged']} "
              f"evaluations={cov['evaluations']} traces={cov.get('traces_validated_against_impl', 0)} "
              f"known={len(known_hits)} violations={n_viol} wall={ev['wall_s']}s")
        self.cleanup()
        return 1 if n_viol else 0


class CoqEvalError(Exception):
    pass


def canon(obj) -> str:
    return json.dumps(obj, sort_keys=True, default=str)
