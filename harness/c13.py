"""C13 — types are canonical; compatibility and broadcasting are exact and sound.

Model: coq/Shape.v, coq/Types.v (theorems: coq/props/C13.v), bounded domain + digests: coq/TypesEnum.v.

What one run does
  1. theorems re-checked (Print Assumptions audit);
  2. TRANSLATOR: every spelling of an element type (numpy sctypes, type codes, dtype strings, Python types, ml_dtypes
     types, ...) is pushed through the real ``Tensor(...)`` constructor; the resulting table (spelling -> refusal |
     stored scalar type, emitted ONNX code) is written as a generated .v and ``spell_check canon table = true`` is
     compiled against the proved lemma C13_spelling_canonical; the model's element table is compared with the tree;
  3. CORRESPONDENCE, exhaustive over the bounded domain, which is enumerated *by the same index functions* in Coq
     (TypesEnum.v) and here: every single type (-> real onnx.TypeProto), every proto (-> real Type._from_onnx), every
     pair of the 401 shapes (Shape.__le__, Shape.broadcast), every pair of a type sub-domain and a seeded sample of
     pairs of the full domain (_subtype both ways, ==), numpy's rule on concrete shapes.  Both sides compute one digest
     per row (count + position-weighted checksum); a differing row is expanded to the first differing entry;
  4. DIRECT ORACLE on the implementation alone: round trip identity and ==/hash consistency; _subtype vs existence of a
     common populated runtime value found by brute force over real numpy arrays; Shape.broadcast vs
     numpy.broadcast_shapes on conforming concrete shapes; TypeError at a real ``spox.inline`` boundary.
"""

from __future__ import annotations

import re
import time

from harness.common import Run, coq_list, coq_str, coq_opt, CoqEvalError, COQ, sh

CONE = ["Shape.v", "ShapeFacts.v", "Types.v", "TypesFacts.v", "TypesEnum.v", "SrcPrims.v"]
PROPS = "props/C13.v"
HEADER = ("From Coq Require Import List String ZArith NArith Bool.\nFrom Spox Require Import Shape Types TypesEnum.\n"
          "Import ListNotations.\nOpen Scope N_scope.\n")

# ------------------------------------------------------------------------------------------------ the bounded domain
# (mirrors coq/TypesEnum.v definition by definition)

DIMS = [0, 1, 2, 3, "N", "M", None]
PDIMS = [("v", 0), ("v", 1), ("v", 2), ("v", 3), ("p", "N"), ("p", "M"), ("p", ""), None]
NSHAPES, NTENSOR, NPROPER, NTYPES = 401, 10426, 72982, 72989
NPSHAPES, NPTENSOR, NPPROPER, NPROTOS = 586, 16408, 114856, 114863
NCSHAPES = 85
M60, M32 = (1 << 60) - 1, (1 << 32) - 1
ELEM_TABLE = [
    (1, "numpy.float32"), (2, "numpy.uint8"), (3, "numpy.int8"), (4, "numpy.uint16"), (5, "numpy.int16"),
    (6, "numpy.int32"), (7, "numpy.int64"), (8, "numpy.str_"), (9, "numpy.bool"), (10, "numpy.float16"),
    (11, "numpy.float64"), (12, "numpy.uint32"), (13, "numpy.uint64"), (14, "numpy.complex64"),
    (15, "numpy.complex128"), (16, "ml_dtypes.bfloat16"), (17, "ml_dtypes.float8_e4m3fn"),
    (18, "ml_dtypes.float8_e4m3fnuz"), (19, "ml_dtypes.float8_e5m2"), (20, "ml_dtypes.float8_e5m2fnuz"),
    (21, "ml_dtypes.uint4"), (22, "ml_dtypes.int4"), (23, "ml_dtypes.float4_e2m1fn"),
    (24, "ml_dtypes.float8_e8m0fnu"), (25, "ml_dtypes.uint2"), (26, "ml_dtypes.int2"),
]
NESTS = {0: "", 1: "S", 2: "O", 3: "SS", 4: "SO", 5: "OS", 6: "OO"}  # outermost first


def digits(base, r, k):
    out = []
    for _ in range(r):
        out.append(k % base)
        k //= base
    return out[::-1]


def nth_shape(s):
    if s == 0:
        return None
    if s < 2:
        return ()
    if s < 9:
        return tuple(DIMS[d] for d in digits(7, 1, s - 2))
    if s < 58:
        return tuple(DIMS[d] for d in digits(7, 2, s - 9))
    return tuple(DIMS[d] for d in digits(7, 3, s - 58))


def shape_index(shape):
    if shape is None:
        return 0
    r = len(shape)
    k = 0
    for d in shape:
        k = k * 7 + DIMS.index(d)
    return [1, 2, 9, 58][r] + k


def nth_pshape(s):
    if s == 0:
        return None
    if s < 2:
        return ()
    if s < 10:
        return tuple(PDIMS[d] for d in digits(8, 1, s - 2))
    if s < 74:
        return tuple(PDIMS[d] for d in digits(8, 2, s - 10))
    return tuple(PDIMS[d] for d in digits(8, 3, s - 74))


def nth_cshape(c):
    if c < 1:
        return ()
    if c < 5:
        return tuple(digits(4, 1, c - 1))
    if c < 21:
        return tuple(digits(4, 2, c - 5))
    return tuple(digits(4, 3, c - 21))


def type_desc(i):
    """(nest, onnx code or None for Type(), shape index)"""
    if i < NPROPER:
        n, t = divmod(i, NTENSOR)
        e, s = divmod(t, NSHAPES)
        return (n, e + 1, s)
    return (i - NPROPER, None, None)


def type_index(desc):
    n, e, s = desc
    if e is None:
        return NPROPER + n
    return n * NTENSOR + (e - 1) * NSHAPES + s


def mix(seed, k):
    x = (seed * 1000003 + k * 7919 + 12345) & M32
    y = ((x * x) >> 16) & M32
    return ((y * 48271 + k) >> 3) & M32


def sample_pair(seed, k):
    i = mix(seed, 3 * k) % NTYPES
    h = mix(seed, 3 * k + 1)
    m = mix(seed, 3 * k + 2) % 8
    if i >= NPROPER or m == 0:
        return i, h % NTYPES
    n, t = divmod(i, NTENSOR)
    e, s = divmod(t, NSHAPES)
    if m < 5:
        return i, n * NTENSOR + e * NSHAPES + h % NSHAPES
    if m == 5:
        return i, n * NTENSOR + (h % 26) * NSHAPES + s
    if m == 6:
        return i, (h % 7) * NTENSOR + t
    return i, NPROPER + h % 7


def digest(vals):
    c = s = 0
    pos = 0
    for v in vals:
        pos += 1
        if v:
            c += 1
        s = (s + pos * (v + 1)) & M60
    return (c, s)


# ---- encodings (canonical numbers; same as enc_* in TypesEnum.v, computed here from the REAL objects)


def enc_Z(n):
    return 1 + 2 * (-n) if n < 0 else 2 * n


def enc_sdim(d):
    if d is None:
        return 1
    if isinstance(d, str):
        return {"N": 2, "M": 3}.get(d, 4)
    return 5 + enc_Z(int(d))


def enc_sshape(s):
    if s is None:
        return 0
    acc = 1
    for d in s:
        acc = acc * 64 + enc_sdim(d)
    return acc


def enc_np(shape):
    if shape is None:
        return 0
    acc = 1
    for n in shape:
        acc = acc * 8 + n + 1
    return 1 + acc


class Impl:
    """Everything that touches the real implementation."""

    def __init__(self):
        import importlib

        import numpy as np
        import onnx
        import spox
        from spox._shape import Shape, ShapeError
        from spox._type_system import Optional, Sequence, Tensor, Type
        from spox._utils import dtype_to_tensor_type, tensor_type_to_dtype

        self.np, self.onnx, self.spox = np, onnx, spox
        self.Shape, self.ShapeError = Shape, ShapeError
        self.Tensor, self.Sequence, self.Optional, self.Type = Tensor, Sequence, Optional, Type
        self.d2t, self.t2d = dtype_to_tensor_type, tensor_type_to_dtype
        # the scalar types the MODEL's element table names (resolved independently of spox)
        self.table_types = {}
        for code, name in ELEM_TABLE:
            mod, attr = name.rsplit(".", 1)
            self.table_types[code] = getattr(importlib.import_module(mod), attr)
        self.type2code = {t: c for c, t in self.table_types.items()}
        # dtype handed to the constructor for a code: what the tree itself says (tensor_type_to_dtype)
        self.code_dtype = {}
        for code, _ in ELEM_TABLE:
            try:
                self.code_dtype[code] = tensor_type_to_dtype(code)
            except Exception:  # noqa: BLE001
                self.code_dtype[code] = np.dtype(self.table_types[code])
        self.shapes = [nth_shape(s) for s in range(NSHAPES)]
        self._mask_cache = {}
        self.cshapes5 = [()] + [tuple(digits(5, r, k)) for r in (1, 2, 3) for k in range(5 ** r)]
        self.arrays5 = [np.zeros(c, np.float32) for c in self.cshapes5]

    # -- construction of real objects from indices
    def wrap(self, nest, t):
        for ch in reversed(NESTS[nest]):
            t = self.Sequence(t) if ch == "S" else self.Optional(t)
        return t

    def mk_type(self, i):
        n, e, s = type_desc(i)
        if e is None:
            return self.wrap(n, self.Type())
        return self.wrap(n, self.Tensor(self.code_dtype[e], self.shapes[s]))

    def mk_proto(self, i):
        onnx = self.onnx
        if i < NPPROPER:
            n, t = divmod(i, NPTENSOR)
            e, s = divmod(t, NPSHAPES)
            p = onnx.TypeProto()
            p.tensor_type.SetInParent()
            p.tensor_type.elem_type = e
            ps = nth_pshape(s)
            if ps is not None:
                p.tensor_type.shape.SetInParent()
                for d in ps:
                    dim = p.tensor_type.shape.dim.add()
                    if d is None:
                        pass
                    elif d[0] == "v":
                        dim.dim_value = d[1]
                    else:
                        dim.dim_param = d[1]
        else:
            n = i - NPPROPER
            p = onnx.TypeProto()
        for ch in reversed(NESTS[n]):
            q = onnx.TypeProto()
            if ch == "S":
                q.sequence_type.elem_type.CopyFrom(p)
            else:
                q.optional_type.elem_type.CopyFrom(p)
            p = q
        return p

    # -- encodings of real objects
    def enc_type(self, t):
        if type(t) is self.Type:
            return 1
        if isinstance(t, self.Tensor):
            e = self.type2code.get(t._elem_type, 31)  # 31: a scalar type outside the canonical table
            return 4 * (enc_sshape(t.shape) * 32 + e)
        if isinstance(t, self.Sequence):
            return 4 * self.enc_type(t.elem_type) + 2
        if isinstance(t, self.Optional):
            return 4 * self.enc_type(t.elem_type) + 3
        return 0

    def enc_proto(self, p):
        w = p.WhichOneof("value")
        if w is None:
            return 1
        if w == "tensor_type":
            tt = p.tensor_type
            if tt.HasField("shape"):
                acc = 1
                for d in tt.shape.dim:
                    k = d.WhichOneof("value")
                    if k is None:
                        v = 1
                    elif k == "dim_param":
                        v = {"N": 2, "M": 3, "": 4}.get(d.dim_param, 5)
                    else:
                        v = 6 + enc_Z(d.dim_value)
                    acc = acc * 64 + v
            else:
                acc = 0
            return 4 * (acc * 32 + tt.elem_type)
        if w == "sequence_type":
            return 4 * self.enc_proto(p.sequence_type.elem_type) + 2
        if w == "optional_type":
            return 4 * self.enc_proto(p.optional_type.elem_type) + 3
        return 0

    # -- implementation values (the functions whose digests are compared with the model's)
    def val_to_onnx(self, t):
        try:
            return self.enc_proto(t._to_onnx())
        except Exception:  # noqa: BLE001
            return 0

    def val_from_onnx(self, p):
        try:
            return self.enc_type(self.Type._from_onnx(p))
        except Exception:  # noqa: BLE001
            return 0

    def val_shape_pair(self, A, B):
        try:
            r = 1 + enc_sshape(A.broadcast(B).to_simple())
        except self.ShapeError:
            r = 0
        return 2 * r + (1 if A <= B else 0)

    @staticmethod
    def val_pair(a, b):
        return (1 if a._subtype(b) else 0) + (2 if a == b else 0)

    @staticmethod
    def val_pair3(a, b):
        return (1 if a._subtype(b) else 0) + (2 if b._subtype(a) else 0) + (4 if a == b else 0)

    # -- runtime values and the independent conformance relation (direct oracle)
    def conforms_shape(self, arr_shape, simple):
        if simple is None:
            return True
        if len(arr_shape) != len(simple):
            return False
        return all((not isinstance(d, int)) or d == n for n, d in zip(arr_shape, simple))

    def shape_mask(self, simple):
        """Bit set of the concrete shapes (rank <= 3, sizes 0..4, taken from real arrays) conforming to a static shape."""
        m = self._mask_cache.get(simple)
        if m is None:
            m = 0
            for k, arr in enumerate(self.arrays5):
                if self.conforms_shape(arr.shape, simple):
                    m |= 1 << k
            self._mask_cache[simple] = m
        return m

    def conforms(self, v, t):
        if type(t) is self.Type:
            return True
        if isinstance(t, self.Tensor):
            return (isinstance(v, self.np.ndarray) and (v.dtype == t.dtype or (v.dtype.kind == "U" and t.dtype.kind == "U"))
                    and self.conforms_shape(v.shape, t.shape))
        if isinstance(t, self.Sequence):
            return isinstance(v, list) and all(self.conforms(x, t.elem_type) for x in v)
        if isinstance(t, self.Optional):
            return isinstance(v, tuple) and (v == ("none",) or (v[0] == "some" and self.conforms(v[1], t.elem_type)))
        return False

    def populated(self, v):
        if isinstance(v, list):
            return len(v) > 0 and all(self.populated(x) for x in v)
        if isinstance(v, tuple):
            return v[0] == "some" and self.populated(v[1])
        return True

    def common_value(self, a, b):
        """A populated runtime value conforming to both types, found by brute force over small arrays; None if none."""
        top_a, top_b = type(a) is self.Type, type(b) is self.Type
        if top_a and top_b:
            return self.np.zeros((), self.np.float32)
        if top_b:
            return self.common_value(a, a)
        if top_a:
            return self.common_value(b, b)
        if isinstance(a, self.Tensor) and isinstance(b, self.Tensor):
            if a.dtype != b.dtype:
                return None
            m = self.shape_mask(a.shape) & self.shape_mask(b.shape)
            if not m:
                return None
            k = (m & -m).bit_length() - 1
            return self.np.zeros(self.cshapes5[k], a.dtype)
        if isinstance(a, self.Sequence) and isinstance(b, self.Sequence):
            w = self.common_value(a.elem_type, b.elem_type)
            return None if w is None else [w]
        if isinstance(a, self.Optional) and isinstance(b, self.Optional):
            w = self.common_value(a.elem_type, b.elem_type)
            return None if w is None else ("some", w)
        return None  # an array, a list and an optional wrapper are different kinds of value

    def has_top(self, t):
        while not isinstance(t, self.Tensor):
            if type(t) is self.Type:
                return True
            t = t.elem_type
        return False

    def subtype_oracle(self, a, b, claimed):
        """None if `_subtype`'s answer agrees with the existence of a common populated value, else a mechanism string."""
        if self.has_top(a):
            return None  # Type() on the left is outside the statement (C13_subtype_exact_top_left_refuted)
        w = self.common_value(a, b)
        if w is not None and not (self.populated(w) and self.conforms(w, a) and self.conforms(w, b)):
            raise AssertionError("oracle witness does not conform")
        if claimed and w is None:
            return "claims-compatible-without-common-value"
        if not claimed and w is not None:
            return "denies-common-value"
        return None


def tname(t):
    return f"{t.__module__}.{t.__qualname__}"


# ------------------------------------------------------------------------------------------------ spellings (translator)


def spellings(impl):
    """label -> object handed to Tensor(...). Deterministic order."""
    np = impl.np
    import ml_dtypes

    sp = {}

    def add(label, obj):
        sp.setdefault(label, obj)

    for k in sorted(np.sctypeDict, key=repr):
        v = np.sctypeDict[k]
        if isinstance(k, str):
            add(f"str:{k}", k)
        add(f"type:{tname(v)}", v)
        try:
            add(f"dtype:{np.dtype(v)!r}", np.dtype(v))
        except Exception:  # noqa: BLE001
            pass
    for c in np.typecodes["All"]:
        add(f"str:{c}", c)
    for n in dir(ml_dtypes):
        o = getattr(ml_dtypes, n)
        if isinstance(o, type) and issubclass(o, np.generic):
            add(f"type:{tname(o)}", o)
            add(f"str:{n}", n)
    for t in (int, float, bool, complex, str, bytes, object, memoryview):
        add(f"py:{t.__name__}", t)
    add("py:None", None)
    for s in ("<i8", ">i8", "=i4", "<f4", ">f8", "|u1", "|b1", "<U0", "<U7", "U3", "S4", "V8", "<M8[ns]", "<m8[s]", "<c8", "<c16",
              "i1", "i2", "i4", "i8", "u1", "u2", "u4", "u8", "f2", "f4", "f8", "f16", "c8", "c16", "c32", "b1", "O", "a3"):
        add(f"str:{s}", s)
    add("dtype:struct", np.dtype([("a", "<f4")]))
    add("dtype:subarray", np.dtype(("<f4", (2,))))
    return sp


def build_spelling_table(impl):
    np, onnx = impl.np, impl.onnx
    # ONNX's own numpy mapping (independent of spox): dtype -> code
    onnx_map = {}
    for name, code in onnx.TensorProto.DataType.items():
        try:
            onnx_map[np.dtype(onnx.helper.tensor_dtype_to_np_dtype(code))] = code
        except Exception:  # noqa: BLE001
            pass
    onnx_map = {d: c for d, c in onnx_map.items() if d.kind not in "OUS"}
    ids, names = {}, []

    def tid(t):
        if t not in ids:
            ids[t] = len(names)
            names.append(tname(t))
        return ids[t]

    canon, tree_elems = [], []
    for name, code in sorted(onnx.TensorProto.DataType.items(), key=lambda kv: kv[1]):
        p = onnx.TypeProto()
        p.tensor_type.elem_type = code
        try:
            t = impl.Type._from_onnx(p)
        except Exception:  # noqa: BLE001
            continue
        canon.append((code, tid(t._elem_type)))
        tree_elems.append((code, tname(t._elem_type)))
    rows, exc_hist = [], {}
    for label, obj in spellings(impl).items():
        try:
            d = np.dtype(obj) if obj is not None else None
        except Exception:  # noqa: BLE001
            d = None
        if d is None or d.kind == "O":
            expect = None
        elif d.kind == "U":
            expect = int(onnx.TensorProto.STRING)
        else:
            expect = onnx_map.get(d.newbyteorder("="))  # ONNX element types have no byte order
        try:
            t = impl.Tensor(obj)
            res = ("A", tid(t._elem_type), int(t._to_onnx().tensor_type.elem_type))
        except Exception as e:  # noqa: BLE001
            res = ("R", type(e).__name__)
            exc_hist[type(e).__name__] = exc_hist.get(type(e).__name__, 0) + 1
        rows.append({"label": label, "onnx": expect, "res": res})
    return {"rows": rows, "canon": canon, "tree_elems": tree_elems, "names": names, "refusal_exceptions": exc_hist}


def spell_ok(tbl, row):
    canon = dict(tbl["canon"])
    defined = {c for c, _ in ELEM_TABLE}
    o, r = row["onnx"], row["res"]
    if o is None:
        return r[0] == "R"
    return r[0] == "A" and r[2] == o and o in defined and canon.get(o) == r[1]


def spelling_v(tbl):
    rows = []
    for r in tbl["rows"]:
        res = "Refused" if r["res"][0] == "R" else f"(Accepted {r['res'][1]}%N {r['res'][2]}%N)"
        o = "None" if r["onnx"] is None else f"(Some {r['onnx']}%N)"
        rows.append(f"mkrow {coq_str(r['label'])} {o} {res}")
    canon = coq_list([f"({c}%N, {i}%N)" for c, i in tbl["canon"]])
    elems = coq_list([f"({c}%N, {coq_str(n)})" for c, n in tbl["tree_elems"]])
    pre = ("From Coq Require Import List String NArith Bool.\nFrom Spox Require Import Shape Types TypesFacts.\n"
           "Import ListNotations.\nOpen Scope string_scope.\n")
    spell = (pre + f"Definition canon : list (N * N) := {canon}.\nDefinition table : list spell_row := \n  "
             + coq_list(rows, ";\n   ") + ".\n"
             "Theorem spelling_canonical_now : spellings_canonical canon table.\n"
             "Proof. apply spell_check_sound. vm_compute. reflexivity. Qed.\nPrint Assumptions spelling_canonical_now.\n")
    elem = (pre + f"Definition tree_elem_table : list (N * string) := {elems}.\n"
            "Theorem elem_table_current : tree_elem_table = elem_table.\nProof. vm_compute. reflexivity. Qed.\n"
            "Print Assumptions elem_table_current.\n")
    return spell, elem


def check_spellings(run: Run, impl: Impl, cov):
    tbl = build_spelling_table(impl)
    sc = run.scratch()
    spell, elem = spelling_v(tbl)
    (sc / "SpellGen.v").write_text(spell)
    (sc / "ElemGen.v").write_text(elem)
    rc1, out1 = sh(f"timeout 300 coqc -R {COQ} Spox -R {sc} Gen {sc / 'SpellGen.v'}", cwd=sc, timeout=330)
    rc2, out2 = sh(f"timeout 300 coqc -R {COQ} Spox -R {sc} Gen {sc / 'ElemGen.v'}", cwd=sc, timeout=330)
    ok1 = rc1 == 0 and "Closed under the global context" in out1
    ok2 = rc2 == 0 and "Closed under the global context" in out2
    run.obligations += 2
    bad_rows = [r for r in tbl["rows"] if not spell_ok(tbl, r)]
    labels = dict(spellings(impl))
    n_direct_bad = 0
    by_stored = {}
    for r in tbl["rows"]:
        # direct oracle, independent of the table: an accepted spelling gives a type equal to its own ONNX round trip,
        # to the type built from the canonical dtype of its code, with equal hash, compatible both ways
        if r["res"][0] != "A":
            continue
        t = impl.Tensor(labels[r["label"]])
        rt = impl.Type._from_onnx(t._to_onnx())
        c = impl.Tensor(impl.t2d(r["res"][2]))
        good = (t == rt and t == c and hash(t) == hash(c) and t._subtype(c) and c._subtype(t))
        if not good:
            n_direct_bad += 1
            by_stored.setdefault(tbl["names"][r["res"][1]], []).append(r["label"])
    for stored, labs in sorted(by_stored.items()):
        short = stored.rsplit(".", 1)[1]
        lab0 = labs[0]
        run.fail("impl", f"C13/spelling-not-canonical/{short}",
                 f"Tensor({short}) is not equal to the type of its own ONNX element type (not equal to its ONNX round trip)",
                 {"case": "spelling", "spelling": lab0, "all_spellings_affected": labs, "stored_scalar_type": stored,
                  "how_to_read": "Tensor(<spelling>) compared with Type._from_onnx(its _to_onnx()) and with "
                                 "Tensor(tensor_type_to_dtype(code)): ==, hash, _subtype both ways"})
    for r in bad_rows:
        if r["res"][0] == "A" and r["onnx"] is None:
            run.fail("impl", f"C13/undefined-elem-accepted/{r['label']}",
                     "an element type that ONNX does not define is accepted by Tensor(...)", {"case": "spelling", "spelling": r["label"], "row": r})
        elif r["res"][0] == "R" and r["onnx"] is not None:
            run.fail("impl", f"C13/defined-elem-refused/{r['label']}",
                     "a spelling of an ONNX element type is refused by Tensor(...)", {"case": "spelling", "spelling": r["label"], "row": r})
        elif r["res"][0] == "A" and r["res"][2] != r["onnx"]:
            run.fail("impl", f"C13/wrong-onnx-code/{r['label']}",
                     "Tensor(...) emits a different ONNX element type than ONNX defines for the numpy type", {"case": "spelling", "spelling": r["label"], "row": r})
    flagged = {l for labs in by_stored.values() for l in labs}
    unexplained = [r["label"] for r in bad_rows if r["res"][0] == "A" and r["onnx"] == r["res"][2] and r["label"] not in flagged]
    if ok1 != (not bad_rows) or unexplained:
        run.fail("proof", "C13/spelling-table-check-inconsistent", "Coq table check and harness row check disagree",
                 {"coq_ok": ok1, "bad_rows": bad_rows[:10], "unexplained": unexplained[:10], "out": out1[-1500:]})
    explained = flagged | {r["label"] for r in bad_rows if r["res"][0] != ("A" if r["onnx"] is not None else "R") or
                           (r["res"][0] == "A" and r["res"][2] != r["onnx"])}
    if not ok1:
        # the obligation fails; every offending row is a concrete input already reported as an `impl` failure above
        # (so a listed known finding accounts for it) - otherwise the table failure is reported on its own
        if any(r["label"] not in explained for r in bad_rows) or not bad_rows:
            run.fail("proof", "C13/spelling-table", "spell_check canon table = true does not hold for the regenerated spelling table",
                     {"offending_rows": bad_rows[:20], "coqc": out1[-1500:]})
        else:
            run.notes.append("generated obligation spelling_canonical_now NOT discharged: offending rows "
                             f"{[r['label'] for r in bad_rows]} (each reported as an impl failure / known finding)")
    else:
        run.discharged += 1
    if not ok2:
        run.fail("corr", "C13/elem-table", "the model's element table differs from the element types the tree defines",
                 {"tree": tbl["tree_elems"], "model": ELEM_TABLE, "coqc": out2[-1500:]})
    else:
        run.discharged += 1
    cov["spelling_table"] = {
        "spellings": len(tbl["rows"]), "accepted": sum(r["res"][0] == "A" for r in tbl["rows"]),
        "refused": sum(r["res"][0] == "R" for r in tbl["rows"]), "distinct_stored_scalar_types": len(tbl["names"]),
        "defined_codes_in_tree": len(tbl["canon"]), "rows_failing_check": [r["label"] for r in bad_rows],
        "refusal_exception_classes": tbl["refusal_exceptions"], "direct_oracle_failures": n_direct_bad,
        "table_theorem_compiled": ok1, "elem_table_theorem_compiled": ok2,
    }
    if set(tbl["refusal_exceptions"]) - {"TypeError"}:
        run.notes.append("refusals are documented as TypeError (dtype_to_tensor_type docstring) but the installed onnx raises "
                         f"ValueError for undefined numpy types: {tbl['refusal_exceptions']} (counted as refusals)")
    return tbl


# ------------------------------------------------------------------------------------------------ model side helpers

PAIR_RE = re.compile(r"\((\d+),\s*(\d+)\)")


def parse_digests(term):
    return [(int(a), int(b)) for a, b in PAIR_RE.findall(term)]


def parse_nlist(term):
    return [int(x) for x in re.findall(r"\d+", term)]


def groups(seq, n):
    seq = list(seq)
    k = max(1, (len(seq) + n - 1) // n)
    return [seq[i:i + k] for i in range(0, len(seq), k)]


def nl(xs):
    return coq_list([str(x) for x in xs])


class Section:
    """One family of rows: impl digests, model digests, expansion of a differing row."""

    def __init__(self, run, name, header=HEADER):
        self.run, self.name, self.header = run, name, header
        self.rows = []  # (row id, model digest expr, model vals expr, impl vals thunk)

    def add(self, rid, dig_expr, vals_expr, impl_vals):
        self.rows.append((rid, dig_expr, vals_expr, impl_vals))

    def compare(self, nfiles=16):
        """Returns list of (row id, position, impl value, model value) for the first differing entry of each bad row."""
        t0 = time.time()
        impl_dig = []
        for rid, _, _, thunk in self.rows:
            impl_dig.append(digest(thunk()))
        t1 = time.time()
        exprs = [coq_list([r[1] for r in g]) for g in groups(self.rows, nfiles)]
        out = self.run.coq_eval(self.name, self.header, exprs, shard=1)
        model_dig = [d for o in out for d in parse_digests(o)]
        assert len(model_dig) == len(self.rows), (len(model_dig), len(self.rows))
        bad = [k for k in range(len(self.rows)) if impl_dig[k] != model_dig[k]]
        diffs = []
        for k in bad[:3]:
            rid, _, vexpr, thunk = self.rows[k]
            mv = parse_nlist(self.run.coq_eval(self.name + "_x", self.header, [vexpr], shard=1)[0])
            iv = list(thunk())
            pos = next((p for p in range(min(len(mv), len(iv))) if mv[p] != iv[p]), None)
            if pos is None:
                pos = min(len(mv), len(iv))
            diffs.append((rid, pos, iv[pos] if pos < len(iv) else None, mv[pos] if pos < len(mv) else None))
        self.stats = {"rows": len(self.rows), "rows_differing": len(bad), "impl_s": round(t1 - t0, 1), "model_s": round(time.time() - t1, 1)}
        return diffs


# ------------------------------------------------------------------------------------------------ shrinking of pairs


def describe(impl, i):
    return str(impl.mk_type(i)) if type_desc(i)[1] is not None else NESTS[type_desc(i)[0]] + ":Type()"


def shrink_pair(i, j, bad):
    """Greedy: remove nestings, use float32, cut shapes down to single axes, while ``bad(i, j)`` stays true."""
    changed = True
    while changed:
        changed = False
        (n1, e1, s1), (n2, e2, s2) = type_desc(i), type_desc(j)
        cands = []
        if e1 is not None and e2 is not None:
            if n1 == n2 and n1 != 0:
                cands.append(((0, e1, s1), (0, e2, s2)))
                if n1 >= 3:
                    cands.append(((1 if NESTS[n1][1] == "S" else 2, e1, s1), (1 if NESTS[n2][1] == "S" else 2, e2, s2)))
            if e1 == e2 and e1 != 1:
                cands.append(((n1, 1, s1), (n2, 1, s2)))
            sh1, sh2 = nth_shape(s1), nth_shape(s2)
            if sh1 is not None and sh2 is not None and len(sh1) == len(sh2) and len(sh1) > 1:
                for k in range(len(sh1)):
                    cands.append(((n1, e1, shape_index(sh1[:k] + sh1[k + 1:])), (n2, e2, shape_index(sh2[:k] + sh2[k + 1:]))))
            if sh1 is not None and len(sh1) > 0 and (sh2 is None or len(sh2) != len(sh1)):
                cands.append(((n1, e1, shape_index(sh1[1:])), (n2, e2, s2)))
            if sh2 is not None and len(sh2) > 0 and (sh1 is None or len(sh2) != len(sh1)):
                cands.append(((n1, e1, s1), (n2, e2, shape_index(sh2[1:]))))
        for d1, d2 in cands:
            ci, cj = type_index(d1), type_index(d2)
            if (ci, cj) != (i, j) and bad(ci, cj):
                i, j, changed = ci, cj, True
                break
    return i, j


# ------------------------------------------------------------------------------------------------ the run


SMALL_SHAPES = [None, (), (1,), (2,), ("N",), (None,), (2, 3), (2, "N"), ("N", "M"), (1, 2, 3)]
THOROUGH_SHAPES = SMALL_SHAPES + [(0,), (3,), ("M",), (1, 1), (None, 3), (2, None, "N"), (0, 0), (3, "M"), (None, None),
                                  (1, None), (2, 3, 1), ("N", "N", "N"), (None, 2, 3), (3, 2, 1)]
SMALL_ELEMS = [1, 6, 7, 8, 16]


def subdomain(elems, shapes):
    idx = []
    for n in range(7):
        for e in elems:
            for s in shapes:
                idx.append(type_index((n, e, shape_index(s))))
    idx += [NPROPER + n for n in range(7)]
    return idx


def check_single_types(run, impl, cov):
    Type = impl.Type
    CH = 1024
    vals = [0] * NTYPES
    hist = {"roundtrip_checked": 0, "refused_to_onnx": 0}
    prev = None
    first_bad = None
    for i in range(NTYPES):
        t = impl.mk_type(i)
        try:
            p = t._to_onnx()
        except Exception:  # noqa: BLE001
            p = None
        if p is None:
            hist["refused_to_onnx"] += 1
            if not impl.has_top(t) and first_bad is None:
                first_bad = (i, "to_onnx-refused", None)
        else:
            vals[i] = impl.enc_proto(p)
            rt = Type._from_onnx(p)
            t2 = impl.mk_type(i)
            hist["roundtrip_checked"] += 1
            if first_bad is None:
                if not (rt == t and t == rt and hash(rt) == hash(t)):
                    first_bad = (i, "roundtrip-not-identity", str(rt))
                elif not (t2 == t and hash(t2) == hash(t) and t2 is not t):
                    first_bad = (i, "equal-construction-unequal", None)
                elif prev is not None and (prev == t or t == prev):
                    first_bad = (i, "distinct-types-equal", str(prev))
        prev = t
    if first_bad:
        i, what, extra = first_bad
        run.fail("impl", f"C13/{what}/{describe(impl, i)}", f"single type violates canonicity: {what}",
                 {"case": "type", "i": i, "type": describe(impl, i), "other": extra})
    sec = Section(run, "c13_types")
    for lo in range(0, NTYPES, CH):
        n = min(CH, NTYPES - lo)
        sec.add(lo, f"row_to_onnx {lo} {n}", f"map val_to_onnx (range {lo} {n})", (lambda lo=lo, n=n: vals[lo:lo + n]))
    for rid, pos, iv, mv in sec.compare():
        i = rid + pos
        run.fail("corr", f"C13/to_onnx-model-vs-impl/{describe(impl, i)}", "model and implementation disagree on the ONNX form of a type",
                 {"case": "type", "i": i, "type": describe(impl, i), "impl": iv, "model": mv})
    cov["single_types"] = dict(hist, count=NTYPES, **sec.stats)
    return NTYPES


def check_protos(run, impl, cov):
    CH = 2048
    vals = [0] * NPROTOS
    n_ok = 0
    first_bad = None
    for i in range(NPROTOS):
        p = impl.mk_proto(i)
        try:
            t = impl.Type._from_onnx(p)
        except Exception:  # noqa: BLE001
            continue
        vals[i] = impl.enc_type(t)
        n_ok += 1
        if first_bad is None:
            # the constructed type is canonical: converting it again and back is the identity
            try:
                again = impl.Type._from_onnx(t._to_onnx())
                if not (again == t and hash(again) == hash(t)):
                    first_bad = (i, str(t), str(again))
            except Exception as e:  # noqa: BLE001
                first_bad = (i, str(t), f"{type(e).__name__}: {e}")
    if first_bad:
        i, a, b = first_bad
        run.fail("impl", f"C13/from_onnx-not-canonical/{a}", "a type built by Type._from_onnx is not equal to its own ONNX round trip",
                 {"case": "proto", "i": i, "type": a, "again": b})
    sec = Section(run, "c13_protos")
    for lo in range(0, NPROTOS, CH):
        n = min(CH, NPROTOS - lo)
        sec.add(lo, f"row_from_onnx {lo} {n}", f"map val_from_onnx (range {lo} {n})", (lambda lo=lo, n=n: vals[lo:lo + n]))
    for rid, pos, iv, mv in sec.compare():
        i = rid + pos
        run.fail("corr", f"C13/from_onnx-model-vs-impl/{i}", "model and implementation disagree on the type built from a TypeProto",
                 {"case": "proto", "i": i, "proto": str(impl.mk_proto(i)), "impl": iv, "model": mv})
    cov["protos"] = dict(count=NPROTOS, accepted=n_ok, refused=NPROTOS - n_ok, **sec.stats)
    return NPROTOS


def concretise(rng, simple, sizes=(0, 1, 2, 3, 4)):
    if simple is None:
        return tuple(rng.choice(sizes) for _ in range(rng.randrange(4)))
    return tuple(d if isinstance(d, int) else rng.choice(sizes) for d in simple)


def broadcast_oracle(impl, rng, a, b, k):
    """Shape.broadcast vs numpy.broadcast_shapes on conforming concrete shapes. Returns a mechanism string or None."""
    np = impl.np
    try:
        r = impl.Shape.from_simple(a).broadcast(impl.Shape.from_simple(b)).to_simple()
        raised = False
    except impl.ShapeError:
        r, raised = None, True
    allc = a is not None and b is not None and all(isinstance(d, int) for d in a + b)
    trials = [(a, b)] if allc else []
    if not allc:
        ones = (lambda s: () if s is None else tuple(d if isinstance(d, int) else 1 for d in s))
        trials.append((ones(a), ones(b)))
        trials += [(concretise(rng, a), concretise(rng, b)) for _ in range(k)]
    for sa, sb in trials:
        try:
            c = tuple(int(x) for x in np.broadcast_shapes(sa, sb))
        except ValueError:
            c = None
        if allc:
            if raised != (c is None):
                return ("raises-although-numpy-broadcasts" if raised else "accepts-although-numpy-fails"), sa, sb, c, r
            if not raised and tuple(r) != c:
                return "constant-result-differs-from-numpy", sa, sb, c, r
        elif c is not None:
            if raised:
                return "raises-although-conforming-values-broadcast", sa, sb, c, r
            if not impl.conforms_shape(c, r):
                return "claims-dimension-contradicted-by-conforming-values", sa, sb, c, r
    return None


def check_shape_pairs(run, impl, cov):
    Shape = impl.Shape
    S = [Shape.from_simple(s) for s in impl.shapes]
    rows = []
    t0 = time.time()
    for i in range(NSHAPES):
        A = S[i]
        rows.append([impl.val_shape_pair(A, B) for B in S])
    sec = Section(run, "c13_shapes")
    for i in range(NSHAPES):
        sec.add(i, f"row_shape all_shapes {i}", f"vals_shape all_shapes {i}", (lambda i=i: rows[i]))
    diffs = sec.compare()
    # direct oracle against numpy on every pair
    k = 2 if run.tier == "quick" else 6
    n_trials = 0
    mech_seen = {}
    hist = {"raises": 0, "unknown_rank": 0, "all_constant_pairs": 0}
    for i in range(NSHAPES):
        a = impl.shapes[i]
        for j in range(NSHAPES):
            v = rows[i][j] >> 1
            if a is not None and impl.shapes[j] is not None and all(isinstance(d, int) for d in a + impl.shapes[j]):
                hist["all_constant_pairs"] += 1
            if v == 0:
                hist["raises"] += 1
            elif v == 1:
                hist["unknown_rank"] += 1
            b = impl.shapes[j]
            res = broadcast_oracle(impl, run.rng, a, b, k)
            n_trials += 1
            if res and res[0] not in mech_seen:
                mech_seen[res[0]] = (i, j, res)
    for mech, (i, j, res) in sorted(mech_seen.items()):
        run.fail("impl", f"C13/broadcast/{mech}", f"Shape.broadcast {mech.replace('-', ' ')}",
                 {"case": "shape_pair", "i": i, "j": j, "a": impl.shapes[i], "b": impl.shapes[j], "concrete_a": res[1], "concrete_b": res[2],
                  "numpy": res[3], "static": res[4]})
    # spot check: simple-shape operand path and symmetry of can_broadcast
    for _ in range(300):
        i, j = run.rng.randrange(NSHAPES), run.rng.randrange(NSHAPES)
        try:
            r1 = 1 + enc_sshape(S[i].broadcast(impl.shapes[j]).to_simple())
        except impl.ShapeError:
            r1 = 0
        if r1 != rows[i][j] >> 1 or S[i].can_broadcast(S[j]) != (r1 != 0):
            run.fail("impl", "C13/broadcast/simple-operand-path-differs", "Shape.broadcast(simple shape) differs from Shape.broadcast(Shape)",
                     {"case": "shape_pair", "i": i, "j": j})
    for rid, pos, iv, mv in diffs:
        run.fail("corr", f"C13/shape-model-vs-impl/{impl.shapes[rid]}~{impl.shapes[pos]}",
                 "model and implementation disagree on Shape.__le__ / Shape.broadcast",
                 {"case": "shape_pair", "i": rid, "j": pos, "a": impl.shapes[rid], "b": impl.shapes[pos],
                  "impl": {"le": iv & 1, "broadcast": iv >> 1}, "model": {"le": mv & 1, "broadcast": mv >> 1}})
    cov["shape_pairs"] = dict(count=NSHAPES * NSHAPES, numpy_oracle_pairs=n_trials, concretisations_per_pair=k + 1,
                              wall_s=round(time.time() - t0, 1), **hist, **sec.stats)
    return NSHAPES * NSHAPES


def check_np(run, impl, cov):
    np = impl.np
    C = [nth_cshape(c) for c in range(NCSHAPES)]
    rows = []
    for a in C:
        r = []
        for b in C:
            try:
                r.append(enc_np(tuple(int(x) for x in np.broadcast_shapes(a, b))))
            except ValueError:
                r.append(0)
        rows.append(r)
    sec = Section(run, "c13_np")
    for i in range(NCSHAPES):
        sec.add(i, f"row_np {i}", f"vals_np {i}", (lambda i=i: rows[i]))
    for rid, pos, iv, mv in sec.compare(nfiles=4):
        run.fail("corr", f"C13/np_broadcast-vs-numpy/{C[rid]}~{C[pos]}", "the specification np_broadcast differs from numpy.broadcast_shapes",
                 {"case": "np", "i": rid, "j": pos, "a": C[rid], "b": C[pos], "numpy": iv, "model": mv})
    cov["np_broadcast_vs_numpy"] = dict(count=NCSHAPES * NCSHAPES, **sec.stats)
    return NCSHAPES * NCSHAPES


def report_subtype(run, impl, i, j, mech):
    def bad(ci, cj):
        a, b = impl.mk_type(ci), impl.mk_type(cj)
        return impl.subtype_oracle(a, b, a._subtype(b)) == mech

    si, sj = shrink_pair(i, j, bad)
    a, b = impl.mk_type(si), impl.mk_type(sj)
    run.fail("impl", f"C13/subtype/{mech}/{type(a).__name__}", f"_subtype {mech.replace('-', ' ')}",
             {"case": "pair", "i": si, "j": sj, "a": describe(impl, si), "b": describe(impl, sj), "subtype": bool(a._subtype(b)),
              "common_value": repr(impl.common_value(a, b))[:200], "found_at": [i, j]})


def check_pairs_all(run, impl, cov):
    quick = run.tier == "quick"
    sub = subdomain(SMALL_ELEMS, SMALL_SHAPES) if quick else subdomain([c for c, _ in ELEM_TABLE], THOROUGH_SHAPES)
    tys = [impl.mk_type(i) for i in sub]
    n = len(sub)
    rows = []
    t0 = time.time()
    vp = impl.val_pair
    n_true = n_eq = n_oracle = 0
    stride = 1 if quick else 61   # oracle on every pair (quick) / every 29th pair (thorough; the correspondence covers all)
    seen_mech = set()
    cnt = 0
    for ai, a in enumerate(tys):
        r = [vp(a, b) for b in tys]
        rows.append(r)
        ha = hash(a)
        for bi, v in enumerate(r):
            if v & 1:
                n_true += 1
            if v & 2:
                n_eq += 1
                if hash(tys[bi]) != ha:
                    run.fail("impl", "C13/equal-types-different-hash", "two equal types have different hashes",
                             {"case": "pair", "i": sub[ai], "j": sub[bi]})
            cnt += 1
            if cnt % stride == 0:
                n_oracle += 1
                mech = impl.subtype_oracle(a, tys[bi], bool(v & 1))
                if mech and mech not in seen_mech:
                    seen_mech.add(mech)
                    report_subtype(run, impl, sub[ai], sub[bi], mech)
    hdr = HEADER + f"Definition sub : list N := {nl(sub)}.\nDefinition sub_tys : list ty := Eval vm_compute in (map nth_type sub).\n"
    sec = Section(run, "c13_pairs", hdr)
    # rows are grouped on the model side: one expression digests a block of rows
    for k in range(n):
        sec.add(k, f"row_pairs sub_tys (nth {k} sub_tys TTop)", f"vals_pairs sub_tys (nth {k} sub_tys TTop)", (lambda k=k: rows[k]))
    for rid, pos, iv, mv in sec.compare(nfiles=16 if quick else 64):
        i, j = sub[rid], sub[pos]
        run.fail("corr", f"C13/subtype-model-vs-impl/{describe(impl, i)}~{describe(impl, j)}", "model and implementation disagree on _subtype / ==",
                 {"case": "pair", "i": i, "j": j, "a": describe(impl, i), "b": describe(impl, j),
                  "impl": {"subtype": iv & 1, "eq": iv >> 1}, "model": {"subtype": mv & 1, "eq": mv >> 1}})
    cov["type_pairs_all"] = dict(subdomain_types=n, count=n * n, compatible=n_true, equal=n_eq, oracle_pairs=n_oracle,
                                 elems=len(SMALL_ELEMS) if quick else 26, shapes=len(SMALL_SHAPES if quick else THOROUGH_SHAPES),
                                 wall_s=round(time.time() - t0, 1), **sec.stats)
    return n * n, n_oracle


def check_pairs_sampled(run, impl, cov):
    quick = run.tier == "quick"
    n = 60000 if quick else 1000000
    CH = 500
    seed = run.seed
    vals = [0] * n
    cache = {}

    def ty(i):
        t = cache.get(i)
        if t is None:
            t = cache[i] = impl.mk_type(i)
        return t

    hist = {"compatible": 0, "equal": 0, "top_operand": 0, "same_elem": 0}
    seen_mech = set()
    pairs = []
    for k in range(n):
        i, j = sample_pair(seed, k)
        pairs.append((i, j))
        a, b = ty(i), ty(j)
        s1, s2, eq = a._subtype(b), b._subtype(a), a == b
        vals[k] = (1 if s1 else 0) + (2 if s2 else 0) + (4 if eq else 0)
        hist["compatible"] += bool(s1)
        hist["equal"] += bool(eq)
        hist["top_operand"] += (i >= NPROPER or j >= NPROPER)
        hist["same_elem"] += type_desc(i)[1] == type_desc(j)[1]
        if eq and hash(a) != hash(b):
            run.fail("impl", "C13/equal-types-different-hash", "two equal types have different hashes", {"case": "pair", "i": i, "j": j})
        for (x, y, xi, yi, claimed) in ((a, b, i, j, s1), (b, a, j, i, s2)):
            mech = impl.subtype_oracle(x, y, bool(claimed))
            if mech and mech not in seen_mech:
                seen_mech.add(mech)
                report_subtype(run, impl, xi, yi, mech)
    sec = Section(run, "c13_sample")
    for lo in range(0, n, CH):
        sec.add(lo, f"row_sample {seed} {lo} {CH}", f"vals_sample {seed} {lo} {CH}", (lambda lo=lo: vals[lo:lo + CH]))
    for rid, pos, iv, mv in sec.compare(nfiles=32):
        i, j = pairs[rid + pos]
        run.fail("corr", f"C13/subtype-model-vs-impl/{describe(impl, i)}~{describe(impl, j)}", "model and implementation disagree on _subtype / ==",
                 {"case": "pair", "i": i, "j": j, "a": describe(impl, i), "b": describe(impl, j), "impl": iv, "model": mv,
                  "bits": "1: a<=b, 2: b<=a, 4: a==b"})
    cov["type_pairs_sampled"] = dict(count=n, distinct_types_touched=len(cache), **hist, **sec.stats)
    return n, pairs, vals


def model_with_input(impl, tproto):
    h = impl.onnx.helper
    g = h.make_graph([h.make_node("Identity", ["x"], ["y"])], "g", [h.make_value_info("x", tproto)], [h.make_value_info("y", tproto)])
    return h.make_model(g, opset_imports=[h.make_opsetid("", 17)])


def model_with_two_inputs(impl, tproto, untyped_first):
    """As model_with_input, with a second input `u` (float32, any shape) before or after `x`."""
    h = impl.onnx.helper
    u = h.make_tensor_value_info("u", impl.onnx.TensorProto.FLOAT, None)
    x = h.make_value_info("x", tproto)
    g = h.make_graph([h.make_node("Identity", ["x"], ["y"])], "g", [u, x] if untyped_first else [x, u], [h.make_value_info("y", tproto)])
    return h.make_model(g, opset_imports=[h.make_opsetid("", 17)])


def inline_boundary_outcome(impl, a, b, position="alone"):
    """'ok' | 'TypeError' | other exception name, for a Var of type a fed to an inlined model whose input has type b - alone, or next to
    an UNTYPED Var (output of a user-defined operator without type hook) given for another input before / after it: the judgement of
    one argument does not depend on its neighbours."""
    try:
        if position == "alone":
            m = model_with_input(impl, b._to_onnx())
            impl.spox.inline(m)(impl.spox.argument(a))
        else:
            from harness.opaque_node import untyped
            import numpy as _np
            un = untyped(impl.spox.argument(impl.Tensor(_np.float32, (2,))))
            m = model_with_two_inputs(impl, b._to_onnx(), position == "after-untyped")
            args = (un, impl.spox.argument(a)) if position == "after-untyped" else (impl.spox.argument(a), un)
            with __import__("warnings").catch_warnings():
                __import__("warnings").simplefilter("ignore")
                impl.spox.inline(m)(*args)
        return "ok"
    except TypeError:
        return "TypeError"
    except Exception as e:  # noqa: BLE001
        return type(e).__name__


def check_inline(run, impl, cov, pairs, vals):
    want = 80 if run.tier == "quick" else 400
    comp, incomp = [], []
    for (i, j), v in zip(pairs, vals):
        if i >= NPROPER or j >= NPROPER:
            continue
        (comp if v & 1 else incomp).append((i, j))
    chosen = comp[:want] + incomp[:want]
    outcomes = {}
    for idx, (i, j) in enumerate(chosen):
        a, b = impl.mk_type(i), impl.mk_type(j)
        common = impl.common_value(a, b) is not None
        for position in (("alone",) if idx % 4 else ("alone", "after-untyped", "before-untyped")):
            out = inline_boundary_outcome(impl, a, b, position)
            outcomes[out] = outcomes.get(out, 0) + 1
            if out not in ("ok", "TypeError") or (out == "ok") != common:
                what = "accepts-incompatible-argument" if out == "ok" else ("rejects-compatible-argument" if out == "TypeError" else f"raises-{out}")
                what += "" if position == "alone" else "/" + position
                run.fail("impl", f"C13/inline-boundary/{what}", f"spox.inline call boundary {what.replace('-', ' ')}",
                         {"case": "inline", "i": i, "j": j, "argument_type": describe(impl, i), "model_input_type": describe(impl, j), "outcome": out,
                          "common_value_exists": common, "position": position})
    cov["inline_boundary"] = dict(count=len(chosen), compatible=min(want, len(comp)), incompatible=min(want, len(incomp)), outcomes=outcomes)
    return len(chosen)



# ------------------------------------------------------------------------------------------------ corpus outside the index domain

B63 = 1 << 63
CORPUS = [  # (nest, element code, simple shape) — constructor inputs the bounded domain does not contain
    (0, 1, (-1,)), (0, 1, (None,)), (0, 1, (B63 - 1,)), (0, 1, (B63,)), (0, 1, (-B63,)), (0, 1, (-B63 - 1,)),
    (0, 7, ("",)), (0, 7, (None,)), (0, 7, ("", 3)), (0, 7, (None, 3)), (0, 7, ("batch", "batch")), (0, 7, ("batch", "x")),
    (0, 7, (2, 3)), (0, 8, (1, 0)), (0, 8, (0, 1)), (0, 1, (1, 2, 3, 4)), (0, 1, (None, None, None, None, None)),
    (0, 1, (5, 1, 4, 1)), (0, 1, (4, 5)), (0, 1, (7, 1, "k", 1, 6)), (1, 1, (B63,)), (2, 7, ("", "batch")), (4, 16, (100, "")),
    (0, 1, ()), (0, 1, None), (6, 26, (0,)),
]


def coq_sdim(d):
    if d is None:
        return "SNone"
    if isinstance(d, str):
        return f"SStr {coq_str(d)}"
    return f"SInt ({int(d)})%Z"


def check_corpus(run, impl, cov):
    tys, terms = [], []
    for n, e, s in CORPUS:
        tys.append(impl.wrap(n, impl.Tensor(impl.code_dtype[e], s)))
        ss = "None" if s is None else "(Some " + coq_list([coq_sdim(d) for d in s]) + ")"
        terms.append(f"nest {n} (match mk_tensor {e} {ss} with Some t => t | None => TTop end)")
    hdr = HEADER + "Open Scope string_scope.\nDefinition corpus : list ty := " + coq_list(terms, ";\n  ") + ".\n" \
        "Definition tshape (t : ty) : shape := match t with TTensor _ s => s | _ => None end.\n"
    exprs = ["map (fun t => match to_onnx t with Some p => enc_proto p | None => 0 end) corpus",
             "map (fun a => map (val_pair3 a) corpus) corpus",
             "map (fun a => map (fun b => val_shape_pair (tshape a) (tshape b)) corpus) corpus"]
    out = [parse_nlist(o) for o in run.coq_eval("c13_corpus", hdr, exprs, shard=3)]
    K = len(tys)
    i1 = [impl.val_to_onnx(t) for t in tys]
    i2 = [impl.val_pair3(a, b) for a in tys for b in tys]
    shp = [t._shape if isinstance(t, impl.Tensor) else impl.Shape(None) for t in tys]
    i3 = [impl.val_shape_pair(a, b) for a in shp for b in shp]
    n_bad = 0
    for name, iv, mv in (("to_onnx", i1, out[0]), ("subtype", i2, out[1]), ("shape", i3, out[2])):
        for k, (x, y) in enumerate(zip(iv, mv)):
            if x != y or len(iv) != len(mv):
                n_bad += 1
                a, b = (k, None) if name == "to_onnx" else divmod(k, K)
                run.fail("corr", f"C13/corpus-{name}-model-vs-impl/{CORPUS[a]}~{CORPUS[b] if b is not None else ''}",
                         "model and implementation disagree on a corpus type (out-of-domain constructor inputs)",
                         {"case": "corpus", "what": name, "a": str(CORPUS[a]), "b": str(CORPUS[b]) if b is not None else None, "impl": x, "model": y})
                break
    for k, t in enumerate(tys):  # direct oracle: round trip identity wherever the conversion succeeds; '' spells None
        if i1[k]:
            rt = impl.Type._from_onnx(t._to_onnx())
            if rt != t or hash(rt) != hash(t):
                run.fail("impl", f"C13/roundtrip-not-identity/{t}", "type is not equal to its ONNX round trip", {"case": "corpus", "type": str(CORPUS[k])})
    for a, b in ((6, 7), (8, 9)):
        if tys[a] != tys[b] or hash(tys[a]) != hash(tys[b]):
            run.fail("impl", f"C13/equivalent-spellings-of-a-dimension-unequal/{CORPUS[a][2]}", "'' and None spell the same dimension but give unequal types",
                     {"case": "corpus", "a": str(CORPUS[a]), "b": str(CORPUS[b])})
    cov["corpus"] = {"types": K, "evaluations": K + 2 * K * K, "disagreements": n_bad, "refused_to_onnx": sum(1 for v in i1 if not v)}
    return K + 2 * K * K


EXTRA_NOTES = [
    "Tensor(dtype, (-1,)) is accepted by the constructor (no check that a constant dimension is a natural); such types denote no value "
    "and are outside C13_subtype_exact (hypothesis wf_ty; C13_subtype_exact_negative_dim_refuted)",
    "Tensor(dtype, (True,)) is accepted (bool is an int), equals Tensor(dtype, (1,)) with equal hash, but its _to_onnx() raises "
    "(onnx.helper rejects a bool dimension); bool dimensions are outside the declared SimpleShape and outside the model",
    "Type() as the LEFT operand of _subtype is judged incompatible with everything but Type() although every value is common "
    "(C13_subtype_exact_top_left_refuted); call boundaries only ever pass Tensor/Sequence/Optional on the left",
]


def check_source_tie(run: Run, cov: dict):
    """Second tie (translator): the SOURCE TEXT of _broadcast_elem, Natural.__le__, Shape.__le__ and the four _subtype methods is
    translated to Gallina (harness/pysrc.py, fail-closed) and coq/gen/SrcFacts.v - "the generated functions are the hand-written
    model's, for all arguments" - is re-checked against it.  This tie is additional to the exhaustive correspondence.  When the current
    source text is outside the translated subset (typically a rewrite with other constructs), that is recorded in the evidence and the
    exhaustive correspondence remains the deciding tie; when it IS translated but the equivalence theorems no longer re-check, the
    functions the source denotes differ from the model's (the proofs are case analyses, insensitive to equivalent rewrites inside the
    subset): a broken proof obligation, reported unless a concrete failing input is reported instead."""
    from harness import pysrc
    from harness.common import REPO

    rec = pysrc.check_tie(
        run, "C13/source-tie/equivalence-theorems",
        "_broadcast_elem / Unknown.__le__ / Constant.__le__ / Shape.__le__ (src/spox/_shape.py) and Type/Tensor/Sequence/Optional._subtype "
        "(src/spox/_type_system.py)",
        lambda: pysrc.translate((REPO / "src/spox/_shape.py").read_text(), (REPO / "src/spox/_type_system.py").read_text()),
        "SrcGen.v", "SrcFacts.v", 4)
    cov["source_tie"] = rec


def run(run: Run) -> int:
    run.check_theorems(PROPS, CONE, thorough_coqchk=(run.tier == "thorough"))
    impl = Impl()
    cov = {}
    check_source_tie(run, cov)
    timing = {}
    t = time.time()
    check_spellings(run, impl, cov)
    timing["spellings"] = round(time.time() - t, 1)
    total = 0
    try:
        for name, fn in (("single_types", check_single_types), ("protos", check_protos), ("shape_pairs", check_shape_pairs),
                         ("np", check_np), ("corpus", check_corpus)):
            t = time.time()
            total += fn(run, impl, cov)
            timing[name] = round(time.time() - t, 1)
        t = time.time()
        n_all, n_oracle = check_pairs_all(run, impl, cov)
        timing["pairs_all"] = round(time.time() - t, 1)
        t = time.time()
        n_s, pairs, vals = check_pairs_sampled(run, impl, cov)
        timing["pairs_sampled"] = round(time.time() - t, 1)
        t = time.time()
        n_inl = check_inline(run, impl, cov, pairs, vals)
        timing["inline"] = round(time.time() - t, 1)
        total += n_all + n_s + n_inl
    except CoqEvalError as e:
        run.fail("proof", "C13/model-evaluation-failed", "coqc failed while evaluating the model on the bounded domain", str(e)[-3000:])
        n_oracle = 0
    n_corr_bad = sum(1 for f in run.failures if f.kind == "corr")
    nontrivial = (cov.get("type_pairs_all", {}).get("compatible", 0) + cov.get("type_pairs_sampled", {}).get("compatible", 0)
                  + NSHAPES * NSHAPES - cov.get("shape_pairs", {}).get("unknown_rank", 0) + cov.get("single_types", {}).get("roundtrip_checked", 0))
    cov.update({
        "evaluations": total,
        "distinct_nontrivial": nontrivial,
        "rule": "single types with a successful ONNX round trip + shape pairs whose broadcast is not the trivial unknown-rank answer "
                "+ type pairs judged compatible (the rest of the evaluations are refusals / incompatible pairs, also compared)",
        "exhaustive": True,
        "exhaustive_domain": "26 element types x 401 shapes (rank<=3 over {0,1,2,3,'N','M',None} + unknown rank) x 7 Sequence/Optional nestings "
                             "(+ Type() nestings) for single types and ONNX round trip; 28x586x7 TypeProtos for _from_onnx; all 401^2 shape pairs for "
                             "Shape.__le__/broadcast; all pairs of the type sub-domain named in type_pairs_all; 85^2 concrete shape pairs for np_broadcast. "
                             "The seeded sample of pairs of the full domain (type_pairs_sampled) is NOT exhaustive.",
        "traces_validated_against_impl": total - n_corr_bad,
        "disagreements_checked": n_corr_bad,
        "direct_oracle": {"roundtrip_and_hash": cov.get("single_types", {}).get("roundtrip_checked", 0),
                          "subtype_common_value_pairs": n_oracle + 2 * cov.get("type_pairs_sampled", {}).get("count", 0),
                          "broadcast_vs_numpy_pairs": cov.get("shape_pairs", {}).get("numpy_oracle_pairs", 0),
                          "inline_boundary_calls": cov.get("inline_boundary", {}).get("count", 0)},
        "input_distribution": {k: cov.get(k) for k in ("single_types", "protos", "shape_pairs", "type_pairs_all", "type_pairs_sampled", "inline_boundary")},
        "timing_s": timing,
        "samples": [
            {"type": describe(impl, 10426 + 402 + 60), "to_onnx_code": impl.val_to_onnx(impl.mk_type(10426 + 402 + 60))},
            {"pair": [describe(impl, sample_pair(run.seed, 1)[0]), describe(impl, sample_pair(run.seed, 1)[1])]},
            {"broadcast": [str(nth_shape(100)), str(nth_shape(30)), impl.val_shape_pair(impl.Shape.from_simple(nth_shape(100)), impl.Shape.from_simple(nth_shape(30)))]},
        ],
    })
    run.notes.extend(EXTRA_NOTES)
    return run.finish(cov, [
        "harness/c13.py enumerates the bounded domain with the same index functions as coq/TypesEnum.v and encodes real objects "
        "(spox types, onnx.TypeProto, Shape) into the same canonical numbers as the model's enc_* functions",
        "element types are modelled by their ONNX code; that the stored numpy scalar type is determined by the code is the per-run "
        "spelling-table obligation (spell_check) plus the direct ==/hash oracle",
        "runtime values are modelled as element type + concrete shape (tensor contents are irrelevant to conformance)",
        "a named dimension is an unknown: the same label twice does not force equal sizes (C13_subtype_repeated_label_refuted)",
    ])


# ------------------------------------------------------------------------------------------------ replay


def replay(run: Run, case) -> int:
    impl = Impl()
    d = case.get("detail") or {}
    kind = d.get("case") if isinstance(d, dict) else None
    bad = False
    if kind == "spelling":
        obj = spellings(impl)[d["spelling"]]
        t = impl.Tensor(obj)
        code = int(t._to_onnx().tensor_type.elem_type)
        rt = impl.Type._from_onnx(t._to_onnx())
        c = impl.Tensor(impl.t2d(code))
        print(f"Tensor({d['spelling']}) = {t!r}; ONNX code {code}; round trip {rt!r}; canonical {c!r}")
        print("  == round trip:", t == rt, " == canonical:", t == c, " hash equal:", hash(t) == hash(c),
              " _subtype both ways:", t._subtype(c), c._subtype(t))
        bad = not (t == rt and t == c and hash(t) == hash(c) and t._subtype(c) and c._subtype(t))
    elif kind in ("pair", "inline"):
        i, j = d["i"], d["j"]
        a, b = impl.mk_type(i), impl.mk_type(j)
        s1, s2, eq = a._subtype(b), b._subtype(a), a == b
        m = parse_nlist(run.coq_eval("replay", HEADER, [f"[val_pair3 (nth_type {i}) (nth_type {j})]"])[0])[0]
        iv = (1 if s1 else 0) + (2 if s2 else 0) + (4 if eq else 0)
        print(f"a = {describe(impl, i)}   b = {describe(impl, j)}")
        print(f"impl : a<=b {s1}  b<=a {s2}  a==b {eq}      model: a<=b {bool(m & 1)}  b<=a {bool(m & 2)}  a==b {bool(m & 4)}")
        o1, o2 = impl.subtype_oracle(a, b, bool(s1)), impl.subtype_oracle(b, a, bool(s2))
        print(f"oracle (common populated value): {impl.common_value(a, b)!r:.120}  -> {o1 or 'agrees'} / {o2 or 'agrees'}")
        bad = iv != m or bool(o1) or bool(o2) or (eq and hash(a) != hash(b))
        if kind == "inline" and i < NPROPER and j < NPROPER:
            out = inline_boundary_outcome(impl, a, b)
            print("inline boundary:", out)
            bad = bad or (out == "ok") != (impl.common_value(a, b) is not None) or out not in ("ok", "TypeError")
    elif kind == "shape_pair":
        i, j = d["i"], d["j"]
        A, B = impl.Shape.from_simple(nth_shape(i)), impl.Shape.from_simple(nth_shape(j))
        iv = impl.val_shape_pair(A, B)
        m = parse_nlist(run.coq_eval("replay", HEADER, [f"[val_shape_pair (nth_shape {i}) (nth_shape {j})]"])[0])[0]
        print(f"a = {nth_shape(i)}  b = {nth_shape(j)}  impl: le={iv & 1} broadcast={iv >> 1}  model: le={m & 1} broadcast={m >> 1}")
        import random
        res = broadcast_oracle(impl, random.Random(0), nth_shape(i), nth_shape(j), 30)
        print("numpy oracle:", res or "agrees")
        bad = iv != m or bool(res)
    elif kind == "type":
        i = d["i"]
        t = impl.mk_type(i)
        iv = impl.val_to_onnx(t)
        m = parse_nlist(run.coq_eval("replay", HEADER, [f"[val_to_onnx {i}]"])[0])[0]
        try:
            rt = impl.Type._from_onnx(t._to_onnx())
        except Exception as e:  # noqa: BLE001
            rt = f"{type(e).__name__}"
        print(f"type {describe(impl, i)}: to_onnx impl {iv} model {m}; round trip {rt}")
        bad = iv != m or (not impl.has_top(t) and rt != t)
    elif kind == "proto":
        i = d["i"]
        p = impl.mk_proto(i)
        iv = impl.val_from_onnx(p)
        m = parse_nlist(run.coq_eval("replay", HEADER, [f"[val_from_onnx {i}]"])[0])[0]
        print(f"proto #{i}: from_onnx impl {iv} model {m}")
        bad = iv != m
        if iv:
            t = impl.Type._from_onnx(p)
            again = impl.Type._from_onnx(t._to_onnx())
            print(f"  type {t}, again {again}")
            bad = bad or again != t
    elif kind == "np":
        i, j = d["i"], d["j"]
        a, b = nth_cshape(i), nth_cshape(j)
        try:
            iv = enc_np(tuple(int(x) for x in impl.np.broadcast_shapes(a, b)))
        except ValueError:
            iv = 0
        m = parse_nlist(run.coq_eval("replay", HEADER, [f"[nth {j} (vals_np {i}) 0]"])[0])[0]
        print(f"{a} {b}: numpy {iv} np_broadcast {m}")
        bad = iv != m
    else:
        print("replay: case has no concrete input (proof/table obligation); re-running the quick check instead")
        import harness.c13 as me
        return me.run(run)
    if bad:
        print(f"VIOLATION property=C13 replay={run.pid}")
    else:
        print("replay: no violation on this input")
    return 1 if bad else 0
