"""C07 — propagated constant values equal what the model computes.

Model: coq/ValueProp.v (+ ValuePropProg.v, ValuePropSem.v), theorems: coq/props/C07.v.

A. Generated constant expressions (constants of every attribute kind, initializers, operators over them incl.
   multi-output TopK/Split/Unique and Reshape/Expand/Slice/Tile whose TYPE depends on the value, inlined models fed with
   constants, unsafe_cast) are constructed under backends REFERENCE and ONNXRUNTIME.  Correspondence: every construction
   is replayed through the model (``construct cfg_fixed backend node <what the evaluator returned>``): predicted
   presence/absence of a value and its dtype/shape/container vs the real ``Var._value``.
   Direct oracle: every valued Var is exposed as an output of a built model that also has a real input; onnxruntime
   (graph optimisations disabled, so nothing is folded) runs it on two input bindings and each result is compared with
   ``Var._get_value()`` (exact for ints/bools/strings, tolerance for floats); values must conform to ``Var.type``.
B. value_right_output: the evaluator's result list is handed back in another dictionary order / with entries stored
   under the names of INPUTS (fault injection below spox): the value attached to an output must be the entry stored under
   that output's own name.
C. ONNX's node-test corpus (onnx.backend.test.case.node.collect_testcases) replayed with all inputs supplied as constants
   through the v21 and the v17 module: propagated values vs the corpus' expected outputs for every output.
"""

from __future__ import annotations

import collections
import inspect
import warnings

import numpy as np

from harness import c15_lib as L
from harness.c15 import BACKENDS, Checker, World, run_program, widths_of
from harness.common import Run

CONE = ["ValueProp.v", "ValuePropFacts.v", "ValuePropProg.v", "ValuePropProgFacts.v", "ValuePropC07Facts.v",
        "ValuePropSem.v", "ValuePropSemFacts.v"]
PROPS = "props/C07.v"

# operators on which the two evaluators are known to disagree in this environment (reference evaluator = the corpus'
# expected outputs; onnxruntime differs): hypothesis A of value_equals_runtime fails for them
RANDOM_OPS = ("RandomNormal", "RandomUniform", "RandomNormalLike", "RandomUniformLike", "Multinomial", "Bernoulli", "Dropout")


def compare_runtime(expected, got, rtol=1e-5, atol=1e-6):
    """propagated value (ORT representation) vs onnxruntime's result; returns None or a description of the difference"""
    if isinstance(expected, list) or isinstance(got, list):
        if not (isinstance(expected, list) and isinstance(got, list)):
            return f"container: {type(expected).__name__} vs {type(got).__name__}"
        if len(expected) != len(got):
            return f"sequence length {len(expected)} vs {len(got)}"
        for k, (a, b) in enumerate(zip(expected, got)):
            d = compare_runtime(a, b, rtol, atol)
            if d:
                return f"element {k}: {d}"
        return None
    if expected is None or got is None:
        return None if expected is None and got is None else "None vs value"
    a, b = np.asarray(expected), np.asarray(got)
    if a.dtype.kind in "UO" or b.dtype.kind in "UO":
        a, b = a.astype(str), b.astype(str)
        if a.shape != b.shape:
            return f"shape {a.shape} vs {b.shape}"
        return None if np.array_equal(a, b) else "string values differ"
    if a.dtype != b.dtype:
        return f"dtype {a.dtype} vs {b.dtype}"
    if a.shape != b.shape:
        return f"shape {a.shape} vs {b.shape}"
    if a.dtype.kind in "fc":
        if a.dtype == np.float16:      # "within rounding": a few units in the last place of the 11-bit significand
            rtol, atol = max(rtol, 4e-3), max(atol, 4e-3)
        return None if np.allclose(a, b, rtol=rtol, atol=atol, equal_nan=True) else f"values differ (max abs {np.nanmax(np.abs(a - b)) if a.size else 0})"
    return None if np.array_equal(a, b) else "values differ"


class C07:
    def __init__(self, run: Run, world: World, ck: Checker):
        self.run, self.world, self.ck = run, world, ck
        self.stats = collections.Counter()
        self.hist_ops = collections.Counter()
        self.samples = []

    # -- A: runtime oracle -------------------------------------------------------------------------------
    def runtime_oracle(self, prog, run_, rng):
        import onnxruntime
        from spox import Sequence, Tensor

        w, env = self.world, run_["env"]
        ns = len(prog["sources"])
        owner = {}
        idx = ns
        for p, wd in enumerate(widths_of(w, prog)):
            for k in range(wd):
                owner[idx + k] = p
            idx += wd
        valued = []
        memo = {}

        def from_input(v):
            """does the Var depend on a model input (an Argument, with or without a default)?"""
            if id(v) in memo:
                return memo[id(v)]
            memo[id(v)] = False
            opn = v._op
            r = type(opn).__name__ == "Argument" or any(x is not None and from_input(x) for x in opn.inputs)
            if not r:
                # ... or through a control-flow body that closes over a model input (body-local arguments are not model inputs)
                from harness import buildlib as _B
                r = bool(_B.dependency_arguments([v]))
            memo[id(v)] = r
            return r

        for i, v in enumerate(env):
            if v is None or v._value is None:
                continue
            self.stats["valued_vars"] += 1
            if from_input(v):
                self.ck.impl_fail("C07/value-depends-on-model-input", "a Var that depends on a model input carries a propagated constant value",
                                  prog, run_["backend"], run_["plan"], owner.get(i), {"env_index": i, "type": str(v.type)})
                continue
            if v.type is None or not L.conforms(v.type, v._value):
                self.ck.impl_fail("C07/value-not-of-var-type", f"the propagated value of a Var does not conform to its reported type {v.type}",
                                  prog, run_["backend"], run_["plan"], owner.get(i), {"env_index": i, "type": str(v.type),
                                                                                     "value": L.refl_pval(v._value.value)})
                continue
            if isinstance(v.type, Tensor) and v.type.shape is not None:
                valued.append(i)
            elif isinstance(v.type, Sequence) and isinstance(v.type.elem_type, Tensor) and v.type.elem_type.shape is not None:
                valued.append(i)
            else:
                self.stats["valued_not_exposable"] += 1
        # constant-only Vars that carry NO value although they have a tensor type of known rank: their reported type (which may
        # have been inferred from a propagated operand value) is checked against what the model computes
        typed_only = [i for i, v in enumerate(env) if v is not None and v._value is None and isinstance(v.type, Tensor)
                      and v.type.shape is not None and not from_input(v)]
        if not valued and not typed_only:
            return
        arg_i = next(i for i, s in enumerate(prog["sources"]) if s["t"] == "arg")
        arg = env[arg_i]
        w.inj.arm(None)
        with warnings.catch_warnings():
            warnings.simplefilter("ignore")
            probe = w.op.neg(arg)
            try:
                model = w.spox.build({"x": arg}, {"probe": probe, **{f"v{i}": env[i] for i in valued}, **{f"t{i}": env[i] for i in typed_only}})
            except Exception as e:  # noqa: BLE001
                self.run.fail("corr", "C07/runtime-model-build", "could not build the model exposing the valued Vars",
                              {"exception": f"{type(e).__name__}: {str(e)[:300]}"})
                return
        so = onnxruntime.SessionOptions()
        so.log_severity_level = 3
        so.graph_optimization_level = onnxruntime.GraphOptimizationLevel.ORT_DISABLE_ALL
        try:
            sess = w.inj.real_ort(model.SerializeToString(), so)
        except Exception as e:  # noqa: BLE001
            self.stats["runtime_load_failed"] += 1
            self.run.notes.append(f"onnxruntime could not load an exposing model: {type(e).__name__}: {str(e)[:160]}")
            return
        names = [o.name for o in sess.get_outputs()]
        s = prog["sources"][arg_i]
        for _ in range(2):
            x = np.array([rng.uniform(-5, 5) for _ in range(int(np.prod(s["shape"])))], np.float32).reshape(s["shape"])
            try:
                got = dict(zip(names, sess.run(None, {"x": x})))
            except Exception as e:  # noqa: BLE001
                self.stats["runtime_run_failed"] += 1
                self.run.notes.append(f"onnxruntime failed to run an exposing model: {type(e).__name__}: {str(e)[:160]}")
                return
            for i in typed_only:
                self.stats["runtime_type_checks"] += 1
                g, t = got[f"t{i}"], env[i].type
                bad = None
                if not isinstance(g, np.ndarray):
                    bad = f"runtime value is a {type(g).__name__}"
                elif g.dtype != t.dtype and not (t.dtype.kind in "UO" and g.dtype.kind in "UO"):
                    bad = f"runtime dtype {g.dtype} != reported {t.dtype}"
                elif g.ndim != len(t.shape) or any(isinstance(r, int) and r != k for r, k in zip(t.shape, g.shape)):
                    bad = f"runtime shape {list(g.shape)} does not conform to the reported type {t}"
                if bad:
                    p = owner.get(i)
                    tname = prog["steps"][p]["t"] if p is not None else prog["sources"][i]["t"]
                    if tname == "linreg":
                        continue       # LinearRegressor's reported type is wrong whatever its inputs (known finding F6 of C06), not a value matter
                    self.ck.impl_fail(f"C07/type-from-value-unsound/{tname}",
                                      f"the type reported for an output of {tname} (a constant expression whose value was not kept) is contradicted by "
                                      f"what the built model computes: {bad}", prog, run_["backend"], run_["plan"], p, {"env_index": i, "problem": bad})
            for i in valued:
                self.stats["runtime_comparisons"] += 1
                d = compare_runtime(env[i]._get_value(), got[f"v{i}"])
                if d:
                    p = owner.get(i)
                    tname = prog["steps"][p]["t"] if p is not None else prog["sources"][i]["t"]
                    key = f"C07/value-differs-from-runtime/{tname}"
                    if tname == "inline_5_old_mixed":
                        key += "/" + run_["backend"]      # the two evaluators treat an opset-11 Softmax differently (known finding)
                    self.ck.impl_fail(key,
                                      f"the value propagated for an output of {tname} (backend {run_['backend']}) is not what onnxruntime "
                                      f"computes for that Var in the built model: {d}", prog, run_["backend"], run_["plan"], p,
                                      {"env_index": i, "difference": d, "propagated": str(env[i]._get_value())[:300],
                                       "runtime": str(got[f'v{i}'])[:300]})

    # -- unsafe_cast ---------------------------------------------------------------------------------------
    def cast_oracle(self, prog, run_):
        for p, (step, r) in enumerate(zip(prog["steps"], run_["recs"])):
            if not step["t"].startswith("unsafe_") or r["skipped"] or r["outs"] is None:
                continue
            x, y = run_["env"][step["args"][0]], r["outs"][0]
            self.stats["unsafe_casts"] += 1
            if (x._value is None) != (y._value is None) or (x._value is not None and not L.values_equal(x._value, y._value)):
                self.run.fail("corr", f"C07/unsafe-cast-copy/{step['t']}", "unsafe_cast does not carry the operand's value over unchanged "
                              "(the model copies it)", {"operand": str(x._value)[:200], "result": str(y._value)[:200]})

    # -- B: results go to the output that carries their name -------------------------------------------------------
    def right_output_oracle(self, prog, base):
        from spox._inline import _Inline

        w = self.world
        for p, r in enumerate(base["recs"]):
            if r["skipped"] or not r["calls"] or r["outs"] is None:
                continue
            n_out = len(r["node"].outputs.get_vars())
            modes = ["inputs", "inputs-only"] + (["reverse"] if n_out >= 2 else [])
            for mode in modes:
                fault = {"kind": "ret", "names": mode}
                fr = run_program(w, prog, base["backend"], {p: fault}, reuse=base)
                rec = fr["recs"][p]
                self.ck.check_step(prog, fr, p)
                self.stats["right_output_cases"] += 1
                if rec["outs"] is None or not rec["calls"]:
                    continue
                c = rec["calls"][-1]
                if c["names"] is None or c["outs"] is None:
                    continue
                handed = dict(zip(c["names"], c["outs"]))
                node = rec["node"]
                bvars = list(r["node"].outputs.get_vars().values())
                for k, (field, var) in enumerate(node.outputs.get_vars().items()):
                    name = node.graph.output[k].name if isinstance(node, _Inline) else field
                    if var._value is None:
                        continue
                    # the entry stored under this output's name is the evaluator's real result for it (the fault only adds
                    # entries under input names / changes the dictionary order), i.e. what the fault-free run attached
                    ok = name in handed and bvars[k]._value is not None and L.values_equal(var._value, bvars[k]._value)
                    if not ok:
                        self.ck.impl_fail(f"C07/wrong-output/{mode}",
                                          f"output {field} of {rec['t']} carries a value that is not the backend's entry for that output's "
                                          f"name (result dictionary keys: {list(handed)})", prog, base["backend"], {p: fault}, p,
                                          {"output": field, "attached": str(var._get_value())[:200],
                                           "entry_for_its_name": L.describe_payload(handed[name]) if name in handed else "<no entry>",
                                           "fault_free_value": str(bvars[k]._value)[:200]})

    # -- C: the node-test corpus -------------------------------------------------------------------------
    def corpus(self, modname, backend, quick, rng):
        import importlib

        import onnx
        from onnx import AttributeProto, helper, numpy_helper
        from onnx.backend.test.case.node import collect_testcases
        from spox import Type, _future
        from spox._utils import tensor_type_to_dtype

        mod = importlib.import_module(modname)
        st = collections.Counter()
        cases = [c for c in collect_testcases(None) if c.model is not None and len(c.model.graph.node) == 1 and c.data_sets]
        if quick:
            keep = [c for c in cases if c.model.graph.node[0].op_type in ("DFT", "STFT", "Resize", "TopK", "Split", "Unique")]
            rest = [c for c in cases if c not in keep]
            rng.shuffle(rest)
            cases = keep + rest[:500]
        with _future.value_prop_backend(getattr(_future.ValuePropBackend, backend)), warnings.catch_warnings():
            warnings.simplefilter("ignore")
            for c in cases:
                m = c.model
                n = m.graph.node[0]
                if n.domain not in ("", "ai.onnx") or n.op_type not in mod._OPERATORS:
                    continue
                cls = mod._OPERATORS[n.op_type]
                v = [o.version for o in m.opset_import if o.domain in ("", "ai.onnx")][0]
                try:
                    s = onnx.defs.get_schema(n.op_type, v, "")
                except Exception:  # noqa: BLE001
                    continue
                if s.since_version != cls.op_type.version:
                    continue
                if any(a.type in (AttributeProto.GRAPH, AttributeProto.GRAPHS) for a in n.attribute):
                    continue
                if n.op_type in RANDOM_OPS:
                    continue
                ins, exp = c.data_sets[0]
                if not all(isinstance(x, np.ndarray) for x in list(ins) + list(exp)):
                    st["skip-nontensor"] += 1
                    continue
                if any(x.dtype == object or x.dtype.kind in "USc" or x.dtype.itemsize < 1 or "float8" in str(x.dtype)
                       or "int4" in str(x.dtype) or "bfloat" in str(x.dtype) for x in list(ins) + list(exp)):
                    st["skip-dtype"] += 1
                    continue
                con = mod._CONSTRUCTORS[n.op_type]
                sig = inspect.signature(con)
                names = list(n.input)
                if len([x for x in names if x]) != len(ins):
                    st["skip-arity"] += 1
                    continue
                try:
                    vars_ = {k: mod.const(vv) for k, vv in zip([x for x in names if x], ins)}
                except Exception:  # noqa: BLE001
                    st["skip-const"] += 1
                    continue
                kw = {}
                fields = list(cls.Inputs.__dataclass_fields__)
                kinds = [cls.Inputs._get_field_type(f).name for f in cls.Inputs.__dataclass_fields__.values()]
                pos = 0
                for f, k in zip(fields, kinds):
                    if k == "VARIADIC":
                        kw[f] = [vars_[x] for x in names[pos:]]
                        pos = len(names)
                    else:
                        x = names[pos] if pos < len(names) else ""
                        pos += 1
                        kw[f] = vars_[x] if x else None
                        if k == "SINGLE" and not x:
                            kw = None
                            break
                if kw is None:
                    continue
                for a in n.attribute:
                    val = helper.get_attribute_value(a)
                    p = sig.parameters.get(a.name)
                    if p is None:
                        continue
                    if a.type == AttributeProto.TENSOR:
                        val = numpy_helper.to_array(val)
                    elif a.type == AttributeProto.STRING:
                        val = val.decode()
                    elif a.type == AttributeProto.STRINGS:
                        val = [x.decode() for x in val]
                    elif "DTypeLike" in str(p.annotation):
                        val = tensor_type_to_dtype(val)
                    elif a.type == AttributeProto.TYPE_PROTO:
                        val = Type._from_onnx(val)
                    kw[a.name] = val
                if "outputs_count" in sig.parameters:
                    kw["outputs_count"] = len(n.output)
                try:
                    out = con(**kw)
                except Exception:  # noqa: BLE001
                    st["ctor-raise"] += 1
                    continue
                outs = list(out) if isinstance(out, (tuple, list)) else [out]
                st["cases"] += 1
                self.hist_ops[n.op_type] += 1
                for k, (o, e) in enumerate(zip(outs, exp)):
                    if o._value is None:
                        st["no-value"] += 1
                        continue
                    if not L.conforms(o.type, o._value):
                        self.run.fail("impl", f"C07/value-not-of-var-type/corpus/{n.op_type}",
                                      f"corpus case {c.name}: the propagated value of output {k} does not conform to the reported type",
                                      {"case": c.name, "module": modname, "backend": backend, "type": str(o.type)})
                        continue
                    gv = o._get_value()
                    if not isinstance(gv, np.ndarray):
                        st["nonarray"] += 1
                        continue
                    good = gv.dtype == e.dtype and gv.shape == e.shape and np.allclose(
                        gv.astype(np.float64), e.astype(np.float64), rtol=max(c.rtol, 1e-3), atol=max(c.atol, 1e-5), equal_nan=True)
                    if good:
                        st["value-ok"] += 1
                        continue
                    st["value-diff"] += 1
                    detail = {"case": c.name, "module": modname, "backend": backend, "output": k,
                              "propagated": {"dtype": str(gv.dtype), "shape": list(gv.shape)},
                              "expected": {"dtype": str(e.dtype), "shape": list(e.shape)},
                              "max_abs_diff": float(np.nanmax(np.abs(gv.astype(np.float64) - e.astype(np.float64))))
                              if gv.shape == e.shape and gv.size else None,
                              "how_to_replay": "harness/c07.py C07.corpus: the node of the named ONNX node test is constructed through the "
                                               "named opset module with all inputs as constants under the named backend"}
                    if backend == "ONNXRUNTIME":
                        self.run.fail("impl", f"C07/backend-disagreement/{n.op_type}",
                                      f"{n.op_type}: the value propagated under backend ONNXRUNTIME differs from the ONNX node test's expected "
                                      f"output (which the REFERENCE backend reproduces): the two evaluators disagree ({c.name})", detail)
                    else:
                        self.run.fail("impl", f"C07/corpus-value-mismatch/{backend}/{n.op_type}",
                                      f"{n.op_type}: the propagated value differs from the ONNX node test's expected output ({c.name})", detail)
        return dict(st)


def gen_c07_program(rng, tmpl):
    prog = L.gen_program(rng, tmpl, n_steps=rng.randrange(8, 16), p_const=0.9)
    return prog


def corpus_program():
    src = [
        {"t": "arg", "kind": "F23", "dtype": L.F32, "shape": [2, 3]},
        {"t": "const", "kind": "F6", "dtype": L.F32, "shape": [6], "value": [1, 2, 3, 4, 5, 6]},
        {"t": "const", "kind": "F6", "dtype": L.F32, "shape": [6], "value": [6, 5.5, 4, 3, 2, 1]},
        {"t": "const", "kind": "F23", "dtype": L.F32, "shape": [2, 3], "value": [1, 2, 3, 4, 5, 6]},
        {"t": "const", "kind": "K1", "dtype": L.I64, "shape": [1], "value": [2]},
        {"t": "const", "kind": "I3", "dtype": L.I64, "shape": [3], "value": [2, 2, 1]},
        {"t": "const", "kind": "ONE2", "dtype": L.I64, "shape": [2], "value": [1, 1]},
        {"t": "const", "kind": "AX", "dtype": L.I64, "shape": [1], "value": [1]},
        {"t": "const", "kind": "TWO1", "dtype": L.I64, "shape": [1], "value": [2]},
        {"t": "const", "kind": "S0", "dtype": L.I64, "shape": [], "value": [1]},
    ]
    steps = [
        {"t": "top_k6", "args": [1, 4]},            # 10 11
        {"t": "split2", "args": [2]},               # 12 13
        {"t": "unique", "args": [5]},               # 14..17
        {"t": "inline_1", "args": [3]},             # 18 19
        {"t": "inline_3", "args": [1, 2]},          # 20 21
        {"t": "c_value_ints_sh", "args": []},       # 22
        {"t": "mul_SH2", "args": [22, 6]},          # 23
        {"t": "reshape_to2d", "args": [1, 23]},     # 24
        {"t": "c_value_floats", "args": []},        # 25
        {"t": "tile", "args": [25, 8]},             # 26
        {"t": "slice", "args": [26, 7, 4]},         # 27
        {"t": "unsafe_cast_F6", "args": [26]},      # 28
        {"t": "seq_construct", "args": [1, 2]},     # 29
        {"t": "seq_at", "args": [29, 9]},           # 30
        # a SECOND and a THIRD constant sequence of the same type: what was computed for one must not be handed out for another
        {"t": "seq_construct", "args": [2, 1]},     # 31
        {"t": "seq_at", "args": [31, 9]},           # 32
        {"t": "seq_length", "args": [29]},          # 33
        {"t": "seq_insert", "args": [29, 1]},       # 34
        {"t": "seq_length", "args": [34]},          # 35
        {"t": "concat_from_seq", "args": [29]},     # 36
        {"t": "concat_from_seq", "args": [31]},     # 37
        {"t": "concat_from_seq", "args": [34]},     # 38
        {"t": "c_value_string", "args": []},
        {"t": "c_value_strings", "args": []},
        {"t": "c_value_float", "args": []},
        {"t": "c_value_int", "args": []},
        {"t": "c_value_longlong", "args": []},
        {"t": "init_str", "args": []},
        {"t": "linreg", "args": [3]},
    ]
    return {"sources": src, "steps": steps}


def corpus_program_big():
    """Two constants of MORE THAN 1000 elements that differ only in the middle (numpy abbreviates the text of such arrays), put through
    the same operators: what was computed for one must not be handed out for the other."""
    a = [float(i % 7) for i in range(1001)]
    b = list(a)
    b[500] = 42.0
    src = [{"t": "arg", "kind": "F23", "dtype": L.F32, "shape": [2, 3]},
           {"t": "const", "kind": "FV", "dtype": L.F32, "shape": [1001], "value": a},
           {"t": "const", "kind": "FV", "dtype": L.F32, "shape": [1001], "value": b}]
    steps = [{"t": "neg_FV", "args": [1]}, {"t": "neg_FV", "args": [2]}, {"t": "abs_FV", "args": [2]}, {"t": "abs_FV", "args": [1]},
             {"t": "identity_FV", "args": [2]}, {"t": "identity_FV", "args": [1]}]
    return {"sources": src, "steps": steps}


def run(run: Run) -> int:
    run.check_theorems(PROPS, CONE, thorough_coqchk=(run.tier == "thorough"))
    quick = run.tier == "quick"
    rng = run.rng
    world = World()
    ck = Checker(run, world, pfx="C07", report_raises=False)
    c7 = C07(run, world, ck)
    n_prog = 30 if quick else 900
    corpus_stats = {}
    try:
        progs = [corpus_program(), corpus_program_big()] + [gen_c07_program(rng, world.tmpl) for _ in range(n_prog)]
        for prog in progs:
            ck.bump("steps_per_program", str(len(prog["steps"])))
            for backend in BACKENDS:
                ck.bump("backends", backend)
                base = run_program(world, prog, backend)
                for p in range(len(prog["steps"])):
                    ck.check_step(prog, base, p)
                c7.cast_oracle(prog, base)
                c7.runtime_oracle(prog, base, rng)
                c7.right_output_oracle(prog, base)
        n_expr, mism = ck.compare_with_model()
        world.inj.uninstall()
        for modname, backend in (("spox.opset.ai.onnx.v21", "REFERENCE"), ("spox.opset.ai.onnx.v21", "ONNXRUNTIME"),
                                 ("spox.opset.ai.onnx.v17", "REFERENCE")) + (() if quick else (("spox.opset.ai.onnx.v17", "ONNXRUNTIME"),)):
            corpus_stats[f"{modname.split('.')[-1]}/{backend}"] = c7.corpus(modname, backend, quick, rng)
    finally:
        world.close()
    n_corpus_values = sum(v.get("value-ok", 0) + v.get("value-diff", 0) for v in corpus_stats.values())
    cov = {
        "evaluations": len(ck.cases) + n_corpus_values,
        "distinct_model_evaluations": n_expr,
        "distinct_nontrivial": len({(c[3]["template"], c[3]["backend"], c[1]) for c in ck.cases if c[3]["n_calls"]}),
        "rule": "node constructions whose operands are all constants (an evaluator was invoked), distinct by (operator template, "
                "backend, observed types/values); plus one evaluation per compared output of a replayed ONNX node test",
        "traces_validated_against_impl": len(ck.cases) - mism,
        "disagreements_checked": mism,
        "programs": len(progs), "node_constructions_checked": ck.n_exec,
        "valued_vars": c7.stats["valued_vars"], "runtime_comparisons": c7.stats["runtime_comparisons"],
        "right_output_fault_cases": c7.stats["right_output_cases"], "unsafe_casts": c7.stats["unsafe_casts"],
        "other_counts": dict(c7.stats), "constructions_that_raised": ck.n_raises,
        "corpus": corpus_stats,
        "input_distribution": dict(ck.hist, corpus_operators=dict(c7.hist_ops.most_common(40))),
        "samples": ck.samples,
    }
    return run.finish(cov, [
        "value_equals_runtime is proved under the Section hypothesis that the backend agrees with the operator semantics on constant "
        "inputs; the harness tests that hypothesis (runtime oracle, corpus) and reports the operators for which it fails",
        "onnxruntime with graph optimisations disabled is the run-time meaning of a built model",
        "ONNX shape inference (the typing step) is taken as given: the model receives the types inferred with propagation off",
    ])


def replay(run: Run, case) -> int:
    d = case["detail"]
    world = World()
    bad = False
    try:
        if "case" in d and "module" in d:
            world.inj.uninstall()
            c7 = C07(run, world, Checker(run, world, pfx="C07", report_raises=False))
            print(c7.corpus(d["module"], d["backend"], False, run.rng))
        else:
            prog = d["program"]
            plan = {int(k): v for k, v in d.get("plan", {}).items()}
            ck = Checker(run, world, pfx="C07", report_raises=False)
            c7 = C07(run, world, ck)
            base = run_program(world, prog, d["backend"])
            for p in range(len(prog["steps"])):
                ck.check_step(prog, base, p)
            c7.cast_oracle(prog, base)
            c7.runtime_oracle(prog, base, run.rng)
            c7.right_output_oracle(prog, base)
            ck.compare_with_model()
        for f in run.failures:
            print(f"  {f.kind}: {f.key}: {f.what}")
        bad = any(f.key == case["key"] for f in run.failures) or bool(run.failures)
    finally:
        world.close()
    if bad:
        print(f"VIOLATION property=C07 replay={run.pid}")
    return 1 if bad else 0
