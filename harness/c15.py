"""C15 — value propagation is fail-safe under backend faults.

Model: coq/ValueProp.v (``construct``), theorems: coq/props/C15.v.

Correspondence: generated straight-line programs over constants and arguments (one constructor call per step) are
executed against the real spox while ``onnx.reference.ReferenceEvaluator`` / ``onnxruntime.InferenceSession`` are
replaced by wrappers that run the real evaluator and then misbehave (fault injection below spox, no repo hook); each
executed step is also run through the model (``construct cfg_fixed backend node backend_result`` by vm_compute) and
outcome class, output types, presence and structure of every ``Var._value`` and the number of "does not type-check"
warnings are compared.

Direct oracle (implementation alone): the constructor must not raise; every attached ``_value`` must satisfy the
independent conformance check ``c15_lib.conforms``; the types of the faulted node equal the fault-free ones, the types
downstream are equal or more permissive and values downstream are absent or identical; the program built with
propagation (fault-free and faulty) and without (backend NONE) yields structurally identical models and identical
onnxruntime results on random inputs.
"""

from __future__ import annotations

import json
import re
import warnings

import numpy as np

from harness import c15_lib as L
from harness.common import Run, coq_list, coq_str

CONE = ["ValueProp.v", "ValuePropFacts.v", "ValuePropProg.v", "ValuePropProgFacts.v"]
PROPS = "props/C15.v"
BACKENDS = ["REFERENCE", "ONNXRUNTIME"]
BK_TERM = {"NONE": "BNone", "REFERENCE": "BRef", "ONNXRUNTIME": "BOrt"}


def cfg_term(strict):
    return f"(mkCfg true true true {'true' if strict else 'false'})"


# ------------------------------------------------------------------------------------------------ the world


class World:
    def __init__(self):
        import spox
        import spox._future as F
        import spox._value_prop as VP
        import spox.opset.ai.onnx.v17 as op
        from spox import Tensor
        from spox._exceptions import InferenceWarning

        self.spox, self.F, self.VP, self.op, self.Tensor = spox, F, VP, op, Tensor
        self.InferenceWarning = InferenceWarning
        self.inj = L.Injector()
        self.inj.install()
        self.tmpl = L.templates(op, spox)
        # build the inlined models before any fault is armed
        L.inline_model_1(op, spox)
        L.inline_model_2(op, spox)
        L.inline_model_3(op, spox)
        self.default_backend = VP._VALUE_PROP_BACKEND

    def close(self):
        self.inj.uninstall()
        self.VP._VALUE_PROP_BACKEND = self.default_backend
        self.VP.VALUE_PROP_STRICT_CHECK = False

    def backend(self, name):
        return self.F.value_prop_backend(getattr(self.F.ValuePropBackend, name))

    def sources(self, prog, backend):
        env = []
        self.inj.arm(None)
        with self.backend(backend), warnings.catch_warnings():
            warnings.simplefilter("ignore")
            for s in prog["sources"]:
                if s["t"] == "arg":
                    env.append(self.spox.argument(self.Tensor(np.dtype(s["dtype"]), tuple(s["shape"]))))
                elif s["t"] == "argdef":
                    # a model input WITH A DEFAULT (graph input backed by an initializer): still an input, its value is not a constant
                    from spox._graph import arguments as _arguments
                    arr = np.array(s["value"], dtype=s["dtype"]).reshape(s["shape"])
                    env.append(_arguments(**{f"dflt{len(env)}": arr})[0])
                else:
                    arr = np.array(s["value"], dtype=s["dtype"]).reshape(s["shape"])
                    env.append(self.op.const(arr) if s["t"] == "const" else self.F.initializer(arr))
        return env

    # -- one step ------------------------------------------------------------------------------------
    def exec_step(self, step, env, backend, fault=None, strict=False, typing=True):
        """Construct the operator of ``step`` on the Vars ``env[args]``.  Returns a record (dict)."""
        ins = [env[i] for i in step["args"]]
        rec = {"t": step["t"], "skipped": False, "fault": fault, "backend": backend, "strict": strict}
        if any(v is None for v in ins):
            rec["skipped"] = True
            rec["outs"] = None
            return rec
        fn = self.tmpl[step["t"]][2]
        tnode, none_exc = None, None
        if typing:
            # the typing step alone: same input Vars, propagation switched off
            self.inj.arm(None)
            try:
                with self.backend("NONE"), warnings.catch_warnings():
                    warnings.simplefilter("ignore")
                    touts = fn(ins, None)
                tnode = touts[0]._op
                rec["none_calls"] = len(self.inj.calls)
            except Exception as e:  # noqa: BLE001
                none_exc = e
        rec["tnode"], rec["none_exc"] = tnode, none_exc
        in_names = input_names(tnode) if tnode is not None else []
        self.inj.arm(fault, in_names)
        self.VP.VALUE_PROP_STRICT_CHECK = bool(strict)
        outs, exc = None, None
        try:
            with self.backend(backend), warnings.catch_warnings(record=True) as w:
                warnings.simplefilter("always")
                outs = fn(ins, None)
        except Exception as e:  # noqa: BLE001
            exc = e
        finally:
            self.VP.VALUE_PROP_STRICT_CHECK = False
        rec["calls"] = self.inj.calls
        self.inj.arm(None)
        rec["outs"], rec["exc"] = outs, exc
        rec["node"] = outs[0]._op if outs else None
        rec["typecheck_warnings"] = sum(
            1 for m in w if isinstance(m.message, self.InferenceWarning) and "does not type-check" in str(m.message))
        return rec


def input_names(node):
    seen, names = [], []
    for key, var in node.inputs.get_vars().items():
        if not any(var is s for s in seen):
            seen.append(var)
            names.append(key)
    return names


# ------------------------------------------------------------------------------------------------ model terms


def node_term(node, tnode):
    """Gallina ``node`` for a constructed spox Node (``tnode`` = the same call constructed with propagation off:
    source of the inferred output types)."""
    from spox._inline import _Inline
    from spox._internal_op import _Initializer
    from spox._standard import StandardNode

    n = node if node is not None else tnode
    if isinstance(n, _Inline):
        kind = "KInline"
    elif isinstance(n, StandardNode) and n.op_type.identifier != "Constant":
        kind = "KStandard"
    elif isinstance(n, _Initializer):
        arr = n.attrs.value.value
        kind = f"(KSource (Some (VArr {L.elem_tag(arr.dtype, arr)} {L.nat_list(arr.shape)})))"
    elif n.op_type.identifier == "Constant":
        kind = f"(KSource (constant_value {constant_attr_term(n)}))"
    else:
        kind = "KPlain"
    seen, ins = [], []
    for key, var in n.inputs.get_vars().items():
        if any(var is s for s in seen):
            continue
        seen.append(var)
        which = var._which_output
        ins.append(f"mkIn {coq_str(key)} {L.paren(L.some(L.refl_type(var.type)))} {'true' if var._value is not None else 'false'} "
                   f"{'None' if which is None else '(Some ' + coq_str(which) + ')'}")
    sub = next(iter(n.subgraphs), None) is not None
    outs = []
    tvars = tnode.outputs.get_vars() if tnode is not None else {}
    for k, (key, var) in enumerate(n.outputs.get_vars().items()):
        bname = n.graph.output[k].name if isinstance(n, _Inline) else key
        t = tvars[key].type if key in tvars else var.type
        outs.append(f"mkOut {coq_str(key)} {coq_str(bname)} {L.paren(L.some(L.refl_type(t)))} None None")
    return f"(mkNode {kind} {coq_list(ins)} {'true' if sub else 'false'} {coq_list(outs)})"


def constant_attr_term(n):
    """Gallina ``cattr`` of a Constant node (which attribute is set, and its size)."""
    (key, raw), = ((k, v.value) for k, v in n.attrs.get_fields().items() if v is not None)
    if key == "value":
        return f"(AValue {L.elem_tag(raw.dtype, raw)} {L.nat_list(raw.shape)})"
    if key in ("value_float", "value_int", "value_string"):
        return {"value_float": "AFloat", "value_int": "AInt", "value_string": "AString"}[key]
    if key in ("value_floats", "value_ints", "value_strings"):
        return "(%s %d)" % ({"value_floats": "AFloats", "value_ints": "AInts", "value_strings": "AStrings"}[key], len(list(raw)))
    return "ASparse"


EXN_OF = [
    (TypeError, "Cannot unwrap requested Sequence", "TypeError_unwrap_sequence"),
    (TypeError, "No handler for ORT value", "TypeError_no_handler"),
    (TypeError, "as it is unknown", "TypeError_unknown_type"),
    (KeyError, "", "KeyError_name"),
    (ValueError, "Attempt to construct PropValue", "ValueError_strict"),
    (RuntimeError, "Not a valid value propagation backend", "RuntimeError_backend"),
    (ValueError, "", "NumpyError"),
]
MECHANISM = {
    "TypeError_unwrap_sequence": "list-for-tensor",
    "TypeError_no_handler": "no-handler-ort",
    "TypeError_unknown_type": "untyped-output",
    "KeyError_name": "unknown-output-name",
    "NumpyError": "numpy-conversion",
    "RuntimeError_backend": "inline-none-backend",
    "ValueError_strict": "strict-check",
}


def classify_exc(e):
    for cls, sub, name in EXN_OF:
        if isinstance(e, cls) and sub in str(e):
            return name
    return "Other_" + type(e).__name__


def render_impl(rec):
    """Canonical rendering of what the implementation did at a step (same shape as the model's printed result,
    without the per-output warning flags)."""
    if rec["exc"] is not None:
        return "Err" + classify_exc(rec["exc"])
    items = []
    for key, var in rec["node"].outputs.get_vars().items():
        v = None if var._value is None else L.refl_pval(var._value.value)
        items.append(f"({coq_str(key)},{L.some(L.refl_type(var.type))},{L.some(v)})")
    return ("Ok[" + ";".join(items) + "]").replace(" ", "")


def render_model(term):
    s = term.replace(" ", "").replace("%string", "")
    n_warn = len(re.findall(r",true\)", s))
    s = re.sub(r",(true|false)\)", ")", s)
    return s, n_warn


# ------------------------------------------------------------------------------------------------ running programs


def widths_of(world, prog):
    return [len(world.tmpl[s["t"]][1]) for s in prog["steps"]]


def run_program(world, prog, backend, plan=None, reuse=None, strict=False, typing=True):
    """Execute the program; ``plan``: {step index: fault}.  With ``reuse`` (a fault-free run of the same program on the
    same sources) only the faulted steps and the steps depending on them are re-executed."""
    plan = plan or {}
    ns = len(prog["sources"])
    if reuse is not None:
        env = list(reuse["env"][:ns])
    else:
        env = world.sources(prog, backend)
    recs, dirty, executed = [], set(), set()
    for p, step in enumerate(prog["steps"]):
        w = len(world.tmpl[step["t"]][1])
        is_dirty = p in plan or any(a in dirty for a in step["args"])
        if reuse is not None and not is_dirty:
            r = reuse["recs"][p]
            recs.append(r)
            outs = r["outs"]
        else:
            r = world.exec_step(step, env, backend, plan.get(p), strict=strict and p in plan, typing=typing)
            r = dict(r, pos=p)
            executed.add(p)
            recs.append(r)
            outs = r["outs"]
            for k in range(w):
                dirty.add(len(env) + k)
        if outs is None:
            env.extend([None] * w)
        else:
            outs = list(outs)
            assert len(outs) == w, (step, len(outs), w)
            env.extend(outs)
    return {"env": env, "recs": recs, "dirty": dirty, "plan": plan, "backend": backend, "executed": executed}


def built_models(world, prog, run_, out_idx):
    """Build the program with the Vars of ``run_``: inputs = all arguments, outputs = env[out_idx]."""
    ns = len(prog["sources"])
    ins = {f"in{i}": run_["env"][i] for i, s in enumerate(prog["sources"]) if s["t"] in ("arg", "argdef")}
    outs = {f"out{i}": run_["env"][i] for i in out_idx}
    world.inj.arm(None)
    with warnings.catch_warnings():
        warnings.simplefilter("ignore")
        return world.spox.build(ins, outs)


def strip_types(model):
    """The model without the (precision of the) reported types: nodes, names, initializers, opset imports, names of
    inputs/outputs – in the main graph and in every subgraph."""
    import onnx

    def strip_graph(g):
        del g.value_info[:]
        for vi in list(g.output) + list(g.input):
            vi.ClearField("type")
        for n in g.node:
            for a in n.attribute:
                if a.type == onnx.AttributeProto.GRAPH:
                    strip_graph(a.g)
                elif a.type == onnx.AttributeProto.GRAPHS:
                    for sg in a.graphs:
                        strip_graph(sg)

    m = onnx.ModelProto()
    m.CopyFrom(model)
    strip_graph(m.graph)
    return m.SerializeToString(deterministic=True)


def ort_run(world, model, feed):
    import onnxruntime

    so = onnxruntime.SessionOptions()
    so.log_severity_level = 3
    sess = world.inj.real_ort(model.SerializeToString(), so)
    return dict(zip([o.name for o in sess.get_outputs()], sess.run(None, feed)))


def gen_feed(rng, prog):
    feed = {}
    for i, s in enumerate(prog["sources"]):
        if s["t"] == "argdef":
            feed[f"in{i}"] = np.array(s["value"], dtype=s["dtype"]).reshape(s["shape"])     # fed with its default (shapes stay valid)
        if s["t"] == "arg":
            n = int(np.prod(s["shape"]))
            if s["dtype"] == L.F32:
                feed[f"in{i}"] = np.array([rng.uniform(-5, 5) for _ in range(n)], np.float32).reshape(s["shape"])
            else:
                feed[f"in{i}"] = np.array([rng.randrange(0, 5) for _ in range(n)], np.int64).reshape(s["shape"])
    return feed


# ------------------------------------------------------------------------------------------------ the check


class _Failure:
    def __init__(self, kind, key):
        self.kind, self.key = kind, key


class _Collector:
    """stand-in for Run while a failing case is being minimised"""

    def __init__(self, rng):
        self.failures, self.rng = [], rng

    def fail(self, kind, key, what, detail=None):
        self.failures.append(_Failure(kind, key))


class Checker:
    def __init__(self, run, world: World, pfx="C15", report_raises=True):
        self.run, self.world, self.pfx, self.report_raises = run, world, pfx, report_raises
        self.n_raises = 0
        self.minimising = isinstance(run, _Collector)
        self.cases = []          # (expr, impl_render, n_warn_impl, info) for the correspondence
        self.hist = {"templates": {}, "faults": {}, "fault_kinds": {}, "outcomes": {}, "backends": {}, "steps_per_program": {},
                     "calls_at_step": {}, "output_kinds": {}}
        self.n_exec = 0
        self.n_fault_runs = 0
        self.n_builds = 0
        self.n_ort_compared = 0
        self.distinct = set()
        self.impl_failed_cases = set()
        self.samples = []

    def bump(self, h, k):
        self.hist[h][k] = self.hist[h].get(k, 0) + 1

    # -- failures ------------------------------------------------------------------------------------
    def reproduces(self, prog, backend, plan, key, strict):
        col = _Collector(self.run.rng)
        ck = Checker(col, self.world, self.pfx, self.report_raises)
        try:
            if backend == "NONE":
                ck.check_none_run(prog, run_program(self.world, prog, "NONE", typing=False))
            else:
                base = run_program(self.world, prog, backend)
                if not plan:
                    for p in sorted(base["executed"]):
                        ck.check_step(prog, base, p)
                else:
                    fr = run_program(self.world, prog, backend, plan, reuse=base, strict=strict)
                    tainted = ck.is_tainted(base, fr)
                    for p in sorted(fr["executed"]):
                        ck.check_step(prog, fr, p, tainted)
                    if not strict:
                        ck.check_downstream(prog, base, fr)
        except Exception:  # noqa: BLE001
            return False
        return any(f.key == key and f.kind == "impl" for f in col.failures)

    def impl_fail(self, key, what, prog, backend, plan, pos, extra=None, strict=False):
        if any(f.key == key and f.kind == "impl" for f in self.run.failures):
            return
        if self.minimising:
            self.run.fail("impl", key, what)
            return
        small, splan, spos = prog, plan, pos
        if prog is None:
            self.run.fail("impl", key, what, {"backend": backend, "plan": {str(k): v for k, v in plan.items()}, "observed": extra})
            return
        if pos is not None:
            try:
                p2 = dict(prog, widths=widths_of(self.world, prog))
                cand, cpos = L.slice_program(p2, pos)
                cand = {"sources": cand["sources"], "steps": cand["steps"]}
                cplan = {cpos: plan[pos]} if pos in plan else {}
                if self.reproduces(cand, backend, cplan, key, strict):
                    small, splan, spos = cand, cplan, cpos
            except Exception:  # noqa: BLE001
                pass
        self.run.fail("impl", key, what, {
            "program": {"sources": small["sources"], "steps": small["steps"]}, "backend": backend,
            "plan": {str(k): v for k, v in splan.items()}, "position": spos, "strict": strict, "observed": extra,
            "minimised": small is not prog,
            "how_to_read": "sources = arguments/constants/initializers (env entries 0..); each step applies template t "
                           "(harness/c15_lib.py templates) to env[args] and appends its outputs to env; plan maps a step "
                           "index to the fault injected into the backend while that step is constructed",
        })

    def check_none_run(self, prog, none):
        for p, r in enumerate(none["recs"]):
            if r["skipped"]:
                continue
            if r["exc"] is not None:
                cls = classify_exc(r["exc"])
                self.impl_fail(f"{self.pfx}/constructor-raises/{MECHANISM.get(cls, cls)}",
                               f"constructing {r['t']} with value propagation switched off (backend NONE) raises "
                               f"{type(r['exc']).__name__}", prog, "NONE", {}, p,
                               {"exception": f"{type(r['exc']).__name__}: {str(r['exc'])[:200]}"})
            elif r["calls"]:
                self.run.fail("corr", self.pfx + "/backend-called-under-NONE", "an evaluator was invoked although the backend is NONE",
                              {"template": r["t"]})
            elif r["node"].op_type.identifier not in ("Constant", "Initializer", "Introduce") and any(
                    v._value is not None for v in r["node"].outputs.get_vars().values()):
                self.run.fail("corr", self.pfx + "/value-under-NONE", "an operator output carries a value although the backend is NONE",
                              {"template": r["t"]})

    # -- per step oracles + correspondence case -----------------------------------------------------------
    def is_tainted(self, base, run_):
        """some faulted step attached a value that differs from the fault-free one: a payload that conforms to the type but
        carries other values – not detectable by spox, hence outside the theorem's hypothesis"""
        for p in run_["plan"]:
            rb, rc = base["recs"][p], run_["recs"][p]
            if rc["outs"] is None or rb["outs"] is None:
                continue
            for vb, vc in zip(rb["outs"], rc["outs"]):
                if vc._value is not None and (vb._value is None or not L.values_equal(vc._value, vb._value)):
                    f = run_["plan"][p]
                    if f.get("payload") in ("wrong-dtype", "wrong-dtype-other-values") and set(f) <= {"kind", "payload", "idx"} and vb._value is not None:
                        # (only where the fault-free result was attached: then the real result has the inferred element type, so the
                        # payload - another element type - certainly does not conform; where the REAL result is itself of another type,
                        # e.g. the float64 Mean of LayerNormalization, the "wrong" type may happen to be the right one)
                        # the backend's result had ANOTHER element type than the inferred one - detectable, so nothing may be attached;
                        # here something was (coerced?), and it is not the fault-free value
                        self.impl_fail(self.pfx + "/nonconforming-result-accepted",
                                       f"the backend returned a result of the wrong element type for {rc['t']} and a value was attached "
                                       f"all the same: {str(vc._value)[:80]} (fault-free: {str(vb._value)[:80]})", None, run_["backend"],
                                       run_["plan"], None, {"step": p, "fault": f})
                    return True
        return False

    def check_step(self, prog, run_, p, tainted=False):
        r = run_["recs"][p]
        if tainted and p not in run_["plan"] and r.get("exc") is not None:
            self.n_tainted_skips = getattr(self, "n_tainted_skips", 0) + 1
            return  # e.g. ONNX inference rejects a downstream node fed with the wrong (but well-typed) constant
        if r["skipped"] or p not in run_["executed"]:
            return
        self.n_exec += 1
        backend, fault, strict = r["backend"], r["fault"], r["strict"]
        lab = L.fault_label(fault)
        self.bump("templates", r["t"])
        self.bump("faults", lab)
        case_id = (id(prog), backend, p, lab, strict)
        plan = run_["plan"]
        # 1. constructor must not raise (strict mode raises by design and is only compared with the model)
        if (r["exc"] is not None or r["none_exc"] is not None) and not self.report_raises:
            self.n_raises += 1          # C07: a construction that raises produces no Var; that is C15's business
            self.impl_failed_cases.add(case_id)
        elif r["exc"] is not None and not strict:
            cls = classify_exc(r["exc"])
            mech = MECHANISM.get(cls)
            if mech is None:
                if r["calls"] and r["calls"][-1]["raised"] and not str(r["calls"][-1]["raised"]).startswith("natural"):
                    mech = "backend-exception-escapes"
                else:
                    mech = cls
            self.impl_failed_cases.add(case_id)
            self.impl_fail(f"{self.pfx}/constructor-raises/{mech}",
                           f"constructing {r['t']} raises {type(r['exc']).__name__} although only the value-propagation "
                           f"backend misbehaved ({lab}; backend {backend})", prog, backend, plan, p,
                           {"exception": f"{type(r['exc']).__name__}: {str(r['exc'])[:200]}", "fault": fault})
        if r["none_exc"] is not None and self.report_raises:
            cls = classify_exc(r["none_exc"])
            self.impl_fail(f"{self.pfx}/constructor-raises/{MECHANISM.get(cls, cls)}",
                           f"constructing {r['t']} with value propagation switched off (backend NONE) raises "
                           f"{type(r['none_exc']).__name__}", prog, "NONE", {}, p,
                           {"exception": f"{type(r['none_exc']).__name__}: {str(r['none_exc'])[:200]}"})
        # 2. attached values conform (independent check)
        if r["outs"] is not None:
            for key, var in r["node"].outputs.get_vars().items():
                if var._value is None:
                    continue
                if var.type is None:
                    self.impl_failed_cases.add(case_id)
                    self.impl_fail(self.pfx + "/nonconforming-attached/untyped", "a value is attached to a Var of unknown type",
                                   prog, backend, plan, p, {"output": key})
                elif not L.conforms(var.type, var._value):
                    from spox import Optional, Sequence

                    mech = ("sequence-elements" if isinstance(var.type, Sequence) else
                            "optional-payload" if isinstance(var.type, Optional) else
                            "object-array-for-string" if np.dtype(var.type.dtype).kind == "U" else "tensor")
                    self.impl_failed_cases.add(case_id)
                    self.impl_fail(f"{self.pfx}/nonconforming-attached/{mech}",
                                   f"a value that does not conform to the reported type {var.type} stays attached to output "
                                   f"{key} of {r['t']} ({lab}; backend {backend})", prog, backend, plan, p,
                                   {"output": key, "type": str(var.type), "value": L.refl_pval(var._value.value), "fault": fault})
            # 3. the node's own types do not depend on the backend: equal to the types with propagation off
            if r["tnode"] is not None:
                tv = r["tnode"].outputs.get_vars()
                for key, var in r["node"].outputs.get_vars().items():
                    if key in tv and tv[key].type != var.type:
                        self.impl_failed_cases.add(case_id)
                        self.impl_fail(self.pfx + "/type-changed-at-node",
                                       f"the type of output {key} of {r['t']} depends on the backend result", prog, backend, plan, p,
                                       {"with_backend": str(var.type), "propagation_off": str(tv[key].type), "fault": fault})
                if r.get("none_calls"):
                    self.run.fail("corr", self.pfx + "/backend-called-under-NONE", "an evaluator was invoked although the backend is NONE",
                                  {"template": r["t"]})
        # correspondence case (unsafe_cast = intro + retyping after the construction: modelled at program level, checked by c07)
        node = r["node"] if r["node"] is not None else r["tnode"]
        if node is None or r["t"].startswith("unsafe_"):
            return
        nt = node_term(r["node"], r["tnode"])
        bt = L.backend_result_term(r["calls"])
        expr = f"construct {cfg_term(strict)} {BK_TERM[backend]} {nt} ({bt})"
        self.cases.append((expr, render_impl(r), r["typecheck_warnings"],
                           {"case": case_id, "template": r["t"], "backend": backend, "fault": fault, "pos": p, "prog": prog,
                            "plan": plan, "strict": strict, "n_calls": len(r["calls"])}))
        self.bump("calls_at_step", str(len(r["calls"])))
        self.bump("outcomes", "raise" if r["exc"] is not None else "ok")
        if fault is not None:
            self.distinct.add((r["t"], backend, lab))

    # -- whole-run oracles ------------------------------------------------------------------------------
    def check_downstream(self, prog, base, run_):
        """types under fault are equal or more permissive, values absent or identical (skipped below a fault whose
        payload conforms to the type but carries other values: that is not a detectable fault)."""
        # the theorem's hypothesis: every faulted step ended with nothing attached (or exactly the fault-free values)
        tainted = self.is_tainted(base, run_)
        for i, (vb, vc) in enumerate(zip(base["env"], run_["env"])):
            if vb is None or vc is None or vb is vc:
                continue
            if not L.type_ge(vc.type, vb.type) and not tainted:
                self.impl_fail(self.pfx + "/type-not-more-permissive", "under a backend fault a downstream Var gets a type that is "
                               "neither equal to nor more permissive than the fault-free one", prog, run_["backend"],
                               run_["plan"], None, {"env_index": i, "faulty": str(vc.type), "fault_free": str(vb.type)})
            if vc._value is not None and not tainted:
                if vb._value is None or not L.values_equal(vc._value, vb._value):
                    self.impl_fail(self.pfx + "/value-changed-downstream", "under a detected backend fault a Var carries a value that the "
                                   "fault-free run does not have", prog, run_["backend"], run_["plan"], None,
                                   {"env_index": i, "faulty": str(vc._value)[:200], "fault_free": str(vb._value)[:200]})

    def check_builds(self, prog, runs, rng):
        """Same program built from the Vars of several runs (backend NONE, fault-free, faulty): structurally identical
        models and identical onnxruntime results."""
        from spox import Tensor

        ns = len(prog["sources"])
        cand = []
        for i in range(ns, len(runs[0]["env"])):
            vs = [r["env"][i] for r in runs]
            if all(v is not None and isinstance(v.type, Tensor) and v.type.shape is not None for v in vs):
                cand.append(i)
        if not cand:
            return
        models = []
        for r in runs:
            try:
                models.append(built_models(self.world, prog, r, cand))
                self.n_builds += 1
            except Exception as e:  # noqa: BLE001
                self.impl_fail(self.pfx + "/none-backend-changes-model/build-raises",
                               "build raises for a program whose requested outputs all have concrete types",
                               prog, r["backend"], r["plan"], None, {"exception": f"{type(e).__name__}: {str(e)[:300]}"})
                return
        ref = strip_types(models[0])
        for r, m in zip(runs[1:], models[1:]):
            if strip_types(m) != ref:
                self.impl_fail(self.pfx + "/none-backend-changes-model/structure",
                               "the model built with value propagation differs (beyond the precision of reported types) from the "
                               "one built with propagation switched off", prog, r["backend"], r["plan"], None,
                               {"nodes_with": [n.op_type for n in m.graph.node], "nodes_without": [n.op_type for n in models[0].graph.node]})
                return
        for _ in range(2):
            feed = gen_feed(rng, prog)
            results = []
            for m in models:
                used = {i.name for i in m.graph.input}
                try:
                    results.append(ort_run(self.world, m, {k: v for k, v in feed.items() if k in used}))
                except Exception as e:  # noqa: BLE001
                    results.append(f"{type(e).__name__}")
            for r, res in zip(runs[1:], results[1:]):
                same = (isinstance(res, str) and isinstance(results[0], str)) or (
                    isinstance(res, dict) and isinstance(results[0], dict) and res.keys() == results[0].keys() and all(
                        res[k].dtype == results[0][k].dtype and res[k].shape == results[0][k].shape
                        and np.array_equal(res[k], results[0][k], equal_nan=res[k].dtype.kind in 'fc') for k in res))
                self.n_ort_compared += 1
                if not same:
                    self.impl_fail(self.pfx + "/none-backend-changes-model/results",
                                   "onnxruntime results of the model built with propagation differ from those of the model built "
                                   "with propagation switched off", prog, r["backend"], r["plan"], None,
                                   {"feed": {k: v.tolist() for k, v in feed.items()}})

    # -- model evaluation + comparison -----------------------------------------------------------------
    def compare_with_model(self):
        exprs = sorted({c[0] for c in self.cases})
        res = dict(zip(exprs, self.run.coq_eval(self.pfx.lower(), L.HEADER, exprs, shard=200)))
        mism = 0
        for expr, impl, n_warn, info in self.cases:
            model, mw = render_model(res[expr])
            ok = (model == impl) and (impl.startswith("Err") or mw == n_warn)
            if ok:
                continue
            mism += 1
            if info["case"] in self.impl_failed_cases:
                continue  # explained: the implementation itself violates the property on this case (reported above)
            f = info["fault"]
            n_corr = sum(1 for x in self.run.failures if x.kind == "corr")
            if n_corr >= 8:
                continue  # enough replays; the total is reported in coverage.disagreements_checked
            self.run.fail("corr", f"{self.pfx}/model-vs-impl/{info['template']}/{L.fault_label(f)}"[:140],
                          "model and implementation disagree on a node construction under a backend fault",
                          {"template": info["template"], "backend": info["backend"], "fault": f, "strict": info["strict"],
                           "impl": impl, "impl_warnings": n_warn, "model": model, "model_warnings": mw, "expr": expr,
                           "program": {"sources": info["prog"]["sources"], "steps": info["prog"]["steps"]},
                           "plan": {str(k): v for k, v in info["plan"].items()}, "position": info["pos"]})
        for expr, impl, n_warn, info in self.cases[:: max(1, len(self.cases) // 6)][:6]:
            self.samples.append({"template": info["template"], "backend": info["backend"], "fault": L.fault_label(info["fault"]),
                                 "impl": impl, "model": render_model(res[expr])[0], "expr": expr[:600]})
        return len(exprs), mism


def fault_applicable(f, rec):
    n_out = len(rec["node"].outputs.get_vars()) if rec["node"] is not None else 1
    if f.get("idx", 0) >= n_out:
        return False
    if f.get("struct") == "swap" and n_out < 2:
        return False
    return True


def run(run: Run) -> int:
    run.check_theorems(PROPS, CONE, thorough_coqchk=(run.tier == "thorough"))
    quick = run.tier == "quick"
    n_prog = 40 if quick else 300
    faults_per_prog = 40 if quick else 80
    rng = run.rng
    world = World()
    ck = Checker(run, world)
    catalogue = L.all_faults()
    rng.shuffle(catalogue)
    cat_i = 0
    try:
        progs = [corpus_program()] + [L.gen_program(rng, world.tmpl) for _ in range(n_prog)]
        for pi, prog in enumerate(progs):
            ck.bump("steps_per_program", str(len(prog["steps"])))
            for backend in BACKENDS:
                ck.bump("backends", backend)
                base = run_program(world, prog, backend)
                for p in range(len(prog["steps"])):
                    ck.check_step(prog, base, p)
                # propagation switched off
                none = run_program(world, prog, "NONE", typing=False)
                ck.check_none_run(prog, none)
                called = [p for p, r in enumerate(base["recs"]) if not r["skipped"] and r["calls"] and r["outs"] is not None]
                fault_runs = []
                if pi == 0:
                    # corpus of past minimal failures: one deterministic fault run per known mechanism
                    for pos, f in CORPUS_FAULTS:
                        fr = run_program(world, prog, backend, {pos: f}, reuse=base)
                        ck.n_fault_runs += 1
                        tainted = ck.is_tainted(base, fr)
                        for p in range(len(prog["steps"])):
                            ck.check_step(prog, fr, p, tainted)
                        ck.check_downstream(prog, base, fr)
                if called:
                    for j in range(faults_per_prog):
                        k = 1 if j % 6 else rng.choice([2, 3])
                        plan = {}
                        for p in rng.sample(called, min(k, len(called))):
                            for _ in range(len(catalogue)):
                                f = catalogue[cat_i % len(catalogue)]
                                cat_i += 1
                                if fault_applicable(f, base["recs"][p]):
                                    plan[p] = f
                                    break
                        strict = (j % 11 == 10)
                        fr = run_program(world, prog, backend, plan, reuse=base, strict=strict)
                        ck.n_fault_runs += 1
                        for f in plan.values():
                            ck.bump("fault_kinds", f["kind"] + ":" + (f.get("stage") or f.get("struct") or f.get("names") or "payload"))
                        tainted = ck.is_tainted(base, fr)
                        for p in range(len(prog["steps"])):
                            ck.check_step(prog, fr, p, tainted)
                        if not strict:
                            ck.check_downstream(prog, base, fr)
                            fault_runs.append(fr)
                runs = [none, base] + (rng.sample(fault_runs, min(2, len(fault_runs))) if fault_runs else [])
                ck.check_builds(prog, runs, rng)
        n_expr, mism = ck.compare_with_model()
    finally:
        world.close()
    cov = {
        "evaluations": len(ck.cases),
        "distinct_model_evaluations": n_expr,
        "distinct_nontrivial": len(ck.distinct),
        "rule": "node constructions executed while a fault was injected into the value-propagation backend; distinct by "
                "(operator template, backend, fault description); the fault-free and downstream re-constructions are "
                "evaluated too but not counted as non-trivial",
        "traces_validated_against_impl": len(ck.cases) - mism,
        "disagreements_checked": mism,
        "programs": len(progs), "fault_runs": ck.n_fault_runs, "node_constructions_checked": ck.n_exec,
        "fault_catalogue_size": len(catalogue), "builds": ck.n_builds, "onnxruntime_result_comparisons": ck.n_ort_compared,
        "input_distribution": ck.hist,
        "samples": ck.samples,
    }
    return run.finish(cov, [
        "the wrappers installed in place of onnx.reference.ReferenceEvaluator / onnxruntime.InferenceSession are the only "
        "route by which spox reaches an evaluator (checked: zero calls recorded under backend NONE)",
        "ONNX shape inference (the typing step) is taken as given: the model receives the types inferred with propagation "
        "off for the same input Vars",
        "BaseException subclasses (KeyboardInterrupt, SystemExit) are deliberately not swallowed by spox and are out of scope",
        "downstream_more_permissive is proved under the Section hypothesis that inference is monotone in the known constant operands",
    ])


# (step of corpus_program, fault): the mechanisms found so far, replayed first on every run
CORPUS_FAULTS = [
    (0, {"kind": "ret", "payload": "list2", "idx": 0}),          # F5: list for a Tensor output at op.add
    (0, {"kind": "ret", "payload": "list1", "idx": 0}),          # single-element list: unwrapped by REFERENCE, TypeError under ORT
    (0, {"kind": "ret", "payload": "pyfloat", "idx": 0}),        # scalar: "No handler" under ORT
    (0, {"kind": "ret", "payload": "ragged-tuple", "idx": 0}),   # np.array raises
    (0, {"kind": "ret", "names": "extra-unknown"}),              # unknown result name
    (0, {"kind": "ret", "names": "inputs-only"}),                # entries under input names only
    (3, {"kind": "ret", "payload": "list-wrong-dtype", "idx": 0}),   # Sequence elements of the wrong dtype
    (3, {"kind": "ret", "payload": "list-none", "idx": 0}),
    (4, {"kind": "ret", "payload": "wrong-dtype", "idx": 0}),    # Optional payload of the wrong dtype
    (4, {"kind": "ret", "payload": "empty", "idx": 0}),
    (7, {"kind": "ret", "payload": "objarr-other", "idx": 0}),   # object array of non-strings for a string tensor
    (7, {"kind": "ret", "payload": "objarr-str", "idx": 0}),
    (7, {"kind": "ret", "payload": "objarr-first-str", "idx": 0}),   # ... whose first element is a str and a later one is not
    (6, {"kind": "ret", "payload": "list2", "idx": 0}),          # inlined model
    (5, {"kind": "ret", "struct": "swap"}),                      # TopK outputs swapped by the backend
    (0, {"kind": "raise", "stage": "run", "exc": "RuntimeError"}),
    (6, {"kind": "raise", "stage": "ctor", "exc": "MemoryError"}),
]


def corpus_program():
    """Minimal programs of past failures first (F5: list for a Tensor output at op.add)."""
    src = [
        {"t": "arg", "kind": "F23", "dtype": L.F32, "shape": [2, 3]},
        {"t": "arg", "kind": "F6", "dtype": L.F32, "shape": [6]},
        {"t": "const", "kind": "F6", "dtype": L.F32, "shape": [6], "value": [1, 2, 3, 4, 5, 6]},
        {"t": "const", "kind": "F6", "dtype": L.F32, "shape": [6], "value": [6, 5, 4, 3, 2, 1]},
        {"t": "const", "kind": "F23", "dtype": L.F32, "shape": [2, 3], "value": [1, 2, 3, 4, 5, 6]},
        {"t": "const", "kind": "SH2", "dtype": L.I64, "shape": [2], "value": [3, 2]},
        {"t": "const", "kind": "ONE2", "dtype": L.I64, "shape": [2], "value": [1, 1]},
        {"t": "const", "kind": "K1", "dtype": L.I64, "shape": [1], "value": [2]},
        {"t": "const", "kind": "STR2", "dtype": "str", "shape": [2], "value": ["a", "b"]},
    ]
    steps = [
        {"t": "add_F6", "args": [2, 3]},          # 9
        {"t": "mul_SH2", "args": [5, 6]},         # 10
        {"t": "reshape_to2d", "args": [0, 10]},   # 11  (argument reshaped by a propagated shape)
        {"t": "seq_construct", "args": [9, 2]},   # 12
        {"t": "optional", "args": [4]},           # 13
        {"t": "top_k6", "args": [9, 7]},          # 14, 15
        {"t": "inline_1", "args": [4]},           # 16, 17
        {"t": "identity_STR2", "args": [8]},      # 18
        {"t": "concat_from_seq", "args": [12]},
        {"t": "opt_get", "args": [13]},
        {"t": "split2", "args": [9]},
    ]
    return {"sources": src, "steps": steps}


def replay(run: Run, case) -> int:
    d = case["detail"]
    world = World()
    bad = False
    try:
        prog = d["program"]
        plan = {int(k): v for k, v in d.get("plan", {}).items()}
        backend = d["backend"]
        ck = Checker(run, world)
        if backend == "NONE":
            r = run_program(world, prog, "NONE", typing=False)
            for p, rec in enumerate(r["recs"]):
                if not rec["skipped"] and rec["exc"] is not None:
                    print(f"step {p} {rec['t']}: raises {type(rec['exc']).__name__}: {rec['exc']}")
                    bad = True
        else:
            base = run_program(world, prog, backend)
            fr = run_program(world, prog, backend, plan, reuse=base, strict=bool(d.get("strict")))
            tainted = ck.is_tainted(base, fr)
            for p in range(len(prog["steps"])):
                ck.check_step(prog, fr, p, tainted)
            ck.check_downstream(prog, base, fr)
            none = run_program(world, prog, "NONE", typing=False)
            ck.check_builds(prog, [none, base, fr], run.rng)
            ck.compare_with_model()
            for p, rec in enumerate(fr["recs"]):
                if p in fr["executed"] and not rec["skipped"]:
                    print(f"step {p} {rec['t']} fault={L.fault_label(rec['fault'])}: {render_impl(rec)}")
            for f in run.failures:
                print(f"  {f.kind}: {f.key}: {f.what}")
            bad = bool(run.failures)
    finally:
        world.close()
    if bad:
        print(f"VIOLATION property=C15 replay={run.pid}")
    return 1 if bad else 0
