"""C05 — constructor calls type-check eagerly and agree with ONNX strict inference.

Model: coq/NodeProto.v, theorems: coq/props/C05.v.

Streams (all through the real constructors of spox.opset.ai.onnx.v17 .. v21):
  corpus   ONNX's own node-test corpus (onnx.backend.test.case.node): every single-node case whose operator's
           since-version equals the version of the class shipped by the module, mapped generically to constructor
           parameters through the class' Inputs / Attributes dataclasses (mostly well typed);
  mutated  the same calls with one thing changed (element type / rank / dimension erased to unknown or symbolic /
           rank erased / input untyped / optional dropped or duplicated / one Var in two slots / attribute perturbed,
           removed or set explicitly / operands passed as constants / variadic length 0..3);
  hand     hand-written calls of the subgraph operators (If, Loop, Scan, SequenceMap) and of operators without a
           usable corpus case.
Checks per call:
  (i)  correspondence: the one-node ModelProto that spox really hands to onnx.shape_inference.infer_shapes
       (captured by wrapping that function) is rendered and compared with the model's [singleton]; the outcome of
       the call (exception class / Var.type per output) is compared with [call_outcome] instantiated with the
       recorded answer of ONNX; the keyword flags check_type / strict_mode / data_prop must all be on;
  (ii) direct oracle: an independently hand-built one-node model (from the corpus NodeProto, explicit defaults,
       own value infos and initializers, the MODULE's opset version) goes through
       infer_shapes(check_type=True, strict_mode=True, data_prop=True); accept/reject and output types must agree.
"""

from __future__ import annotations

import base64
import copy
import importlib
import inspect
import json
import typing
import warnings

import numpy as np
import onnx
import onnx.shape_inference
from onnx import AttributeProto, TensorProto, helper, numpy_helper

from harness import c05_lib as L
from harness.common import Run, coq_str

CONE = ["NodeProto.v", "NodeProtoFacts.v", "NodeProtoKeys.v"]
PROPS = "props/C05.v"
VERSIONS = (17, 18, 19, 20, 21)
HEADER = ("From Coq Require Import List String Bool ZArith NArith.\nFrom Spox Require Import NodeProto.\nImport ListNotations.\n"
          "Open Scope string_scope.\nOpen Scope bool_scope.\n")

REAL_INFER = onnx.shape_inference.infer_shapes
InferenceError = onnx.shape_inference.InferenceError


class Unsupported(Exception):
    """The harness cannot express this case as a constructor call (not a finding)."""


# ------------------------------------------------------------------------------------------------ capture of the real singleton models


class Capture:
    def __init__(self):
        self.calls = []
        self.on = False

    def __call__(self, model, *a, **kw):
        if not self.on:
            return REAL_INFER(model, *a, **kw)
        rec = {"model": copy.deepcopy(model) if isinstance(model, onnx.ModelProto) else model, "args": a, "kw": dict(kw)}
        self.calls.append(rec)
        try:
            out = REAL_INFER(model, *a, **kw)
        except BaseException as e:  # noqa: BLE001
            rec["exc"] = e
            raise
        rec["out"] = out
        return out


CAP = Capture()


def install_capture():
    if onnx.shape_inference.infer_shapes is not CAP:
        onnx.shape_inference.infer_shapes = CAP


# ------------------------------------------------------------------------------------------------ class tables


class ClsInfo:
    def __init__(self, cls, con):
        import dataclasses

        from spox._standard import StandardNode

        self.cls, self.con = cls, con
        self.op, self.domain, self.version = cls.op_type.identifier, cls.op_type.domain, cls.op_type.version
        self.in_slots = [(f.name, cls.Inputs._get_field_type(f).name) for f in dataclasses.fields(cls.Inputs)]
        self.out_slots = [(f.name, cls.Outputs._get_field_type(f).name) for f in dataclasses.fields(cls.Outputs)]
        self.attr_fields = [(f.name, str(f.type)) for f in dataclasses.fields(cls.Attributes)]
        self.schema = onnx.defs.get_schema(self.op, self.version, self.domain)
        self.sig = inspect.signature(con)
        self.patched = cls.infer_output_types is not StandardNode.infer_output_types
        self.has_graph = any("AttrGraph" in t for _, t in self.attr_fields)
        self.count_params = [p for p in self.sig.parameters
                             if p not in dict(self.in_slots) and p not in dict(self.attr_fields)]

    def attr_kind(self, key):
        return int(self.schema.attributes[key].type.value) if key in self.schema.attributes else None

    def coq_sig(self):
        return L.coq_sig(self.op, self.domain, self.version, self.in_slots, self.out_slots,
                         (self.schema.min_input, self.schema.min_output))

    def out_keys(self, k):
        keys = []
        for n, kind in self.out_slots:
            keys += [f"{n}_{i}" for i in range(k)] if kind == "VARIADIC" else [n]
        return keys

    def declared_outputs(self, k):
        return sum(k if kind == "VARIADIC" else 1 for _, kind in self.out_slots)


_MODS, _INFO = {}, {}


def module(v):
    if v not in _MODS:
        _MODS[v] = importlib.import_module(f"spox.opset.ai.onnx.v{v}")
    return _MODS[v]


def info(v, op) -> ClsInfo:
    m = module(v)
    key = (m._OPERATORS[op], m._CONSTRUCTORS[op])
    if key not in _INFO:
        _INFO[key] = ClsInfo(*key)
    return _INFO[key]


# ------------------------------------------------------------------------------------------------ call specs


def spec_to_json(spec):
    d = dict(spec)
    d["node"] = base64.b64encode(spec["node"].SerializeToString()).decode()
    d["consts"] = {k: {"dtype": str(a.dtype) if a.dtype != object else "object", "shape": list(a.shape),
                       "data": [x.decode("utf8", "replace") if isinstance(x, bytes) else x for x in a.flatten().tolist()]}
                   for k, a in spec["consts"].items()}
    return d


def spec_from_json(d):
    spec = dict(d)
    n = onnx.NodeProto()
    n.ParseFromString(base64.b64decode(d["node"]))
    spec["node"] = n
    spec["consts"] = {k: np.array(c["data"], dtype=(object if c["dtype"] == "object" else c["dtype"])).reshape(c["shape"])
                      for k, c in d["consts"].items()}
    return spec


def load_corpus():
    """All single-node corpus cases: (name, node, {input name: tspec}, {input name: array}, opset version)."""
    from onnx.backend.test.case.node import collect_testcases

    out = []
    for c in collect_testcases(None):
        m = c.model
        if m is None or len(m.graph.node) != 1 or m.functions:
            continue
        n = m.graph.node[0]
        if n.domain not in ("", "ai.onnx"):
            continue
        vers = [o.version for o in m.opset_import if o.domain in ("", "ai.onnx")]
        if not vers:
            continue
        types = {vi.name: L.tspec_of_typeproto(vi.type) for vi in m.graph.input}
        data = {}
        try:
            arrs = c.data_sets[0][0] if c.data_sets else []
            for vi, a in zip(m.graph.input, arrs):
                if isinstance(a, np.ndarray):
                    data[vi.name] = a
        except Exception:  # noqa: BLE001
            pass
        out.append((c.name, n, types, data, vers[0]))
    return out


def corpus_specs(corpus, v, stats):
    """The cases applicable to module v (schema of the case's opset == the class the module ships)."""
    m = module(v)
    specs = []
    for name, n, types, data, ver in corpus:
        if n.op_type not in m._OPERATORS:
            stats["op-not-in-module"] = stats.get("op-not-in-module", 0) + 1
            continue
        try:
            s = onnx.defs.get_schema(n.op_type, ver, "")
        except Exception:  # noqa: BLE001
            continue
        same = s.since_version == m._OPERATORS[n.op_type].op_type.version
        if not same:
            # the case was written for another version of the operator: it is still replayed (the reference model is
            # checked against the MODULE's opset, so the comparison stays meaningful) but not counted as a corpus-valid call
            stats["other-schema-version"] = stats.get("other-schema-version", 0) + 1
        if any(a.type in (AttributeProto.GRAPH, AttributeProto.GRAPHS, AttributeProto.SPARSE_TENSOR) for a in n.attribute):
            stats["skip-graph-attr"] = stats.get("skip-graph-attr", 0) + 1
            continue
        if any(t == "other" or t is None for k, t in types.items() if k in n.input):
            stats["skip-inputtype"] = stats.get("skip-inputtype", 0) + 1
            continue
        specs.append({"v": v, "op": n.op_type, "src": name, "mut": "" if same else "other-schema", "node": n,
                      "intypes": {k: types[k] for k in n.input if k}, "consts": {}, "const_via": "initializer",
                      "_data": data})
    return specs


# ------------------------------------------------------------------------------------------------ building the call from a spec


_UNTYPED_OP = None


def make_var(t, const, via, v):
    """A fresh Var: argument of type t, constant (with propagated value), or untyped."""
    global _UNTYPED_OP
    from spox import argument
    from spox._graph import initializer
    from spox._var import Var

    if const is not None:
        arr = const
        if arr.dtype == object:
            arr = arr.astype(str)
        if via == "constant":
            return module(v).constant(value=arr)
        return initializer(arr)
    if t is None:
        if _UNTYPED_OP is None:
            _UNTYPED_OP = argument(L.spox_type_of_tspec(["T", 1, []]))._op
        return Var(_UNTYPED_OP, None, None)
    return argument(L.spox_type_of_tspec(t))


def attr_value_for_ctor(a: AttributeProto, field_type: str):
    """AttributeProto -> python value for the constructor parameter, and the canonical payload of that value."""
    t = a.type
    if t == AttributeProto.INT:
        if "AttrDtype" in field_type:
            return helper.tensor_dtype_to_np_dtype(a.i) if a.i != TensorProto.STRING else np.dtype(str), str(int(a.i))
        return int(a.i), L.attr_payload_from_value(t, int(a.i))
    if t == AttributeProto.FLOAT:
        return float(a.f), L.attr_payload_from_value(t, a.f)
    if t == AttributeProto.STRING:
        s = a.s.decode("utf8")
        return s, L.attr_payload_from_value(t, s)
    if t == AttributeProto.INTS:
        v = [int(x) for x in a.ints]
        return v, L.attr_payload_from_value(t, v)
    if t == AttributeProto.FLOATS:
        v = [float(x) for x in a.floats]
        return v, L.attr_payload_from_value(t, v)
    if t == AttributeProto.STRINGS:
        v = [x.decode("utf8") for x in a.strings]
        return v, L.attr_payload_from_value(t, v)
    if t == AttributeProto.TENSOR:
        arr = numpy_helper.to_array(a.t)
        if arr.dtype == object:
            arr = arr.astype(str)
        return arr, L.attr_payload_from_value(t, arr)
    if t == AttributeProto.TYPE_PROTO:
        ts = L.tspec_of_typeproto(a.tp)
        return L.spox_type_of_tspec(ts), L.attr_payload_from_value(t, ts)
    raise Unsupported(f"attribute type {t}")


def default_payload(kind, dv):
    return L.attr_payload_from_value(kind, dv)


def default_attr_proto(name, kind, dv):
    """The constructor's default as an AttributeProto for the reference node (own conversion)."""
    if kind == AttributeProto.INT and not isinstance(dv, (int, np.integer)):
        dt = np.dtype(dv)
        dv = int(TensorProto.STRING) if dt.kind in "US" else int(helper.np_dtype_to_tensor_dtype(dt))
    if kind == AttributeProto.FLOAT:
        dv = float(dv)
    return helper.make_attribute(name, dv, attr_type=kind)


class Plan:
    """Everything needed to run one call: constructor arguments, the Gallina term of the call, reference models."""


def plan_from_spec(spec) -> Plan:
    ci = info(spec["v"], spec["op"])
    n = spec["node"]
    names = list(n.input)
    if (any(k == "VARIADIC" for _, k in ci.out_slots) and "num_outputs" in dict(ci.attr_fields) and "num_outputs" in ci.sig.parameters
            and not any(a.name == "num_outputs" for a in n.attribute) and not (len(names) >= 2 and names[1])
            and not spec.get("_no_count")):
        # the constructor takes the number of outputs from this attribute: state it (for the reference node as well)
        spec = dict(spec)
        n2 = onnx.NodeProto()
        n2.CopyFrom(n)
        n2.attribute.append(helper.make_attribute("num_outputs", len(n.output)))
        spec["node"] = n = n2
    p = Plan()
    p.spec, p.ci = spec, ci
    vars_, env = {}, []
    for nm in names:
        if nm and nm not in vars_:
            t = spec["intypes"].get(nm, "missing")
            if t == "missing":
                raise Unsupported("input without type")
            c = spec["consts"].get(nm)
            dflt = (spec.get("_defaults") or {}).get(nm) if c is None else None
            try:
                if dflt is not None:
                    from spox._graph import arguments as _arguments
                    (var,) = _arguments(**{"dflt": dflt})
                else:
                    var = make_var(t, c, spec.get("const_via", "initializer"), spec["v"])
            except Exception as e:  # noqa: BLE001
                raise Unsupported(f"cannot make input Var: {type(e).__name__}: {e}") from e
            vid = len(vars_)
            vars_[nm] = (var, vid)
            tt = t if c is None else L.tspec_of_array(c)
            env.append((vid, tt, None if c is None else L.array_token(c if c.dtype != object else c.astype(str))))
    kw, ins = {}, []
    pos = 0
    for fname, kind in ci.in_slots:
        if kind == "VARIADIC":
            rest = names[pos:]
            pos = len(names)
            if any(not x for x in rest):
                raise Unsupported("empty name inside variadic")
            kw[fname] = [vars_[x][0] for x in rest]
            ins.append(("V", [vars_[x][1] for x in rest]))
        else:
            x = names[pos] if pos < len(names) else ""
            pos += 1
            if kind == "SINGLE":
                if not x:
                    raise Unsupported("required input missing")
                kw[fname] = vars_[x][0]
                ins.append(("S", vars_[x][1]))
            else:
                kw[fname] = vars_[x][0] if x else None
                ins.append(("O", vars_[x][1] if x else None))
    if pos < len(names):
        raise Unsupported("more inputs than parameters")
    given = {}
    for a in n.attribute:
        ft = dict(ci.attr_fields).get(a.name)
        if ft is None or a.name not in ci.sig.parameters:
            raise Unsupported(f"attribute {a.name} is not a constructor parameter")
        try:
            val, payload = attr_value_for_ctor(a, ft)
        except Unsupported:
            raise
        except Exception as e:  # noqa: BLE001
            raise Unsupported(f"attribute conversion: {type(e).__name__}") from e
        kw[a.name] = val
        given[a.name] = (int(a.type), payload)
    attrs, ref_defaults = [], []
    for key, _ft in ci.attr_fields:
        kind = ci.attr_kind(key)
        if key in given:
            attrs.append((key, (key, ("D",) + given[key])))
            continue
        par = ci.sig.parameters.get(key)
        dv = par.default if par is not None else None
        if dv is None or dv is inspect.Parameter.empty or kind is None:
            attrs.append((key, None))
            if par is not None and par.default is inspect.Parameter.empty:
                raise Unsupported(f"required attribute {key} absent")
        else:
            attrs.append((key, (key, ("D", kind, default_payload(kind, dv)))))
            ref_defaults.append(default_attr_proto(key, kind, dv))
    n_out = len(n.output)
    for cp in ci.count_params:
        kw[cp] = n_out
    var_out = [k for _, k in ci.out_slots if k == "VARIADIC"]
    p.kw, p.ins, p.env, p.attrs = kw, ins, env, attrs
    p.k_variadic = None
    if var_out:
        fixed = len(ci.out_slots) - 1
        if ci.count_params:
            p.k_variadic = n_out - fixed
            for cp in ci.count_params:
                kw[cp] = n_out - fixed
        elif "num_outputs" in kw:
            p.k_variadic = kw["num_outputs"]
    p.n_vars = len(vars_)
    p.ref_defaults = ref_defaults
    return p


def coq_call_of(p: Plan, k):
    k = max(0, int(k))
    return L.coq_call(p.ci.coq_sig(), p.ins, ("init", k, p.n_vars), p.attrs, p.env)


# ------------------------------------------------------------------------------------------------ the reference (independent) model


def ref_model(p: Plan, outputs):
    spec = p.spec
    n = onnx.NodeProto()
    n.CopyFrom(spec["node"])
    del n.output[:]
    n.output.extend(outputs)
    have = {a.name for a in n.attribute}
    for a in p.ref_defaults:
        if a.name not in have:
            n.attribute.append(a)
    ins, inits, seen = [], [], set()
    for nm in n.input:
        if not nm or nm in seen:
            continue
        seen.add(nm)
        c = spec["consts"].get(nm)
        if c is not None:
            ins.append(helper.make_value_info(nm, L.typeproto_of_tspec(L.tspec_of_array(c))))
            inits.append(numpy_helper.from_array(c, nm))
        else:
            t = spec["intypes"][nm]
            if t is not None:
                ins.append(helper.make_value_info(nm, L.typeproto_of_tspec(t)))
    g = helper.make_graph([n], "ref", ins, [helper.make_value_info(o, onnx.TypeProto()) for o in outputs if o], inits)
    return helper.make_model(g, opset_imports=[helper.make_operatorsetid("", spec["v"])])


def run_ref(model, outputs=None):
    """('ok', [tspec per requested output position; 'absent' where the node omits the output]) | ('err', class, message)"""
    try:
        out = REAL_INFER(model, check_type=True, strict_mode=True, data_prop=True)
    except Exception as e:  # noqa: BLE001
        return ("err", type(e).__name__, str(e)[:300])
    types = {o.name: L.strip_unk(L.tspec_of_typeproto(o.type)) for o in out.graph.output}
    if outputs is None:
        outputs = [o.name for o in out.graph.output]
    return ("ok", [types.get(o) if o else "absent" for o in outputs])


# ------------------------------------------------------------------------------------------------ running one call through spox


def run_spox(p: Plan):
    """Returns dict(outcome, node, outs, captured)."""
    ci = p.ci
    CAP.calls.clear()
    CAP.on = True
    try:
        with warnings.catch_warnings():
            warnings.simplefilter("ignore")
            try:
                res = ci.con(**p.kw)
                exc = None
            except Exception as e:  # noqa: BLE001
                res, exc = None, e
    finally:
        CAP.on = False
    caps = [c for c in CAP.calls if isinstance(c["model"], onnx.ModelProto) and len(c["model"].graph.node) == 1
            and c["model"].graph.node[0].op_type == ci.op and c["model"].graph.node[0].name == "_this_"]
    r = {"exc": exc, "caps": caps}
    if exc is None:
        outs = list(res) if isinstance(res, (tuple, list)) else [res]
        r["outs"] = outs
        r["node"] = outs[0]._op if outs else None
    return r


def infer_record(cap):
    if "exc" in cap:
        return ("err", type(cap["exc"]).__name__)
    return ("ok", [(vi.name, L.tspec_of_typeproto(vi.type)) for vi in cap["out"].graph.output])


# ------------------------------------------------------------------------------------------------ mutations


ELEMS = [TensorProto.FLOAT, TensorProto.DOUBLE, TensorProto.INT64, TensorProto.INT32, TensorProto.BOOL, TensorProto.STRING,
         TensorProto.FLOAT16, TensorProto.UINT8]


def _map_tensor(t, f):
    if t is None:
        return None
    if t[0] == "T":
        return f(t)
    return [t[0], _map_tensor(t[1], f)]


def mutate(rng, spec, ci, force_kind=None):
    """One mutated copy of the spec (or None if the drawn mutation does not apply)."""
    s = dict(spec)
    s["node"] = onnx.NodeProto()
    s["node"].CopyFrom(spec["node"])
    s["intypes"] = dict(spec["intypes"])
    s["consts"] = dict(spec["consts"])
    n = s["node"]
    names = [x for x in dict.fromkeys(n.input) if x]
    kinds = ["elem", "rank", "dim-unknown", "dim-symbolic", "rank-unknown", "untyped", "drop-optional", "dup-optional",
             "same-var", "attr-perturb", "attr-remove", "attr-explicit-default", "attr-empty-list", "const-one", "const-all", "variadic-len",
             "default-one"]
    kind = force_kind or rng.choice(kinds)
    s["mut"] = kind
    s["base_other_schema"] = spec.get("mut") == "other-schema" or spec.get("base_other_schema", False)
    if kind in ("elem", "rank", "dim-unknown", "dim-symbolic", "rank-unknown", "untyped"):
        if not names:
            return None
        nm = rng.choice(names)
        t = s["intypes"][nm]
        if kind == "untyped":
            s["intypes"][nm] = None
        elif kind == "elem":
            e = rng.choice(ELEMS)
            s["intypes"][nm] = _map_tensor(t, lambda x: ["T", e if e != x[1] else TensorProto.INT16, x[2]])
        elif kind == "rank":
            def f(x):
                if x[2] is None:
                    return ["T", x[1], [2]]
                sh = list(x[2])
                r = rng.random()
                if sh and r < 0.5:
                    sh.pop(rng.randrange(len(sh)))
                elif r < 0.9:
                    sh.insert(rng.randrange(len(sh) + 1), rng.choice([1, 2, 3]))
                else:
                    sh = []
                return ["T", x[1], sh]
            s["intypes"][nm] = _map_tensor(t, f)
        elif kind in ("dim-unknown", "dim-symbolic"):
            def f(x):
                if not x[2]:
                    return ["T", x[1], None]
                sh = list(x[2])
                idx = range(len(sh)) if rng.random() < 0.3 else [rng.randrange(len(sh))]
                for i in idx:
                    sh[i] = None if kind == "dim-unknown" else rng.choice(["N", "M", "unk__7", "unknown"])
                return ["T", x[1], sh]
            s["intypes"][nm] = _map_tensor(t, f)
        else:
            s["intypes"][nm] = _map_tensor(t, lambda x: ["T", x[1], None])
        s["mut"] = f"{kind}:{nm}"
        return s
    if kind == "drop-optional":
        opt = [i for i, (_, k) in enumerate(ci.in_slots) if k == "OPTIONAL" and i < len(n.input) and n.input[i]]
        if not opt:
            return None
        i = rng.choice(opt)
        n.input[i] = ""
        while len(n.input) and not n.input[-1]:
            n.input.pop()
        s["mut"] = f"drop-optional:{ci.in_slots[i][0]}"
        return s
    if kind == "dup-optional":
        opt = [i for i, (_, k) in enumerate(ci.in_slots) if k == "OPTIONAL"]
        if not opt or not names:
            return None
        i = rng.choice(opt)
        while len(n.input) <= i:
            n.input.append("")
        n.input[i] = rng.choice(names)
        s["mut"] = f"dup-optional:{ci.in_slots[i][0]}"
        return s
    if kind == "same-var":
        if len(names) < 2:
            return None
        a, b = rng.sample(names, 2)
        for i in range(len(n.input)):
            if n.input[i] == b:
                n.input[i] = a
        s["mut"] = f"same-var:{a}<-{b}"
        return s
    if kind == "attr-perturb":
        cand = [a for a in n.attribute if a.type in (AttributeProto.INT, AttributeProto.FLOAT, AttributeProto.STRING,
                                                     AttributeProto.INTS, AttributeProto.FLOATS)]
        if not cand:
            return None
        a = rng.choice(cand)
        if a.type == AttributeProto.INT:
            if "AttrDtype" in dict(ci.attr_fields).get(a.name, ""):
                a.i = rng.choice([TensorProto.FLOAT, TensorProto.INT64, TensorProto.BOOL, TensorProto.DOUBLE, TensorProto.STRING])
            else:
                a.i = rng.choice([a.i + 1, a.i - 1, -a.i, a.i + 7, 0, 100, -100])
        elif a.type == AttributeProto.FLOAT:
            a.f = rng.choice([-a.f, a.f * 2 + 1, 0.0])
        elif a.type == AttributeProto.STRING:
            a.s = rng.choice([b"bogus", b"", a.s.upper(), a.s.lower()])
        elif a.type == AttributeProto.INTS:
            v = list(a.ints)
            r = rng.random()
            if v and r < 0.4:
                v.pop(rng.randrange(len(v)))
            elif r < 0.7:
                v.append(rng.choice([0, 1, 2, -1]))
            elif v:
                i = rng.randrange(len(v))
                v[i] = rng.choice([v[i] + 1, -v[i], 0, v[i] + 5])
            del a.ints[:]
            a.ints.extend(v)
        else:
            v = list(a.floats)
            if v:
                v.pop()
            else:
                v.append(1.0)
            del a.floats[:]
            a.floats.extend(v)
        s["mut"] = f"attr-perturb:{a.name}"
        return s
    if kind == "attr-empty-list":
        # an explicitly given EMPTY list is not "attribute absent": ONNX sees a zero-length list (Constant(value_ints=[]) is
        # int64[0]; Conv(pads=[]) is an error; Transpose(perm=[]) is not the default permutation)
        LISTS = (AttributeProto.INTS, AttributeProto.FLOATS, AttributeProto.STRINGS)
        have = {a.name for a in n.attribute}
        present = [a for a in n.attribute if a.type in LISTS]
        absent = [k for k, _ in ci.attr_fields if k not in have and ci.attr_kind(k) in LISTS]
        if not present and not absent:
            return None
        if present and (not absent or rng.random() < 0.5):
            a = rng.choice(present)
            del a.ints[:]
            del a.floats[:]
            del a.strings[:]
        else:
            k = rng.choice(absent)
            a = n.attribute.add()
            a.name, a.type = k, ci.attr_kind(k)
        s["mut"] = f"attr-empty-list:{a.name}"
        return s
    if kind == "attr-remove":
        cand = [i for i, a in enumerate(n.attribute)
                if ci.sig.parameters.get(a.name) is not None and ci.sig.parameters[a.name].default is not inspect.Parameter.empty]
        if not cand:
            return None
        i = rng.choice(cand)
        s["mut"] = f"attr-remove:{n.attribute[i].name}"
        del n.attribute[i]
        return s
    if kind == "attr-explicit-default":
        have = {a.name for a in n.attribute}
        cand = [k for k, _ in ci.attr_fields if k not in have and ci.attr_kind(k) is not None
                and ci.sig.parameters.get(k) is not None
                and ci.sig.parameters[k].default not in (None, inspect.Parameter.empty)
                and ci.attr_kind(k) in (AttributeProto.INT, AttributeProto.FLOAT, AttributeProto.STRING, AttributeProto.INTS)]
        if not cand:
            return None
        k = rng.choice(cand)
        n.attribute.append(default_attr_proto(k, ci.attr_kind(k), ci.sig.parameters[k].default))
        s["mut"] = f"attr-explicit-default:{k}"
        return s
    if kind in ("const-one", "const-all"):
        data = spec.get("_data") or {}
        cand = [x for x in names if x in data and data[x].size <= 4096 and L.tspec_of_array(data[x]) == s["intypes"].get(x)]
        if not cand:
            return None
        chosen = cand if kind == "const-all" else [rng.choice(cand)]
        for x in chosen:
            s["consts"][x] = data[x]
        s["const_via"] = rng.choice(["initializer", "constant"])
        s["mut"] = f"{kind}:{','.join(chosen)}:{s['const_via']}"
        return s
    if kind == "default-one":
        # the operand is a DEFAULT-VALUED model input (arguments(name=<array>): an input with an initializer, which the caller may
        # override): its default is NOT a known constant - the reference node sees a plain typed input
        data = spec.get("_data") or {}
        cand = [x for x in names if x in data and data[x].size <= 4096 and data[x].dtype != object and L.tspec_of_array(data[x]) == s["intypes"].get(x)
                and x not in s["consts"]]
        if not cand:
            return None
        x = rng.choice(cand)
        s["_defaults"] = {x: data[x]}
        s["mut"] = f"default-one:{x}"
        return s
    if kind == "variadic-len":
        if not ci.in_slots or ci.in_slots[-1][1] != "VARIADIC":
            return None
        start = len(ci.in_slots) - 1
        items = list(n.input)[start:]
        k = rng.choice([0, 1, 2, 3, 3, 12])
        if not items and k:
            return None
        new = [items[i % len(items)] for i in range(k)] if items else []
        del n.input[start:]
        n.input.extend(new)
        s["mut"] = f"variadic-len:{k}"
        return s
    return None


# ------------------------------------------------------------------------------------------------ hand-written calls (subgraph operators)


HAND_NAMES = ["hand_if_add_mul", "hand_loop_carry_scan", "hand_loop_no_inputs", "hand_scan_state_and_scan", "hand_sequencemap_add"]


def hand_plans(v):
    """Plans for If / Loop / Scan / SequenceMap with real bodies; the reference model carries the real subgraphs."""
    from spox import argument

    F, I, B = TensorProto.FLOAT, TensorProto.INT64, TensorProto.BOOL
    op = module(v)
    plans = []

    def mk(opname, src, kw_fn, ins, env_t, graphs, ref_node_fn, k, data_attrs=None):
        ci = info(v, opname)
        p = Plan()
        p.ci = ci
        p.spec = {"v": v, "op": opname, "src": src, "mut": "hand", "hand": src}
        vars_ = [make_var(t, None, None, v) for t in env_t]
        p.env = [(i, t, None) for i, t in enumerate(env_t)]
        p.ins = ins
        p.n_vars = len(vars_)
        p.k_variadic = k
        p.kw = kw_fn(vars_)
        data_attrs = data_attrs or {}
        p.attrs = [(key, (key, ("G",) + tuple(graphs[key]))) if key in graphs else
                   ((key, (key, ("D",) + tuple(data_attrs[key]))) if key in data_attrs else (key, None)) for key, _ in ci.attr_fields]
        p.ref_fn = lambda outs: ref_node_fn(outs)
        return p

    t_f23, t_b, t_i = ["T", F, [2, 3]], ["T", B, []], ["T", I, []]

    # If: branches produce float[2,3] and float[2,'N'-incompatible dims merge]
    def if_kw(vs):
        x = vs[1]
        return {"cond": vs[0], "then_branch": lambda: [op.add(x, x)], "else_branch": lambda: [op.mul(x, x)]}

    def if_ref(outs):
        def br(name, o):
            return helper.make_graph([helper.make_node(o, ["x", "x"], [name + "_o"])], name, [],
                                     [helper.make_value_info(name + "_o", onnx.TypeProto())])
        n = helper.make_node("If", ["c"], outs, then_branch=br("t", "Add"), else_branch=br("e", "Mul"))
        g = helper.make_graph([n], "ref", [helper.make_value_info("c", L.typeproto_of_tspec(t_b)),
                                           helper.make_value_info("x", L.typeproto_of_tspec(t_f23))],
                              [helper.make_value_info(o, onnx.TypeProto()) for o in outs])
        return helper.make_model(g, opset_imports=[helper.make_operatorsetid("", v)])

    plans.append(mk("If", "hand_if_add_mul", if_kw, [("S", 0)], [t_b, t_f23],
                    {"then_branch": ([], [t_f23]), "else_branch": ([], [t_f23])}, if_ref, 1))

    # Loop: one carried float[2,3], one scan output
    def loop_kw(vs):
        return {"M": vs[0], "cond": None, "v_initial": [vs[1]],
                "body": lambda i, c, a: [c, op.add(a, a), op.mul(a, a)]}

    def loop_ref(outs):
        body = helper.make_graph(
            [helper.make_node("Identity", ["c_in"], ["c_out"]), helper.make_node("Add", ["a", "a"], ["a_out"]),
             helper.make_node("Mul", ["a", "a"], ["s_out"])], "body",
            [helper.make_value_info("i", L.typeproto_of_tspec(t_i)), helper.make_value_info("c_in", L.typeproto_of_tspec(t_b)),
             helper.make_value_info("a", L.typeproto_of_tspec(t_f23))],
            [helper.make_value_info("c_out", L.typeproto_of_tspec(t_b)), helper.make_value_info("a_out", L.typeproto_of_tspec(t_f23)),
             helper.make_value_info("s_out", L.typeproto_of_tspec(t_f23))])
        n = helper.make_node("Loop", ["m", "", "x"], outs, body=body)
        g = helper.make_graph([n], "ref", [helper.make_value_info("m", L.typeproto_of_tspec(t_i)),
                                           helper.make_value_info("x", L.typeproto_of_tspec(t_f23))],
                              [helper.make_value_info(o, onnx.TypeProto()) for o in outs])
        return helper.make_model(g, opset_imports=[helper.make_operatorsetid("", v)])

    plans.append(mk("Loop", "hand_loop_carry_scan", loop_kw, [("O", 0), ("O", None), ("V", [1])], [t_i, t_f23],
                    {"body": ([["T", I, [1]], ["T", B, [1]], t_f23], [["T", B, [1]], t_f23, t_f23])}, loop_ref, 2))
    # Loop without M, cond and carried values: both leading optionals omitted, min_input = 2 keeps the two empty names
    def loop0_kw(vs):
        return {"M": None, "cond": None, "v_initial": [], "body": lambda i, c: [c, op.add(i, i)]}

    def loop0_ref(outs):
        body = helper.make_graph(
            [helper.make_node("Identity", ["c_in"], ["c_out"]), helper.make_node("Add", ["i", "i"], ["s_out"])], "body",
            # formal parameters typed int64[1] / bool[1] as spox's loop() prescribes for its body (ONNX's convention is
            # scalars; that choice belongs to the constructor - C19/C06 - and is reported in the notes, not judged here)
            [helper.make_value_info("i", L.typeproto_of_tspec(["T", I, [1]])), helper.make_value_info("c_in", L.typeproto_of_tspec(["T", B, [1]]))],
            [helper.make_value_info("c_out", L.typeproto_of_tspec(["T", B, [1]])), helper.make_value_info("s_out", L.typeproto_of_tspec(["T", I, [1]]))])
        n = helper.make_node("Loop", ["", ""], outs, body=body)
        g = helper.make_graph([n], "ref", [], [helper.make_value_info(o, onnx.TypeProto()) for o in outs])
        return helper.make_model(g, opset_imports=[helper.make_operatorsetid("", v)])

    plans.append(mk("Loop", "hand_loop_no_inputs", loop0_kw, [("O", None), ("O", None), ("V", [])], [],
                    {"body": ([["T", I, [1]], ["T", B, [1]]], [["T", B, [1]], ["T", I, [1]]])}, loop0_ref, 1))

    # Scan: one state variable, one scanned input (axis 0)
    t_f3, t_f53 = ["T", F, [3]], ["T", F, [5, 3]]

    def scan_kw(vs):
        return {"initial_state_and_scan_inputs": [vs[0], vs[1]], "num_scan_inputs": 1,
                "body": lambda a, x: [op.add(a, x), op.mul(a, x)]}

    def scan_ref(outs):
        body = helper.make_graph(
            [helper.make_node("Add", ["a", "x"], ["a_out"]), helper.make_node("Mul", ["a", "x"], ["s_out"])], "body",
            [helper.make_value_info("a", L.typeproto_of_tspec(t_f3)), helper.make_value_info("x", L.typeproto_of_tspec(t_f3))],
            [helper.make_value_info("a_out", L.typeproto_of_tspec(t_f3)), helper.make_value_info("s_out", L.typeproto_of_tspec(t_f3))])
        n = helper.make_node("Scan", ["s", "xs"], outs, body=body, num_scan_inputs=1)
        g = helper.make_graph([n], "ref", [helper.make_value_info("s", L.typeproto_of_tspec(t_f3)),
                                           helper.make_value_info("xs", L.typeproto_of_tspec(t_f53))],
                              [helper.make_value_info(o, onnx.TypeProto()) for o in outs])
        return helper.make_model(g, opset_imports=[helper.make_operatorsetid("", v)])

    plans.append(mk("Scan", "hand_scan_state_and_scan", scan_kw, [("V", [0, 1])], [t_f3, t_f53],
                    {"body": ([t_f3, t_f3], [t_f3, t_f3])}, scan_ref, 2,
                    {"num_scan_inputs": (int(AttributeProto.INT), "1")}))

    # SequenceMap: body over the element type
    t_seq = ["S", t_f23]

    def sm_kw(vs):
        return {"input_sequence": vs[0], "additional_inputs": [], "body": lambda x: [op.add(x, x)]}

    def sm_ref(outs):
        body = helper.make_graph([helper.make_node("Add", ["e", "e"], ["e_out"])], "body",
                                 [helper.make_value_info("e", L.typeproto_of_tspec(t_f23))],
                                 [helper.make_value_info("e_out", L.typeproto_of_tspec(t_f23))])
        n = helper.make_node("SequenceMap", ["s"], outs, body=body)
        g = helper.make_graph([n], "ref", [helper.make_value_info("s", L.typeproto_of_tspec(t_seq))],
                              [helper.make_value_info(o, onnx.TypeProto()) for o in outs])
        return helper.make_model(g, opset_imports=[helper.make_operatorsetid("", v)])

    if "SequenceMap" in op._OPERATORS:
        plans.append(mk("SequenceMap", "hand_sequencemap_add", sm_kw, [("S", 0), ("V", [])], [t_seq],
                        {"body": ([t_f23], [t_f23])}, sm_ref, 1))
    return plans


def synthetic_specs(v):
    """Hand-written NodeProtos (valid calls) for operators without a usable corpus case; they go through the generic
    path and are mutated like corpus cases."""
    F, D, I64, I32, B = TensorProto.FLOAT, TensorProto.DOUBLE, TensorProto.INT64, TensorProto.INT32, TensorProto.BOOL

    def T(e, *sh):
        return ["T", e, list(sh)]

    seq = ["S", T(F, 2, 3)]
    items = [
        ("GlobalLpPool", ["X"], {"X": T(F, 1, 3, 5, 5)}, {"p": 2}, {}),
        ("MaxRoiPool", ["X", "rois"], {"X": T(F, 1, 3, 8, 8), "rois": T(F, 2, 5)}, {"pooled_shape": [2, 2], "spatial_scale": 1.0}, {}),
        ("Multinomial", ["input"], {"input": T(F, 2, 4)}, {"sample_size": 3, "dtype": 6}, {}),
        ("RandomNormal", [], {}, {"shape": [2, 3], "dtype": 1, "mean": 0.0, "scale": 1.0}, {}),
        ("RandomUniform", [], {}, {"shape": [2, 3], "dtype": 11, "high": 1.0, "low": 0.0}, {}),
        ("RandomNormalLike", ["input"], {"input": T(F, 2, 3)}, {}, {}),
        ("RandomUniformLike", ["input"], {"input": T(I64, 2, 3)}, {"dtype": 1}, {}),
        ("Optional", ["input"], {"input": T(F, 2)}, {}, {}),
        ("OptionalHasElement", ["o"], {"o": ["O", T(F, 2)]}, {}, {}),
        ("OptionalGetElement", ["o"], {"o": ["O", T(F, 2)]}, {}, {}),
        ("SequenceConstruct", ["a", "b"], {"a": T(F, 2, 3), "b": T(F, 2, 3)}, {}, {}),
        ("SequenceEmpty", [], {}, {"dtype": 7}, {}),
        ("SequenceAt", ["s", "p"], {"s": seq, "p": T(I64)}, {}, {}),
        ("SequenceErase", ["s", "p"], {"s": seq, "p": T(I64)}, {}, {}),
        ("SequenceErase", ["s"], {"s": seq}, {}, {}),
        ("SequenceInsert", ["s", "t", "p"], {"s": seq, "t": T(F, 2, 3), "p": T(I64)}, {}, {}),
        ("SequenceLength", ["s"], {"s": seq}, {}, {}),
        ("ConcatFromSequence", ["s"], {"s": seq}, {"axis": 0}, {}),
        ("ConcatFromSequence", ["s"], {"s": seq}, {"axis": 1, "new_axis": 1}, {}),
        ("SplitToSequence", ["x", "split"], {"x": T(F, 6, 2), "split": T(I64, 2)}, {"axis": 0},
         {"split": np.array([2, 4], dtype=np.int64)}),
        ("Reshape", ["data", "shape"], {"data": T(F, 2, 3, 4), "shape": T(I64, 2)}, {}, {"shape": np.array([6, -1], dtype=np.int64)}),
        ("Range", ["start", "limit", "delta"], {"start": T(I64), "limit": T(I64), "delta": T(I64)}, {},
         {"start": np.array(1, dtype=np.int64), "limit": np.array(9, dtype=np.int64), "delta": np.array(2, dtype=np.int64)}),
    ]
    # constants of element types that only newer opsets know (float8 since 19, int4/uint4 since 21): Constant of an older module must
    # be refused like ONNX refuses the node, a newer one accepts it
    try:
        import ml_dtypes
        from onnx import numpy_helper as _nh
        for dtn in ("float8_e4m3fn", "float8_e5m2", "int4", "uint4"):
            arr = np.array([1, 2, 3]).astype(getattr(ml_dtypes, dtn))
            items.append(("Constant", [], {}, {"value": _nh.from_array(arr, "v")}, {}))
    except Exception:  # noqa: BLE001
        pass
    # a node for which ONNX inference invents more than ten symbolic dimensions (unk__0 .. unk__11): all of them are unknown
    items.append(("Split", ["input", "split"], {"input": T(F, "N", 4), "split": T(I64, 12)}, {"axis": 0}, {}, [f"out{k}" for k in range(12)]))
    items.append(("Split", ["input", "split"], {"input": T(F, 4, "M"), "split": T(I64, 13)}, {"axis": 1}, {}, [f"out{k}" for k in range(13)]))
    for red in ("ReduceL1", "ReduceL2", "ReduceLogSum", "ReduceLogSumExp", "ReduceMean", "ReduceSumSquare", "ReduceMax", "ReduceMin", "ReduceProd"):
        items.append((red, ["data"], {"data": T(F, 3, 2, 2)}, {"axes": [1], "keepdims": 1}, {}))
        items.append((red, ["data"], {"data": T(F, 3, 2, 2)}, {"keepdims": 0}, {}))
        items.append((red, ["data", "axes"], {"data": T(F, 3, 2, 2), "axes": T(I64, 1)}, {"keepdims": 1},
                      {"axes": np.array([-1], dtype=np.int64)}))
    # ALL operands constant, for operators whose reference implementation returns another element type than ONNX infers (the value is
    # dropped with a warning - the constructor neither raises nor changes the types)
    F16 = TensorProto.FLOAT16
    items.append(("ReduceSumSquare", ["data"], {"data": T(I32, 1, 2)}, {"keepdims": 1}, {"data": np.array([[1, 2]], dtype=np.int32)}))
    items.append(("LayerNormalization", ["X", "Scale"], {"X": T(F16, 2, 3), "Scale": T(F16, 3)}, {},
                  {"X": np.arange(6, dtype=np.float16).reshape(2, 3), "Scale": np.ones(3, dtype=np.float16)}, ["Y", "Mean", "InvStdDev"]))
    items.append(("LayerNormalization", ["X", "Scale"], {"X": T(D, 2, 3), "Scale": T(D, 3)}, {},
                  {"X": np.arange(6, dtype=np.float64).reshape(2, 3), "Scale": np.ones(3, dtype=np.float64)}, ["Y", "Mean", "InvStdDev"]))
    out = []
    m = module(v)
    for idx, item in enumerate(items):
        opname, ins, types, attrs, consts = item[:5]
        outs_ = item[5] if len(item) > 5 else ["out0"]
        if opname not in m._OPERATORS:
            continue
        node = helper.make_node(opname, ins, outs_, **attrs)
        out.append({"v": v, "op": opname, "src": f"synthetic_{idx}_{opname}", "mut": "synthetic", "node": node,
                    "intypes": dict(types), "consts": dict(consts), "const_via": "initializer", "_data": dict(consts)})
    return out


# ------------------------------------------------------------------------------------------------ evaluation of one plan


def classify(run, p, rs, refA, refB, st):  # run: anything with .fail(kind, key, what, detail)
    """Direct oracle: compare the spox outcome with the independent reference.  Returns a short tag."""
    spec, ci = p.spec, p.ci
    exc = rs["exc"]
    label = f"{ci.op}@v{spec['v']} [{spec['src']}{' / ' + spec['mut'] if spec['mut'] else ''}]"
    detail = {"spec": spec_to_json({k: v for k, v in spec.items() if not k.startswith("_")}) if "node" in spec else spec,
              "call": label}
    untyped = any(t is None for _, t, _ in p.env if True) and any(
        t is None for i, t, _ in p.env if any(_uses(a, i) for a in p.ins))
    if (exc is not None and ci.op == "Split" and ci.version >= 18 and isinstance(exc, AssertionError) and len(spec["node"].input) >= 2
            and spec["node"].input[1] and not any(a.name == "num_outputs" for a in spec["node"].attribute)):
        run.fail("impl", "C05/Split/split-input-without-num_outputs",
                 "split(input, split=...) of opset >= 18 cannot be called: the output count is taken from the attribute "
                 "num_outputs, which ONNX forbids together with the 'split' input (AssertionError without it, InferenceError with it)",
                 dict(detail, exception=f"{type(exc).__name__}: {str(exc)[:200]}"))
        return "F21"
    if untyped:
        if exc is not None:
            fam = "spox-side-inference" if ci.patched else "plumbing"
            run.fail("impl", f"C05/{ci.op}/untyped-input-raises-{type(exc).__name__}",
                     f"{ci.op}: a call with an untyped input raises {type(exc).__name__} instead of returning untyped outputs ({fam})",
                     dict(detail, exception=f"{type(exc).__name__}: {str(exc)[:300]}"))
            return "untyped-raises"
        bad = [i for i, o in enumerate(rs["outs"]) if o.type is not None]
        if bad and not ci.patched:
            run.fail("impl", f"C05/{ci.op}/untyped-input-typed-output",
                     f"{ci.op}: untyped input but output {bad} is typed", detail)
            return "untyped-typed-output"
        return "untyped-ok"
    a_ok = refA[0] == "ok"
    if exc is not None:
        ename = type(exc).__name__
        if not a_ok:
            return "both-reject" if isinstance(exc, InferenceError) else f"both-reject/{ename}"
        # ONNX accepts the node, spox raised
        msg = str(exc)
        if (ci.op == "BatchNormalization" and isinstance(exc, InferenceError) and "outputs should be 1" in msg
                and len(spec["node"].output) == 1 and refB is not None and refB[0] == "err"
                and _attr_int(spec["node"], "training_mode", 0) == 0):
            run.fail("impl", "C05/BatchNormalization/inference-mode-three-outputs",
                     "batch_normalization with training_mode=0 always raises: spox names all three declared outputs, ONNX requires exactly one",
                     dict(detail, exception=msg[:300], reference="one-output node accepted by ONNX; three-output node rejected"))
            return "F20"
        if ci.patched and isinstance(exc, InferenceError) and not _from_onnx(exc):
            st["patched-rejects-more"] = st.get("patched-rejects-more", 0) + 1
            return "patched-rejects-more"
        run.fail("impl", f"C05/{ci.op}/rejects-accepted-node/{ename}/{_mutkind(spec)}",
                 f"{ci.op}: the constructor raises {ename} although ONNX strict inference accepts the same node",
                 dict(detail, exception=f"{ename}: {msg[:400]}", reference_types=refA[1]))
        return "spox-rejects-only"
    # spox accepted
    got = [L.tspec_of_spox_type(o.type) for o in rs["outs"]]
    if not a_ok:
        if refB is not None and refB[0] == "ok":
            st["accepted-only-with-all-outputs"] = st.get("accepted-only-with-all-outputs", 0) + 1
            return "accepted-only-with-all-outputs"
        run.fail("impl", f"C05/{ci.op}/accepts-rejected-node/{_mutkind(spec)}",
                 f"{ci.op}: the constructor accepts a call that ONNX strict inference rejects ({refA[1]})",
                 dict(detail, reference_error=refA[2], spox_types=got))
        return "spox-accepts-only"
    want = refA[1]
    m = min(len(got), len(want))
    full = refB[1] if (refB is not None and refB[0] == "ok") else None
    differs = any(w != "absent" and g != w for g, w in zip(got[:m], want[:m]))
    if differs or (full is not None and got[:len(full)] != full[:len(got)]):
        if ci.patched:
            st["patched-type-differs"] = st.get("patched-type-differs", 0) + 1
            run.fail("note", f"{ci.op}/{_mutkind(spec)}", "spox-side inference reports a different type than ONNX",
                     {"call": label, "spox": got, "onnx": want})
            return "patched-type-differs"
        run.fail("impl", f"C05/{ci.op}/type-differs/{_mutkind(spec)}",
                 f"{ci.op}: reported output types differ from those ONNX strict inference assigns",
                 dict(detail, spox_types=got, reference_types=want, reference_all_outputs=full))
        return "type-differs"
    return "both-accept"


def _uses(a, i):
    return (a[0] in "SO" and a[1] == i) or (a[0] == "V" and i in a[1])


def _attr_int(node, name, default):
    for a in node.attribute:
        if a.name == name:
            return int(a.i)
    return default


def _from_onnx(exc):
    return exc.__cause__ is not None and isinstance(exc.__cause__, InferenceError)


def _mutkind(spec):
    return (spec.get("mut") or "corpus").split(":")[0]


def _nophase(_name):
    pass


PHASE = _nophase


def evaluate(run, p: Plan, st, coq_jobs):
    """Run one plan through spox and the reference; queue the model evaluation."""
    ci, spec = p.ci, p.spec
    PHASE("spox")
    rs = run_spox(p)
    exc = rs["exc"]
    PHASE("ref")
    untyped_in = any(t is None for i, t, _ in p.env if any(_uses(a, i) for a in p.ins))
    # reference models
    if untyped_in:
        refA = refB = None
    elif hasattr(p, "ref_fn"):
        k = p.k_variadic or 0
        outsA = [f"o{i}" for i in range(ci.declared_outputs(k))]
        refA, refB = run_ref(p.ref_fn(outsA), outsA), None
    else:
        outsA = list(spec["node"].output)
        refA = run_ref(ref_model(p, outsA), outsA)
        refB = None
        k = p.k_variadic if p.k_variadic is not None else 0
        full = ci.declared_outputs(k)
        if full != len(outsA) or any(not o for o in outsA):
            outsB = [o if o else f"__o{i}" for i, o in enumerate(outsA)] + [f"__o{i}" for i in range(len(outsA), full)]
            outsB = outsB[:max(full, len(outsA))]
            refB = run_ref(ref_model(p, outsB), outsB)
    PHASE("compare")
    tag = classify(run, p, rs, refA, refB, st)
    st["tags"][tag] = st["tags"].get(tag, 0) + 1
    # flags of the real inference call
    for c in rs["caps"]:
        kw = c["kw"]
        if not (kw.get("check_type") is True and kw.get("strict_mode") is True and kw.get("data_prop") is True) or c["args"]:
            run.fail("impl", f"C05/{ci.op}/inference-flags",
                     "spox calls infer_shapes without check_type/strict_mode/data_prop all enabled",
                     {"call": spec["src"], "kw": {k: str(v) for k, v in kw.items()}})
    # correspondence job
    untyped = tag.startswith("untyped")
    if exc is None:
        outs = rs["outs"]
        kk = p.k_variadic if p.k_variadic is not None else 0
        if ci.declared_outputs(kk) != len(outs):
            run.fail("corr", f"C05/{ci.op}/output-count", "number of returned Vars differs from the declared outputs",
                     {"call": spec["src"], "returned": len(outs), "declared": ci.declared_outputs(kk)})
            return tag
        keys = ci.out_keys(kk)
        real_outcome = "Returned " + ";".join(f"{k}:{L.show_tspec(L.tspec_of_spox_type(o.type))}" for k, o in zip(keys, outs))
        # Attr names as they stand on the node
        node = rs["node"]
        names = {k: (a._name if a is not None else None) for k, a in node.attrs.get_fields().items()}
        attrs = []
        for key, setv in p.attrs:
            if setv is not None and names.get(key) is not None:
                setv = (names[key], setv[1])
            if (setv is None) != (names.get(key) is None):
                run.fail("corr", f"C05/{ci.op}/attr-set/{key}", "attribute set/unset state differs from the constructor arguments",
                         {"call": spec["src"], "key": key, "on_node": names.get(key), "expected": setv})
            attrs.append((key, setv))
        p.attrs = attrs
    else:
        kk = p.k_variadic if p.k_variadic is not None else 0
        real_outcome = "Raised " + type(exc).__name__ if isinstance(exc, InferenceError) or rs["caps"] and "exc" in rs["caps"][-1] \
            else "RaisedOther:" + type(exc).__name__
    cap = rs["caps"][-1] if rs["caps"] else None
    if cap is None and not untyped:
        if exc is None and not ci.patched:
            run.fail("impl", f"C05/{ci.op}/no-inference-call", "typed call accepted without consulting ONNX inference",
                     {"call": spec["src"], "mut": spec["mut"]})
        return tag
    if cap is not None and untyped and not ci.patched:
        run.fail("impl", f"C05/{ci.op}/untyped-but-checked", "inference was consulted although an input is untyped",
                 {"call": spec["src"], "mut": spec["mut"]})
    real_model = L.show_model(cap["model"]) if cap is not None else "TypeError"
    term = coq_call_of(p, kk)
    rec = infer_record(cap) if cap is not None else ("err", "unreachable")
    coq_jobs.append({"term": term, "infer": L.coq_infer_result(rec), "real_model": real_model, "real_outcome": real_outcome,
                     "cmp_outcome": not ci.patched and (exc is None or real_outcome.startswith("Raised ")),
                     "label": f"{ci.op}@v{spec['v']} [{spec['src']} / {spec['mut']}]", "spec": spec, "untyped": untyped})
    return tag


def run_coq_jobs(run, jobs, st, name="c05"):
    exprs = []
    for j in jobs:
        exprs.append(f"let c := {j['term']} in (keys_ok c, call_ok c, variadic_last (s_ins (c_sig c)) && variadic_last (s_outs (c_sig c)), "
                     f"show_sres (singleton c), show_outcome (call_outcome {j['infer']} c))")
    res = run.coq_eval(name, HEADER, exprs, shard=120)
    ok = 0
    for j, r in zip(jobs, res):
        m = _parse_tuple(r)
        if m is None:
            run.fail("corr", "C05/unparsable-model-output", "cannot parse the model's answer", {"raw": r[:500], "call": j["label"]})
            continue
        keys_ok, call_ok, shape_ok, smodel, outcome = m
        bad = []
        if not (keys_ok == "true" and call_ok == "true" and shape_ok == "true"):
            bad.append(f"theorem hypotheses fail: keys_ok={keys_ok} call_ok={call_ok} variadic_last={shape_ok}")
        if smodel != j["real_model"]:
            bad.append("singleton model differs")
        if j["cmp_outcome"] and outcome != j["real_outcome"]:
            bad.append("outcome differs")
        if bad:
            spec = j["spec"]
            run.fail("corr", f"C05/model-vs-impl/{spec['op']}/{_mutkind(spec)}", "model and implementation disagree: " + "; ".join(bad),
                     {"call": j["label"], "model_singleton": smodel, "real_singleton": j["real_model"],
                      "model_outcome": outcome, "real_outcome": j["real_outcome"],
                      "spec": spec})
        else:
            ok += 1
    st["coq_ok"] = st.get("coq_ok", 0) + ok
    return ok


def _parse_tuple(r):
    """(true, true, true, "..."%string, "...")  ->  5 python strings"""
    from harness.common import parse_coq_string, split_top

    r = r.strip()
    if not (r.startswith("(") and r.endswith(")")):
        return None
    parts = split_top(r[1:-1], ",")
    if len(parts) != 5:
        return None
    try:
        return parts[0], parts[1], parts[2], parse_coq_string(parts[3]), parse_coq_string(parts[4])
    except AssertionError:
        return None


# ------------------------------------------------------------------------------------------------ table obligations over all shipped classes


def class_table_obligations(run, st):
    """Every shipped ai.onnx class: flattened keys cannot collide, Attr-free facts the theorems assume."""
    import re

    n = 0
    for v in VERSIONS:
        m = module(v)
        for op in m._OPERATORS:
            ci = info(v, op)
            n += 1
            names = [x for x, _ in ci.in_slots] + [x for x, _ in ci.out_slots]
            bad = []
            if len(set(names)) != len(names) or any(not x for x in names):
                bad.append("duplicate or empty field name among inputs+outputs")
            for vn, k in ci.in_slots + ci.out_slots:
                if k == "VARIADIC" and any(re.fullmatch(re.escape(vn) + r"_\d+", x) for x in names):
                    bad.append(f"field name collides with variadic key {vn}_i")
            for sl in (ci.in_slots, ci.out_slots):
                if any(k == "VARIADIC" for _, k in sl[:-1]):
                    bad.append("variadic field not last")
            if [x for x, _ in ci.in_slots] != [i.name for i in ci.schema.inputs][:len(ci.in_slots)] and False:
                bad.append("input names differ from schema")
            if bad:
                run.fail("proof", f"C05/class-table/{op}@{v}", "a hypothesis of the C05 theorems fails for a shipped class", bad)
    st["classes_checked"] = n
    # the signature-level hypothesis of C05_keys_ok_from_signature, evaluated by the model for every distinct class
    distinct = {}
    for v in VERSIONS:
        for op in module(v)._OPERATORS:
            ci = info(v, op)
            distinct[(ci.op, ci.version)] = ci
    keys = sorted(distinct)
    res = run.coq_eval("sigs", HEADER, [f"sig_keys_ok {distinct[k].coq_sig()} && onnx_shape (s_ins {distinct[k].coq_sig()}) && "
                                        f"onnx_shape (s_outs {distinct[k].coq_sig()})" for k in keys], shard=100)
    for k, r in zip(keys, res):
        if r.strip() != "true":
            run.fail("proof", f"C05/sig-keys-ok/{k[0]}@{k[1]}", "sig_keys_ok / onnx_shape is false for a shipped class", {"class": k, "model": r})
    st["distinct_classes_sig_keys_ok"] = len(keys)


# ------------------------------------------------------------------------------------------------ isolated, parallel evaluation


class Sink:
    """Collects failures inside a worker process (same interface as Run.fail)."""

    def __init__(self):
        self.fails = []

    def fail(self, kind, key, what, detail=None):
        self.fails.append((kind, key, what, detail))


def eval_one(spec):
    """Evaluate one spec; returns a picklable record."""
    sink, st, jobs = Sink(), {"tags": {}}, []
    rec = {"op": spec["op"], "v": spec["v"], "mutkind": "hand" if "hand" in spec else _mutkind(spec), "tag": None, "unsupported": None}
    try:
        if "kind_base" in spec:
            rec["kind_hist"] = kind_eval(sink, spec["kind_base"], jobs)
        else:
            if "hand" in spec:
                p = [q for q in hand_plans(spec["v"]) if q.spec["src"] == spec["hand"]][0]
            else:
                p = plan_from_spec(spec)
            rec["tag"] = evaluate(sink, p, st, jobs)
    except Unsupported as e:
        rec["unsupported"] = str(e).split(":")[0]
    except Exception as e:  # noqa: BLE001
        import traceback

        sink.fail("proof", f"C05/harness-crash/{spec['op']}/{rec['mutkind']}", "the harness crashed on a call",
                  {"spec": _jspec(spec), "error": traceback.format_exc()[-1500:]})
    for j in jobs:
        j["spec"] = _jspec(j["spec"])
    rec["fails"], rec["jobs"] = sink.fails, jobs
    rec["st"] = {k: v for k, v in st.items() if isinstance(v, int)}
    return rec


def _jspec(spec):
    if "kind_base" in spec:
        return dict({k: v for k, v in spec.items() if k != "kind_base"}, kind_base=_jspec(spec["kind_base"]))
    return spec_to_json({k: v for k, v in spec.items() if not k.startswith("_")}) if "node" in spec else dict(spec)


def parallel_eval(specs, nproc):
    """Run eval_one over all specs in forked workers; a worker killed by a crash inside ONNX's C++ code is restarted
    after the offending spec.  Returns (records by index, indices that killed a worker)."""
    import os
    import pickle
    import threading

    results, crashed, lock = {}, [], threading.Lock()

    def spawn(idxs):
        r, w = os.pipe()
        pid = os.fork()
        if pid == 0:
            os.close(r)
            try:
                dn = os.open(os.devnull, os.O_WRONLY)
                os.dup2(dn, 2)   # ONNX's C++ assertion messages of deliberately ill-typed nodes
                with os.fdopen(w, "wb") as out:
                    global PHASE

                    def PHASE(name, out=out):  # noqa: N802
                        pickle.dump(("phase", name), out)
                        out.flush()

                    for i in idxs:
                        pickle.dump(("start", i), out)
                        out.flush()
                        rec = eval_one(specs[i])
                        pickle.dump(("done", i, rec), out)
                        out.flush()
            finally:
                os._exit(0)
        os.close(w)
        return pid, os.fdopen(r, "rb")

    def serve(idxs):
        while idxs:
            pid, rd = spawn(idxs)
            inflight, done, phase = None, set(), "plan"
            while True:
                try:
                    msg = pickle.load(rd)
                except EOFError:
                    break
                except Exception:  # noqa: BLE001
                    break
                if msg[0] == "start":
                    inflight, phase = msg[1], "plan"
                elif msg[0] == "phase":
                    phase = msg[1]
                else:
                    with lock:
                        results[msg[1]] = msg[2]
                    done.add(msg[1])
                    inflight = None
            rd.close()
            os.waitpid(pid, 0)
            if inflight is None:
                idxs = [i for i in idxs if i not in done]
                if idxs:  # died between two specs: should not happen
                    with lock:
                        crashed.append((idxs[0], "between"))
                    idxs = idxs[1:]
                continue
            with lock:
                crashed.append((inflight, phase))
            idxs = idxs[idxs.index(inflight) + 1:]

    threads = [threading.Thread(target=serve, args=([i for i in range(k, len(specs), nproc)],)) for k in range(nproc)]
    for t in threads:
        t.start()
    for t in threads:
        t.join()
    return results, sorted(crashed)


# ------------------------------------------------------------------------------------------------ wrong-kind arguments


def kind_eval(run, b, jobs):
    """One constructor (base spec b): each input field once with an argument of the WRONG KIND - a required input given as None / as a
    list of Vars / as a non-Var object, an optional input given as a list / a non-Var object, a variadic field given as a bare Var / a
    list holding None / a list holding a non-Var / a non-iterable.  The call must raise at the call site (direct oracle) and the model's
    [construct] must answer RaisedOther for the variants it can express (correspondence, evaluated by the parent).  Runs in a worker
    process: a wrong-kind argument that gets as far as ONNX's C++ inference may abort the interpreter."""
    p = plan_from_spec(b)
    ci = p.ci
    some_var = next((v for v in p.kw.values() if type(v).__name__ == "Var"), None)
    if some_var is None:
        some_var = next((v[0] for v in p.kw.values() if isinstance(v, list) and v), None)
    if some_var is None:
        raise Unsupported("no Var among the arguments")
    hist = {}
    for si, (fname, kind) in enumerate(ci.in_slots):
        if fname not in p.kw:
            continue
        cur = p.ins[si]
        any_id = cur[1] if cur[0] == "S" else (cur[1] if cur[0] == "O" and cur[1] is not None else (cur[1][0] if cur[0] == "V" and cur[1] else 0))
        if kind == "SINGLE":
            variants = [("none", None, ("O", None)), ("list-of-var", [some_var], ("V", [any_id])), ("array", np.zeros(2, np.float32), None),
                        ("float", 1.5, None), ("empty-tuple", (), ("V", [])), ("empty-str", "", None), ("zero", 0, None)]
        elif kind == "OPTIONAL":
            # (FALSY objects that are neither None nor a Var are no way of omitting an optional input either)
            variants = [("list-of-var", [some_var], ("V", [any_id])), ("array", np.zeros(2, np.float32), None), ("float", 1.5, None),
                        ("empty-tuple", (), ("V", [])), ("empty-list", [], ("V", [])), ("empty-str", "", None), ("zero", 0, None),
                        ("false", False, None), ("empty-dict", {}, None)]
        else:
            variants = [("bare-var", some_var, ("S", any_id)), ("list-with-none", [some_var, None], None),
                        ("list-with-array", [some_var, np.zeros(2, np.float32)], None), ("not-iterable", 3, None)]
        for vname, value, coq_arg in variants:
            kw = dict(p.kw)
            kw[fname] = value
            tag = f"{kind.lower()}/{vname}"
            PHASE("wrong-kind:" + fname + "=" + vname)
            CAP.calls.clear()
            with warnings.catch_warnings():
                warnings.simplefilter("ignore")
                try:
                    ci.con(**kw)
                    exc = None
                except Exception as e:  # noqa: BLE001
                    exc = e
            hist[tag] = hist.get(tag, 0) + 1
            label = f"{ci.op}@v{b['v']} [{b['src']} / wrong-kind:{fname}={vname}]"
            if exc is None:
                run.fail("impl", f"C05/{ci.op}/wrong-kind-accepted/{tag}",
                         f"{ci.op}: the constructor ACCEPTS a {vname} argument for the {kind.lower()} input field '{fname}' - the call "
                         "must raise at the call site (ONNX rejects a node without a required input; a non-Var is no operand at all)",
                         {"call": label, "field": fname, "field_kind": kind, "argument": vname, "spec": _jspec(b)})
            if coq_arg is not None:
                ins = list(p.ins)
                ins[si] = coq_arg
                kk = p.k_variadic if p.k_variadic is not None else 0
                term = L.coq_call(ci.coq_sig(), ins, ("init", max(0, int(kk)), p.n_vars), p.attrs, p.env)
                jobs.append({"kind_job": True, "label": label, "term": term, "spec": b,
                             "real": None if exc is None else type(exc).__name__ + ": " + str(exc)[:200],
                             "real_raises": exc is not None and not isinstance(exc, InferenceError)})
    return hist


def run_kind_jobs(run, jobs, st):
    exprs = [f"let c := {j['term']} in (args_ok (s_ins (c_sig c)) (c_ins c), show_outcome (construct (fun _ : smodel => "
             f"@inl string (list (string * option oty)) \"unreachable\") c))" for j in jobs]
    ok = 0
    if exprs:
        res = run.coq_eval("c05kind", HEADER, exprs, shard=150)
        for j, r in zip(jobs, res):
            flat = " ".join(r.split())
            model_raises = "false" in flat.split(",")[0] and '"RaisedOther"' in flat
            if model_raises and j["real_raises"]:
                ok += 1
            else:
                run.fail("corr", "C05/model-vs-impl/wrong-kind", "model and implementation disagree on a wrong-kind argument",
                         {"call": j["label"], "model": flat[:200], "real": j["real"], "spec": j["spec"]})
    st["coq_ok"] = st.get("coq_ok", 0) + ok
    return ok


# ------------------------------------------------------------------------------------------------ driver


def run(run: Run) -> int:
    from harness.common import NPROC

    run.check_theorems(PROPS, CONE, thorough_coqchk=(run.tier == "thorough"))
    install_capture()
    rng = run.rng
    st = {"tags": {}, "skips": {}, "unsupported": {}}
    class_table_obligations(run, st)
    corpus = load_corpus()
    n_mut = 6000 if run.tier == "quick" else 60000
    cov_ops, valid_ops = {v: set() for v in VERSIONS}, {v: set() for v in VERSIONS}
    seen_con, base_specs, per_module = set(), [], {}
    for v in VERSIONS:
        specs = corpus_specs(corpus, v, st["skips"])
        per_module[v] = len(specs)
        for s in specs:
            ci = info(v, s["op"])
            key = (id(ci.con), s["src"])
            if key in seen_con:
                st["replayed-shared-constructor"] = st.get("replayed-shared-constructor", 0) + 1
                cov_ops[v].add(s["op"])  # the very same constructor object and case were replayed through another module
                if run.tier == "quick":
                    continue
            seen_con.add(key)
            base_specs.append(s)
    for v in VERSIONS:
        for s in synthetic_specs(v):
            key = (id(info(v, s["op"]).con), s["src"])
            if key in seen_con:
                cov_ops[v].add(s["op"])
                if run.tier == "quick":
                    continue
            seen_con.add(key)
            base_specs.append(s)
    all_specs = list(base_specs)
    hand_ops = {"hand_if_add_mul": "If", "hand_loop_carry_scan": "Loop", "hand_loop_no_inputs": "Loop",
                "hand_scan_state_and_scan": "Scan", "hand_sequencemap_add": "SequenceMap"}
    for v in VERSIONS:
        for name in HAND_NAMES:
            if hand_ops[name] in module(v)._OPERATORS:
                all_specs.append({"v": v, "op": hand_ops[name], "src": name, "mut": "hand", "hand": name})
    tries = 0
    n_base = len(all_specs)
    # systematic part: for every distinct constructor, every input untyped once (and every input of unknown rank once)
    first_of = {}
    for b in base_specs:
        if b["mut"] in ("", "synthetic"):
            first_of.setdefault(id(info(b["v"], b["op"]).con), b)
    for b in first_of.values():
        for nm in dict.fromkeys(x for x in b["node"].input if x):
            if nm in b["consts"]:
                continue
            for kind in ("untyped", "rank-unknown"):
                ms = dict(b)
                ms["intypes"] = dict(b["intypes"])
                ms["intypes"][nm] = None if kind == "untyped" else _map_tensor(b["intypes"][nm], lambda x: ["T", x[1], None])
                ms["mut"] = f"{kind}:{nm}"
                all_specs.append(ms)
    n_base = len(all_specs)
    variadic_bases = [b for b in base_specs if info(b["v"], b["op"]).in_slots and info(b["v"], b["op"]).in_slots[-1][1] == "VARIADIC"]
    optional_bases = [b for b in base_specs if any(k == "OPTIONAL" for _, k in info(b["v"], b["op"]).in_slots)]
    while len(all_specs) - n_base < n_mut and tries < n_mut * 8:
        tries += 1
        r = rng.random()
        force = None
        if r < 0.04 and variadic_bases:
            base, force = rng.choice(variadic_bases), "variadic-len"
        elif r < 0.10 and optional_bases:
            base, force = rng.choice(optional_bases), rng.choice(["drop-optional", "dup-optional"])
        else:
            base = rng.choice(base_specs)
        try:
            ms = mutate(rng, base, info(base["v"], base["op"]), force)
        except Exception:  # noqa: BLE001
            ms = None
        if ms is not None:
            all_specs.append(ms)
    n_plain = len(all_specs)
    for b in first_of.values():    # wrong-kind arguments, one spec per distinct constructor
        all_specs.append({"v": b["v"], "op": b["op"], "src": b["src"], "mut": "wrong-kind", "kind_base": b})
    results, crashed = parallel_eval(all_specs, max(2, NPROC - 2))
    jobs, hist_mut, hist_op, n_eval = [], {}, {}, 0
    kind_jobs, kind_hist = [], {}
    patched_notes = {}
    shared = {}
    for s in base_specs:
        shared.setdefault((id(info(s["v"], s["op"]).con), s["src"]), s)
    for i, spec in enumerate(all_specs):
        rec = results.get(i)
        if rec is None:
            continue
        for f in rec["fails"]:
            if f[0] == "note":
                patched_notes.setdefault(f[1], f[3])
            else:
                run.fail(*f)
        if rec["unsupported"]:
            st["unsupported"][rec["unsupported"]] = st["unsupported"].get(rec["unsupported"], 0) + 1
            continue
        if "kind_hist" in rec:
            for k, n in rec["kind_hist"].items():
                kind_hist[k] = kind_hist.get(k, 0) + n
            kind_jobs += rec["jobs"]
            continue
        if rec["tag"] is None:
            continue
        n_eval += 1
        tag, mk = rec["tag"], rec["mutkind"]
        st["tags"][tag] = st["tags"].get(tag, 0) + 1
        hist_op[spec["op"]] = hist_op.get(spec["op"], 0) + 1
        hist_mut.setdefault(mk, {})
        hist_mut[mk][tag] = hist_mut[mk].get(tag, 0) + 1
        for k, n in rec["st"].items():
            st[k] = st.get(k, 0) + n
        jobs += rec["jobs"]
        if mk in ("corpus", "hand", "other-schema", "synthetic"):
            cov_ops[spec["v"]].add(spec["op"])
            if tag == "both-accept" and mk != "other-schema":
                valid_ops[spec["v"]].add(spec["op"])
    # operators whose constructor object is shared between modules count for each of them
    for v in VERSIONS:
        for w in VERSIONS:
            for op in list(valid_ops[w]):
                if op in module(v)._OPERATORS and op in module(w)._OPERATORS and info(v, op).con is info(w, op).con:
                    valid_ops[v].add(op)
    crash_list = []
    for i, phase in crashed:
        s = all_specs[i]
        if "kind_base" in s:
            run.fail("impl", f"C05/{s['op']}/wrong-kind-crashes-interpreter",
                     f"{s['op']}: a constructor call with an argument of the wrong kind for its field aborted the interpreter "
                     f"({phase}) - the kind check at the call site did not stop it",
                     {"call": f"{s['op']}@v{s['v']} [{s['src']} / {phase}]", "spec": _jspec(s)})
            continue
        crash_list.append({"op": s["op"], "v": s["v"], "src": s["src"], "mut": s["mut"],
                           "crashed_in": {"spox": "the constructor call itself", "ref": "the harness' reference model"}.get(phase, phase)})
    run_coq_jobs(run, jobs, st)
    kind_agree = run_kind_jobs(run, kind_jobs, st)
    st["kind_sweep"] = {"calls": sum(kind_hist.values()), "by_field_kind_and_argument": kind_hist,
                        "compared_with_model": len(kind_jobs), "agree": kind_agree}
    n_kind_jobs = len(kind_jobs)
    uncovered = {v: sorted(set(module(v)._OPERATORS) - cov_ops[v]) for v in VERSIONS}
    cov = {
        "evaluations": n_eval,
        "distinct_nontrivial": len({(j["spec"]["op"], j["spec"]["src"], j["spec"]["mut"]) for j in jobs}),
        "rule": "distinct (operator, corpus case, mutation) calls that reached the constructor and whose singleton model was compared",
        "traces_validated_against_impl": st.get("coq_ok", 0),
        "disagreements_checked": len(jobs) + n_kind_jobs - st.get("coq_ok", 0),
        "wrong_kind_argument_sweep": st.get("kind_sweep"),
        "singleton_models_compared": len(jobs),
        "classes_checked_table": st.get("classes_checked"),
        "applicable_corpus_cases_per_module": per_module,
        "operators_per_module": {v: len(module(v)._OPERATORS) for v in VERSIONS},
        "operators_called_per_module": {v: len(cov_ops[v]) for v in VERSIONS},
        "operators_with_accepted_call_per_module": {v: len(valid_ops[v]) for v in VERSIONS},
        "uncovered_operators_per_module": uncovered,
        "calls_that_crashed_onnx_cpp_inference": crash_list,
        "spox_side_inference_differences": patched_notes,
        "input_distribution": {"outcome_by_mutation": hist_mut, "calls_per_operator": hist_op, "outcomes": st["tags"],
                               "corpus_skips": st["skips"], "unsupported_by_harness": st["unsupported"]},
        "other_counters": {k: v for k, v in st.items() if isinstance(v, int)},
        "samples": [{"call": j["label"], "real_outcome": j["real_outcome"], "singleton": j["real_model"]} for j in jobs[:3]],
    }
    if crash_list:
        run.notes.append(f"{len(crash_list)} ill-typed calls abort the process inside ONNX's C++ shape inference (libstdc++ assertion); "
                         "they were isolated in worker processes and are listed under calls_that_crashed_onnx_cpp_inference")
    return run.finish(cov, [
        "ONNX's C++ inference is an oracle (Section variable infer); the reference model of the direct oracle is built by the harness "
        "from the corpus NodeProto with onnx.helper only",
        "the reference model imports the module's opset version, the singleton model the operator's since-version; both resolve to the same schema",
        "Var identity is modelled by a number; Python object identity of Vars is what spox's Scope uses",
        "attribute payloads and constant operands are compared through canonical tokens (sha1 of bytes for arrays)",
    ])


def replay(run: Run, case) -> int:
    install_capture()
    d = case["detail"]
    spec = d.get("spec")
    if not spec:
        print("no spec in replay file")
        return 2
    st = {}
    if "kind_base" in spec or d.get("field_kind"):
        base = spec_from_json(spec.get("kind_base", spec))
        ks = {"v": base["v"], "op": base["op"], "src": base["src"], "mut": "wrong-kind", "kind_base": base}
        results, crashed = parallel_eval([ks], 1)
        fails = [f for f in (results.get(0) or {"fails": []})["fails"] if f[0] != "note"]
        if crashed:
            fails.append(("impl", f"C05/{base['op']}/wrong-kind-crashes-interpreter", f"the interpreter aborted ({crashed[0][1]})", {}))
        elif results.get(0) and results[0]["jobs"]:
            run_kind_jobs(run, results[0]["jobs"], st)
            fails += [(f.kind, f.key, f.what, f.detail) for f in run.failures]
        print("call:", d.get("call"))
        for kind, key, what, detail in fails:
            print(f"  {kind} {key}: {what}")
        if fails:
            print(f"VIOLATION property=C05 replay={run.pid}")
        return 1 if fails else 0
    if "hand" not in spec:
        spec = spec_from_json(spec)
    rec = eval_one(spec)
    fails = [f for f in rec["fails"] if f[0] != "note"]
    if rec["jobs"]:
        run_coq_jobs(run, rec["jobs"], st, "replay")
        fails += [(f.kind, f.key, f.what, f.detail) for f in run.failures]
    print("call:", d.get("call"), "->", rec["tag"] or ("unsupported: " + str(rec["unsupported"])))
    for kind, key, what, detail in fails:
        print(f"  {kind} {key}: {what}")
        print("   ", json.dumps(detail, default=str)[:1500])
    if fails:
        print(f"VIOLATION property=C05 replay={run.pid}")
    return 1 if fails else 0
