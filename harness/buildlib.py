"""Shared library of the build-group checks (C01–C04, C08, C09, C12, C14):

* ``Reflect``      – walks the REAL object graph (Var._op / Node.inputs / Node.attrs) and prints it as a Gallina ``prog``
* ``show_model``   – canonical rendering of a real ModelProto (same format as coq/Show.v)
* ``Gen``          – random program generator over the public constructors (callbacks, closures, sharing, leaks, …)
* ``np_eval``      – independent numpy evaluator of the object graph (direct oracle for C01)
* ``walk_model``   – independent whole-model walker (direct oracle for C02/C04)
"""

from __future__ import annotations

import warnings

import numpy as np
import onnx

from harness.common import coq_bool, coq_list, coq_opt, coq_str

warnings.simplefilter("ignore")

import spox  # noqa: E402
import spox.opset.ai.onnx.v17 as op17  # noqa: E402
from spox import Tensor, argument, build, inline  # noqa: E402
from spox._attributes import AttrGraph  # noqa: E402
from spox._function import Function  # noqa: E402
from spox._future import initializer  # noqa: E402
from spox._inline import _Inline  # noqa: E402
from spox._internal_op import Argument, _Initializer  # noqa: E402
from spox._type_system import Optional as SOptional  # noqa: E402
from spox._type_system import Sequence as SSequence  # noqa: E402
from spox._var import Var  # noqa: E402

# ------------------------------------------------------------------------------------------------ type rendering

_ONNX_NAMES = {v: k for k, v in onnx.TensorProto.DataType.items()}


def render_dtype_np(dt) -> str:
    dt = np.dtype(dt)
    if dt.kind in "USO":
        return "STRING"
    return _ONNX_NAMES[onnx.helper.np_dtype_to_tensor_dtype(dt)]


def render_spox_type(t) -> str:
    """Independent rendering of a spox Type (does not go through Type._to_onnx)."""
    if isinstance(t, Tensor):
        sh = t.shape
        if sh is None:
            return render_dtype_np(t.dtype) + "[...]"
        return render_dtype_np(t.dtype) + "[" + ",".join("?" if d is None else str(d) for d in sh) + "]"
    if isinstance(t, SSequence):
        return "seq(" + render_spox_type(t.elem_type) + ")"
    if isinstance(t, SOptional):
        return "opt(" + render_spox_type(t.elem_type) + ")"
    return "top"


def spox_type_concrete(t) -> bool:
    return not (isinstance(t, Tensor) and t.shape is None)


def render_onnx_type(tp: onnx.TypeProto) -> str:
    which = tp.WhichOneof("value")
    if which == "tensor_type":
        tt = tp.tensor_type
        name = _ONNX_NAMES[tt.elem_type]
        if not tt.HasField("shape"):
            return name + "[...]"
        dims = []
        for d in tt.shape.dim:
            w = d.WhichOneof("value")
            dims.append(str(d.dim_value) if w == "dim_value" else d.dim_param if w == "dim_param" else "?")
        return name + "[" + ",".join(dims) + "]"
    if which == "sequence_type":
        return "seq(" + render_onnx_type(tp.sequence_type.elem_type) + ")"
    if which == "optional_type":
        return "opt(" + render_onnx_type(tp.optional_type.elem_type) + ")"
    return "top"


# ------------------------------------------------------------------------------------------------ model rendering


def show_graph(g: onnx.GraphProto, typed=False) -> str:
    inits = [t.name for t in g.initializer]
    if typed:
        ins = ",".join(f"{i.name}:{render_onnx_type(i.type)}" for i in g.input)
        outs = ",".join(f"{o.name}:{render_onnx_type(o.type)}" for o in g.output)
    else:
        ins = ",".join(i.name for i in g.input)
        outs = ",".join(o.name for o in g.output)
    return "<[" + ins + "] [" + ",".join(inits) + "] " + " ".join(show_node(n) for n in g.node) + " [" + outs + "]>"


def show_node(n: onnx.NodeProto) -> str:
    parts = []
    for a in n.attribute:
        if a.type == onnx.AttributeProto.GRAPH:
            parts.append(a.name + "=" + show_graph(a.g))
        else:
            parts.append(a.name)
    return "(" + n.name + " " + n.domain + ":" + n.op_type + " [" + ",".join(n.input) + "] [" + ",".join(n.output) + "] {" + ";".join(parts) + "})"


def show_imports(imps) -> str:
    return "{" + ",".join(f"{i.domain}={i.version}" for i in imps) + "}"


def show_model(m: onnx.ModelProto) -> str:
    s = show_imports(m.opset_import) + " " + show_graph(m.graph, typed=True)
    for f in m.functions:
        s += (" FUNC " + f.domain + ":" + f.name + " " + show_imports(f.opset_import) + " <[" + ",".join(f.input) + "] [" +
              ",".join(f.attribute) + "] " + " ".join(show_node(n) for n in f.node) + " [" + ",".join(f.output) + "]>")
    return s


def outcome(fn):
    """(rendering or 'ERR <Class>', model or None, exception or None)"""
    try:
        with warnings.catch_warnings():
            warnings.simplefilter("ignore")
            m = fn()
        return show_model(m), m, None
    except Exception as e:  # noqa: BLE001
        return "ERR " + type(e).__name__, None, e


# ------------------------------------------------------------------------------------------------ reflection


class Unsupported(Exception):
    pass


def attr_digest(a) -> str:
    """A short digest of an attribute's VALUE (the model renders attribute names only; values matter when two FunctionProtos of
    one key are compared)."""
    import hashlib

    try:
        return hashlib.sha1(a._to_onnx().SerializeToString(deterministic=True)).hexdigest()[:10]
    except Exception:  # noqa: BLE001
        return "?"


class Reflect:
    """The program as ``build`` will see it: reachable object graph → Gallina ``prog`` + ``request``."""

    def __init__(self, inputs: dict, outputs: dict, drop=False):
        self.nid, self.nodes, self.gid, self.graphs, self._keep, self._keep_nodes = {}, [], {}, [None], [], []
        self.inputs, self.outputs, self.drop = inputs, outputs, drop
        self.req_in = [(k, self.pyobj(v)) for k, v in inputs.items()]
        self.req_out = [(k, self.pyobj(v)) for k, v in outputs.items()]
        self.graphs[0] = (None, [])

    def pyobj(self, v):
        return ("PVar", self.var(v)) if isinstance(v, Var) else ("POther",)

    def var(self, v: Var):
        n = self.node(v._op)
        idx = [i for i, x in enumerate(v._op.outputs.get_vars().values()) if x is v]
        if not idx:
            raise Unsupported("Var not among its node's outputs")
        return (n, idx[0])

    def node(self, op):
        if id(op) in self.nid:
            return self.nid[id(op)]
        ins = [None if x is None else self.var(x) for x in op.inputs]
        i = len(self.nodes)
        self.nid[id(op)] = i
        self.nodes.append(None)
        self._keep.append(op)
        self._keep_nodes.append(op)
        attrs = []
        kind = "KOp"
        if isinstance(op, Argument):
            kind = "KArg"
            if op.attrs.default is not None:
                raise Unsupported("argument with default")
        elif isinstance(op, _Initializer):
            kind = "KInit"
        elif isinstance(op, _Inline):
            kind = "KInline " + self.ograph(op.model.graph) + " " + coq_list(
                [f"({coq_str(imp.domain)}, {imp.version})" for imp in op.model.opset_import])
        elif isinstance(op, Function):
            kind = (f"KFunc {self.graph(op.func_graph)} {coq_list([coq_str(x) for x in op.func_inputs.get_fields().keys()])} "
                    f"{coq_list([coq_str(x) for x in op.func_outputs.get_fields().keys()])} {coq_list([coq_str(x) for x in op.func_attrs.keys()])}")
            for k, a in op.attrs.get_fields().items():
                if a is not None:
                    attrs.append((a._name, attr_digest(a)))
        else:
            for k, a in op.attrs.get_fields().items():
                if a is None:
                    continue
                if isinstance(a, AttrGraph):
                    attrs.append((k, self.graph(a.value)))
                else:
                    attrs.append((a._name, attr_digest(a)))
        outs = op.outputs.get_vars()
        vtys = []
        for v in outs.values():
            if v.type is None:
                vtys.append(None)
            else:
                vtys.append((render_spox_type(v.type), spox_type_concrete(v.type)))
        if kind.startswith("KInline") or kind.startswith("KFunc"):
            kind = "(" + kind + ")"
        self.nodes[i] = dict(kind=kind, ident=op.op_type.identifier, domain=op.op_type.domain, version=op.op_type.version,
                             ins=ins, outs=list(outs.keys()), attrs=attrs, min_in=op.min_input, min_out=op.min_output,
                             vtys=vtys, vnames=[v._name for v in outs.values()])
        return i

    def graph(self, g):
        if id(g) in self.gid:
            return self.gid[id(g)]
        i = len(self.graphs)
        self.gid[id(g)] = i
        self.graphs.append(None)
        self._keep.append(g)
        res = [(k, self.var(v)) for k, v in g.requested_results.items()]
        args = None if g.requested_arguments is None else [self.var(v) for v in g.requested_arguments]
        self.graphs[i] = (args, res)
        return i

    def ograph(self, g: onnx.GraphProto) -> str:
        def L(xs):
            return coq_list(xs)

        def node(n):
            subs = []
            for a in n.attribute:
                if a.type == onnx.AttributeProto.GRAPH:
                    subs.append(f"({coq_str(a.name)}, Some {self.ograph(a.g)})")
                elif a.type == onnx.AttributeProto.GRAPHS:
                    raise Unsupported("GRAPHS attribute in inlined model")
                else:
                    subs.append(f"({coq_str(a.name)}, None)")
            return (f"ONode {coq_str(n.name)} {coq_str(n.op_type)} {coq_str(n.domain)} {L([coq_str(x) for x in n.input])} "
                    f"{L([coq_str(x) for x in n.output])} {L(subs)}")

        if len(g.sparse_initializer):
            raise Unsupported("inlined (sub)graph with sparse initializers after normalisation")
        return (f"(OGraph {L([coq_str(i.name) for i in g.input])} {L([coq_str(i.name) for i in g.initializer])} {L([node(n) for n in g.node])} "
                f"{L([coq_str(o.name) for o in g.output])} {L([coq_str(v.name) for v in g.value_info])})")

    # -- Gallina printing
    @staticmethod
    def V(v):
        return f"(V (NReal {v[0]}) {v[1]})"

    def coq_prog(self) -> str:
        V, L = self.V, coq_list
        ns = []
        for nd in self.nodes:
            attrs = L([f"({coq_str(k)}, {'AVal EmptyString' if g is None else f'AVal {coq_str(g)}' if isinstance(g, str) else f'AGraph {g}'})"
                       for k, g in nd["attrs"]])
            vtys = L(["None" if t is None else f"Some {{| tshow := {coq_str(t[0])}; tconcrete := {coq_bool(t[1])} |}}" for t in nd["vtys"]])
            vnames = L([coq_opt(None if n is None else coq_str(n)) for n in nd["vnames"]])
            ns.append(
                f"{{| kind := {nd['kind']}; ident := {coq_str(nd['ident'])}; domain := {coq_str(nd['domain'])}; version := {nd['version']}; "
                f"ins := {L(['None' if x is None else 'Some ' + V(x) for x in nd['ins']])}; outs := {L([coq_str(o) for o in nd['outs']])}; "
                f"attrs := {attrs}; min_in := {nd['min_in']}; min_out := {nd['min_out']}; vtys := {vtys}; vnames := {vnames} |}}")
        gs = []
        for (a, r) in self.graphs:
            gs.append(f"{{| gargs := {'None' if a is None else 'Some ' + L([V(x) for x in a])}; "
                      f"gres := {L(['(' + coq_str(k) + ', ' + V(v) + ')' for k, v in r])} |}}")
        return f"{{| nodes := {L(ns)}; graphs := {L(gs)} |}}"

    def coq_request(self) -> str:
        def po(x):
            return f"PVar {self.V(x[1])}" if x[0] == "PVar" else "POther"

        return (f"{{| r_inputs := {coq_list(['(' + coq_str(k) + ', ' + po(v) + ')' for k, v in self.req_in])}; "
                f"r_outputs := {coq_list(['(' + coq_str(k) + ', ' + po(v) + ')' for k, v in self.req_out])}; "
                f"r_drop := {coq_bool(self.drop)} |}}")

    def stats(self):
        return {"nodes": len(self.nodes), "graphs": len(self.graphs) - 1}


COQ_HEADER = ("From Coq Require Import List String NArith Arith Bool.\n"
              "From Spox Require Import Base IR Build Show Validate.\nImport ListNotations.\nOpen Scope string_scope.\n")


def model_outcomes(run, name, cases, fn="build_checked"):
    """cases: list of (coq_prog, coq_request). Returns the model's rendering for each (evaluated by vm_compute)."""
    from harness.common import parse_coq_string

    exprs = [f"show ({fn} {p} {r})" for p, r in cases]
    out = run.coq_eval(name, COQ_HEADER, exprs, shard=max(1, min(60, (len(exprs) + 15) // 16)))
    return [parse_coq_string(x) for x in out]


def emission_premises(run, name, cases):
    """EmitFacts.emission_premises_req on each (coq_prog, coq_request): are the premises of the validator-free emission theorem
    (C04_build_main_emits_at_most_once) met by this program?  Returns a list of booleans."""
    header = COQ_HEADER.replace("Build Show Validate.", "Build Show Validate EmitFacts.")
    exprs = [f"emission_premises_req {p} {r}" for p, r in cases]
    out = run.coq_eval(name, header, exprs, shard=max(1, min(60, (len(exprs) + 15) // 16)))
    return [x.strip() == "true" for x in out]


def cover_premises(run, name, cases):
    """CoverageFacts.cover_premises_req on each (coq_prog, coq_request): are the premises of the validator-free COVERAGE theorem
    (emitted = exactly the applications a requested output depends on) met - the reflected object graph is acyclic (a global
    postorder ranks every node above its operands and subgraph results, within the builder's fuel) and only operator / function
    nodes carry subgraph attributes?  Returns a list of booleans."""
    header = COQ_HEADER.replace("Build Show Validate.", "Build Show Validate CoverageFacts.")
    exprs = [f"cover_premises_req {p} {r}" for p, r in cases]
    out = run.coq_eval(name, header, exprs, shard=max(1, min(60, (len(exprs) + 15) // 16)))
    return [x.strip() == "true" for x in out]


def premise_eval(run, name, module, fn, cases):
    """Evaluates the boolean premise `fn` (defined in coq/<module>.v) on each (coq_prog, coq_request). Returns a list of booleans."""
    header = COQ_HEADER.replace("Build Show Validate.", f"Build Show Validate {module}.")
    exprs = [f"{fn} {p} {r}" for p, r in cases]
    out = run.coq_eval(name, header, exprs, shard=max(1, min(60, (len(exprs) + 15) // 16)))
    return [x.strip() == "true" for x in out]


# ------------------------------------------------------------------------------------------------ generator

F32 = np.float32


class Gen:
    """Random nested programs over the public constructors.

    Every value is a float32 tensor of shape [2], [1] or [] (elementwise broadcasting keeps everything well typed);
    ill-typed constructor calls are caught and re-drawn.  ``leak_p`` controls how often values created in body callbacks
    are leaked to enclosing scopes (legal hoisting when body-independent, illegal otherwise)."""

    def __init__(self, rng, op=op17, leak_p=0.25, max_depth=3, size=(1, 7), allow=("if", "loop", "scan", "multi", "opt", "var")):
        self.rng, self.op, self.leak_p, self.max_depth, self.size, self.allow = rng, op, leak_p, max_depth, size, set(allow)
        self.hist = {}

    def count(self, k):
        self.hist[k] = self.hist.get(k, 0) + 1

    wide_p = 0.05
    snapshots = ()

    def snap(self, result, operands, first=0):
        """Remember which Var objects were passed to the constructor that made ``result`` (positions from ``first`` on)."""
        self.snapshots.append((result, tuple(operands), first))

    def program(self):
        rng, op = self.rng, self.op
        nargs = rng.randint(1, 3)
        self.args = [argument(Tensor(F32, (2,))) for _ in range(nargs)]
        self.cond = argument(Tensor(np.bool_, ()))
        self.leak = []
        self.snapshots = []
        self.oneshot_problems = []
        # one initializer-backed weight that any scope may read (bodies of sibling control-flow nodes share it)
        self.shared_init = initializer(np.array([rng.randint(1, 5), rng.randint(1, 5)], F32)) if rng.random() < 0.6 else None
        pool = list(self.args)
        for _ in range(rng.randint(*self.size)):
            v = self.expr(pool, 0)
            if v is not None:
                pool.append(v)
            if self.leak and rng.random() < 0.5:
                pool.append(self.leak.pop(rng.randrange(len(self.leak))))
        cands = pool[nargs:] or pool
        self.last_pool = list(cands)
        nout = rng.randint(1, 3)
        outs = {f"o{i}": rng.choice(cands) for i in range(nout)}
        ins = {f"a{i}": a for i, a in enumerate(self.args)}
        ins["c"] = self.cond
        return ins, outs

    def expr(self, pool, depth):
        for _ in range(6):
            state, n0 = self.rng.getstate(), getattr(self, "_oneshot_count", 0)
            try:
                with warnings.catch_warnings():
                    warnings.simplefilter("ignore")
                    return self._expr(pool, depth)
            except Exception as e:  # ill-typed draw: re-draw  # noqa: BLE001
                if getattr(self, "_oneshot_count", 0) > n0 and not getattr(self, "_force_list", False):
                    # a body callback of this draw handed its results over as a one-shot iterable: the SAME draw with lists
                    # (same random numbers) decides whether the draw is ill-typed or the form of the results was held against it
                    self.rng.setstate(state)
                    self._force_list = True
                    try:
                        with warnings.catch_warnings():
                            warnings.simplefilter("ignore")
                            v = self._expr(pool, depth)
                        self.oneshot_problems.append(f"{type(e).__name__}: {str(e)[:200]}")
                        return v
                    except Exception:  # noqa: BLE001
                        pass
                    finally:
                        self._force_list = False
                self.count("redraw:" + type(e).__name__)
        return None

    def _expr(self, pool, depth):
        rng, op = self.rng, self.op
        k = rng.random()
        a, b = rng.choice(pool), rng.choice(pool)
        if k < 0.14 and getattr(self, "shared_init", None) is not None and depth > 0:
            self.count("Add(shared initializer)"); return op.add(a, self.shared_init)
        if k < 0.16:
            self.count("Add"); return op.add(a, b)
        if k < 0.24:
            self.count("Mul"); return op.mul(a, b)
        if k < 0.30:
            self.count("Relu"); return op.relu(a)
        if k < 0.34:
            self.count("Sub"); return op.sub(a, b)
        if k < 0.40 and "opt" in self.allow:
            self.count("Clip")
            lo = None if rng.random() < 0.5 else op.reduce_min(b, keepdims=0)
            hi = None if rng.random() < 0.5 else op.reduce_max(rng.choice(pool), keepdims=0)
            return op.clip(a, lo, hi)
        if k < 0.45 and "var" in self.allow:
            self.count("Sum")
            parts = [rng.choice(pool) for _ in range(rng.randint(1, 4))]
            r = op.sum(parts)
            self.snap(r, parts)
            if rng.random() < 0.5:      # the caller goes on using ITS list: the node was given the values it held at the call
                parts.append(rng.choice(pool)) if rng.random() < 0.7 else parts.clear()
                self.count("Sum(list mutated after the call)")
            return r
        if k < 0.49:
            sh = rng.choice(((2,), (2,), (1,), ()))     # scalars and one-element tensors are different values (rank 0 vs rank 1)
            self.count(f"Initializer{list(sh)}")
            return initializer(np.array([rng.randint(1, 5), rng.randint(1, 5)], F32)[:sh[0]].reshape(sh) if sh != (2,) else np.array([rng.randint(1, 5), rng.randint(1, 5)], F32))
        if k < 0.51:
            self.count("Constant"); return op.const(np.array([rng.randint(1, 5), rng.randint(1, 5)], F32))
        if k < 0.53:
            # a 2-D constant / initializer given as a view that is not C-contiguous (transposed, Fortran-ordered, strided)
            self.count("Constant(non-contiguous 2-D)")
            m = np.array([[rng.randint(1, 9) for _ in range(3)] for _ in range(2)], F32)        # [2,3]
            view = rng.choice([m.T, np.asfortranarray(m.T), np.array([[0] * 4] * 3, F32)[:, ::2] + m.T])   # each [3,2]
            c2 = op.const(view) if rng.random() < 0.5 else initializer(view)
            return op.reduce_sum(c2, op.const(np.array([0], np.int64)), keepdims=0)
        if k < 0.545:
            # a LARGE constant / initializer (several KiB) whose array has the non-native byte order or is a strided view
            self.count("Constant(large, non-native byte order / strided)")
            n = rng.choice([520, 1100, 2050])
            base = np.array([[(i * 7 + j * 3 + rng.randint(0, 3)) % 10 for j in range(2)] for i in range(n)], F32)   # [n,2]
            view = rng.choice([base.astype(">f4"), base.astype(">f4")[::1], np.asfortranarray(base), np.repeat(base, 2, axis=0)[::2]])
            c2 = op.const(view) if rng.random() < 0.5 else initializer(view)
            return op.reduce_sum(c2, op.const(np.array([0], np.int64)), keepdims=0)
        if k < 0.58 and "multi" in self.allow:
            if tuple(a.unwrap_tensor().shape or ()) != (2,):
                # an operand whose extent is not statically 2 (e.g. the result of an If whose branches yield [1] and [2]: reported [?])
                # would be a program that FAILS AT RUN TIME when the one-element branch is taken - not a program of the property
                raise ValueError("Split needs an operand of static extent 2 (re-draw)")
            self.count("Split")
            r = op.split(a, op.const(np.array([1, 1], np.int64)), outputs_count=2)
            return r[rng.randint(0, 1)] if rng.random() < 0.6 else op.add(r[0], r[1])
        if k < 0.62 and "multi" in self.allow:
            self.count("TopK")
            vals, idx = op.top_k(a, op.const(np.array([1], np.int64)))
            return vals if rng.random() < 0.6 else op.add(vals, op.cast(idx, to=F32))
        if k < 0.65 and "multi" in self.allow:
            self.count("Dropout")  # optional trailing outputs: mask never used
            return op.dropout(a)[0]
        if k < 0.78 and depth < self.max_depth and "if" in self.allow:
            self.count("If")
            nres = rng.randint(1, 2)

            def br():
                loc = list(pool)
                for _ in range(rng.randint(0, 2)):
                    v = self.expr(loc, depth + 1)
                    if v is not None:
                        loc.append(v)
                if rng.random() < self.leak_p:
                    self.leak.append(rng.choice(loc))
                return self._results([op.add(rng.choice(loc), self.args[0]) if rng.random() < 0.3 else op.identity(rng.choice(loc)) if rng.random() < 0.2 else self._same2(rng.choice(loc)) for _ in range(nres)])

            cond = self.cond if rng.random() < 0.7 else op.less(op.reduce_sum(a, keepdims=0), op.const(np.array(0, F32)))
            r = op.if_(cond, then_branch=br, else_branch=br)
            return rng.choice(list(r))
        if k < 0.90 and depth < self.max_depth and "loop" in self.allow:
            self.count("Loop")
            nstate = rng.randint(1, 2) if rng.random() > self.wide_p else rng.choice([9, 10, 12])   # wide: >= 11 body arguments
            nscan = rng.randint(0, 1)
            init = [self._same2(rng.choice(pool)) for _ in range(nstate)]
            if nstate > 2:
                self.count("Loop(wide)")

            def body(i, c, *st):
                loc = list(pool) + list(st)
                for _ in range(rng.randint(0, 2)):
                    v = self.expr(loc, depth + 1)
                    if v is not None:
                        loc.append(v)
                if rng.random() < self.leak_p:
                    self.leak.append(rng.choice(loc))
                return self._results([c] + [self._same2(rng.choice(loc)) for _ in range(nstate)] + [self._same2(rng.choice(loc)) for _ in range(nscan)])

            r = op.loop(op.const(np.array(rng.randint(1, 3), np.int64)), v_initial=init, body=body)
            self.snap(r[0], [None, None] + init, first=2)
            if rng.random() < 0.3:
                init.append(rng.choice(pool))
            j = rng.randrange(len(r))
            if j >= nstate:  # scan output: [trip, 2] -> reduce to [2]
                return op.reduce_sum(r[j], op.const(np.array([0], np.int64)), keepdims=0)
            return r[j]
        if k < 0.95 and depth < self.max_depth and "scan" in self.allow:
            self.count("Scan")
            seq = op.unsqueeze(self._same2(a), op.const(np.array([0], np.int64)))  # [1,2]
            seq = op.concat([seq, seq], axis=0)  # [2,2]
            st0 = self._same2(b)

            def sbody(s, x):
                loc = list(pool) + [s, x]
                for _ in range(rng.randint(0, 2)):
                    v = self.expr(loc, depth + 1)
                    if v is not None:
                        loc.append(v)
                if rng.random() < self.leak_p:
                    self.leak.append(rng.choice(loc))
                return self._results([self._same2(rng.choice(loc)), self._same2(rng.choice(loc))])

            r = op.scan([st0, seq], body=sbody, num_scan_inputs=1)
            if rng.random() < 0.5:
                return r[0]
            return op.reduce_sum(r[1], op.const(np.array([0], np.int64)), keepdims=0)
        self.count("Neg")
        return op.neg(a)

    def _results(self, lst):
        """What a body callback returns: mostly the list, sometimes the same results as a tuple or as a ONE-SHOT iterable (generator,
        iterator) - how the results are handed over is no part of the program's meaning."""
        r = self.rng.random()
        if r < 0.85 or getattr(self, "_force_list", False):
            return lst
        if r >= 0.90:
            self._oneshot_count = getattr(self, "_oneshot_count", 0) + 1
        self.count("results-as-" + ("tuple" if r < 0.90 else "generator" if r < 0.95 else "iterator"))
        return tuple(lst) if r < 0.90 else (x for x in lst) if r < 0.95 else iter(lst)

    def _same2(self, v):
        """Force shape [2] (add a zero vector) so carried / branch values keep one type."""
        t = v.type
        if isinstance(t, Tensor) and t.shape == (2,) and t.dtype == np.dtype(F32):
            return v
        return self.op.add(v, self.op.const(np.zeros(2, F32)))


# ------------------------------------------------------------------------------------------------ numpy evaluator (C01 oracle)


class NoEval(Exception):
    pass


def _native(a):
    """the numbers of an array, whatever its memory layout (byte order, strides)"""
    a = np.asarray(a)
    return a.astype(a.dtype.newbyteorder("="), order="C") if a.dtype.kind in "biufc" else a


def np_eval(var: Var, env: dict):
    """Evaluate ``var`` directly on the object graph; env: id(argument Var) -> ndarray. Memoised per (env id, var id)."""
    memo = env.setdefault("__memo__", {})
    key = id(var)
    if key in memo:
        return memo[key]
    opn = var._op
    k = opn.op_type.identifier
    if isinstance(opn, Argument):
        if id(var) not in env:
            raise NoEval("unbound argument")
        return env[id(var)]
    if isinstance(opn, _Initializer):
        return _native(opn.attrs.value.value)
    ins = [None if v is None else np_eval(v, env) for v in opn.inputs]
    idx = [i for i, x in enumerate(opn.outputs.get_vars().values()) if x is var][0]

    def sub(g):
        def f(*args):
            e = {kk: vv for kk, vv in env.items() if kk != "__memo__"}
            for a, val in zip(g.requested_arguments, args):
                e[id(a)] = val
            return [np_eval(r, e) for r in g.requested_results.values()]

        return f

    A = opn.attrs
    if isinstance(opn, Function):
        out = sub(opn.func_graph)(*ins)
    elif isinstance(opn, _Inline):
        # the meaning of an inlined model is what the model itself computes (onnxruntime on m)
        try:
            out = ort_run(opn.model, {i.name: v for i, v in zip(opn.model.graph.input, ins)})
        except Exception as e:  # noqa: BLE001
            raise NoEval("inlined model not runnable on these values: " + str(e)[:80])
    elif k == "Scaler":
        out = [((ins[0] - np.array(A.offset.value, np.float32)) * np.array(A.scale.value, np.float32)).astype(np.float32)]
    elif k == "Add": out = [ins[0] + ins[1]]
    elif k == "Sub": out = [ins[0] - ins[1]]
    elif k == "Abs": out = [np.abs(ins[0])]
    elif k == "Mul": out = [ins[0] * ins[1]]
    elif k == "Neg": out = [-ins[0]]
    elif k == "Relu": out = [np.maximum(ins[0], 0)]
    elif k == "Identity": out = [ins[0]]
    elif k == "Less": out = [ins[0] < ins[1]]
    elif k == "Cast": out = [ins[0].astype(np.float32)]
    elif k == "Sum": out = [sum(ins[1:], ins[0])]
    elif k == "Clip":
        x = ins[0]
        if len(ins) > 1 and ins[1] is not None: x = np.maximum(x, ins[1])
        if len(ins) > 2 and ins[2] is not None: x = np.minimum(x, ins[2])
        out = [x]
    elif k == "Constant": out = [_native(A.value.value)]
    elif k in ("ReduceSum", "ReduceMin", "ReduceMax", "ReduceMean", "ReduceProd"):
        f = {"ReduceSum": np.sum, "ReduceMin": np.min, "ReduceMax": np.max, "ReduceMean": np.mean, "ReduceProd": np.prod}[k]
        axes = None
        if len(ins) > 1 and ins[1] is not None: axes = tuple(int(x) for x in ins[1].tolist())
        elif getattr(A, "axes", None) is not None: axes = tuple(A.axes.value)
        out = [np.asarray(f(ins[0], axis=axes, keepdims=bool(A.keepdims.value)), dtype=ins[0].dtype)]
    elif k == "Split":
        sp = ins[1].tolist(); outl = []; pos = 0
        for s in sp: outl.append(ins[0][pos:pos + s]); pos += s
        out = outl
    elif k == "TopK":
        kk = int(ins[1][0]); order = np.argsort(-ins[0], kind="stable")[:kk]
        out = [ins[0][order], order.astype(np.int64)]
    elif k == "Dropout": out = [ins[0], np.ones_like(ins[0], dtype=bool)]
    elif k == "Unsqueeze": out = [np.expand_dims(ins[0], tuple(int(x) for x in ins[1].tolist()))]
    elif k == "Concat": out = [np.concatenate(ins, axis=A.axis.value)]
    elif k == "If":
        f = sub(A.then_branch.value) if bool(ins[0]) else sub(A.else_branch.value)
        out = f()
    elif k == "Loop":
        body = sub(A.body.value)
        M = int(ins[0]) if ins[0] is not None else 10 ** 9
        cond = bool(ins[1]) if ins[1] is not None else True
        state = list(ins[2:]); n = len(state); scans = None; it = 0
        nscan = len(A.body.value.requested_results) - 1 - n
        scans = [[] for _ in range(nscan)]
        while it < M and cond:
            r = body(np.array(it, np.int64), np.array(cond), *state)
            cond = bool(r[0]); state = list(r[1:1 + n])
            for acc, s in zip(scans, r[1 + n:]): acc.append(s)
            it += 1
        out = state + [np.stack(s) if s else np.zeros((0, 2), np.float32) for s in scans]
    elif k == "Scan":
        body = sub(A.body.value)
        nsi = A.num_scan_inputs.value
        nst = len(ins) - nsi
        state = list(ins[:nst]); seqs = ins[nst:]
        T = seqs[0].shape[0]
        nout = len(A.body.value.requested_results) - nst
        scans = [[] for _ in range(nout)]
        for t in range(T):
            r = body(*state, *[s[t] for s in seqs])
            state = list(r[:nst])
            for acc, s in zip(scans, r[nst:]): acc.append(s)
        out = state + [np.stack(s) for s in scans]
    else:
        raise NoEval(k)
    for i, x in enumerate(opn.outputs.get_vars().values()):
        memo[id(x)] = out[i] if i < len(out) else None
    return out[idx]


def ort_run(m: onnx.ModelProto, feeds: dict):
    import onnxruntime as ort

    so = ort.SessionOptions()
    so.graph_optimization_level = ort.GraphOptimizationLevel.ORT_DISABLE_ALL
    so.log_severity_level = 4
    s = ort.InferenceSession(m.SerializeToString(), so, providers=["CPUExecutionProvider"])
    return s.run(None, feeds)


# ------------------------------------------------------------------------------------------------ whole-model walker (C02/C04 oracle)


def walk_model(m: onnx.ModelProto):
    """Independent structural walk: returns list of problems (empty = fine).
    - every value name defined exactly once in the whole model (all subgraphs)
    - every non-empty node name occurs once
    - every node input is defined earlier in the same graph or in an enclosing graph
    - graph outputs defined"""
    import collections

    defs, nodenames, problems = collections.Counter(), collections.Counter(), []

    def walk(g, visible, path):
        vis = set(visible)
        for x in list(g.input) + list(g.initializer):
            defs[x.name] += 1
            vis.add(x.name)
        for n in g.node:
            if n.name:
                nodenames[n.name] += 1
            for i in n.input:
                if i and i not in vis:
                    problems.append(f"use-before-def {i!r} at node {n.name!r} in {path}")
            for a in n.attribute:
                if a.type == onnx.AttributeProto.GRAPH:
                    walk(a.g, vis, path + "/" + n.name + "." + a.name)
                elif a.type == onnx.AttributeProto.GRAPHS:
                    for j, sg in enumerate(a.graphs):
                        walk(sg, vis, path + "/" + n.name + "." + a.name + str(j))
            for o in n.output:
                if o:
                    defs[o] += 1
                    vis.add(o)
        for o in g.output:
            if o.name not in vis:
                problems.append(f"undefined graph output {o.name!r} in {path}")

    walk(m.graph, set(), "main")
    problems += [f"value name {k!r} defined {v} times" for k, v in defs.items() if v > 1]
    problems += [f"node name {k!r} used {v} times" for k, v in nodenames.items() if v > 1]
    doms = collections.Counter(("" if i.domain == "ai.onnx" else i.domain) for i in m.opset_import)
    problems += [f"domain {k!r} imported {v} times" for k, v in doms.items() if v > 1]
    return problems


def full_check(m: onnx.ModelProto):
    """Real full checker + strict shape inference + ORT load. Returns list of problems."""
    import onnxruntime as ort

    problems = []
    try:
        onnx.checker.check_model(m, full_check=True)
        onnx.shape_inference.infer_shapes(m, check_type=True, strict_mode=True)
    except Exception as e:  # noqa: BLE001
        problems.append("checker/strict-inference: " + str(e)[:300])
    try:
        so = ort.SessionOptions()
        so.log_severity_level = 4
        ort.InferenceSession(m.SerializeToString(), so, providers=["CPUExecutionProvider"])
    except Exception as e:  # noqa: BLE001
        if not _ort_function_inliner_at_fault(m):
            problems.append("onnxruntime load: " + str(e)[:300])
        else:
            ORT_INLINER_EXCUSED.append(str(e)[:120])
    return problems


ORT_INLINER_EXCUSED: list = []


def _ort_function_inliner_at_fault(m: onnx.ModelProto) -> bool:
    """onnxruntime (1.30) fails with 'the graph is not acyclic' in its ahead-of-time inlining of local functions when one function is
    called both inside a control-flow body (with captured outer values) and in the enclosing graph.  Nothing is wrong with such a
    model: the full checker accepts it, onnxruntime loads and runs it with graph optimisations disabled, and loads it with default
    options once ONNX's own inliner has expanded the functions.  A load failure is attributed to that defect ONLY when the model has
    local functions and BOTH of these alternative loads succeed; otherwise it counts against the model."""
    import onnxruntime as ort

    if not m.functions:
        return False
    try:
        so = ort.SessionOptions()
        so.log_severity_level = 4
        so.graph_optimization_level = ort.GraphOptimizationLevel.ORT_DISABLE_ALL
        ort.InferenceSession(m.SerializeToString(), so, providers=["CPUExecutionProvider"])
        import onnx.inliner

        so2 = ort.SessionOptions()
        so2.log_severity_level = 4
        ort.InferenceSession(onnx.inliner.inline_local_functions(m).SerializeToString(), so2, providers=["CPUExecutionProvider"])
        return True
    except Exception:  # noqa: BLE001
        return False


# ------------------------------------------------------------------------------------------------ shared correspondence pass


class Case:
    __slots__ = ("ins", "outs", "drop", "meta", "refl", "impl", "model_proto", "exc", "model", "coq", "pre")

    def __init__(self, ins, outs, drop=False, meta=None):
        self.ins, self.outs, self.drop, self.meta = ins, outs, drop, meta or {}
        self.refl = self.impl = self.model_proto = self.exc = self.model = self.coq = self.pre = None


def snapshot_problems(snapshots):
    """The node behind each recorded result must hold exactly the operands it was called with (same objects, same order)."""
    out = []
    for result, operands, first in snapshots:
        have = list(result._op.inputs.get_vars().values()) if hasattr(result._op.inputs, "get_vars") else []
        have = [v for v in result._op.inputs][first:] if first else have
        want = list(operands[first:])
        if len(have) != len(want) or any(h is not w for h, w in zip(have, want)):
            out.append(f"{result._op.op_type.identifier} was called with {len(want)} operand(s) but its node now holds {len(have)}"
                       + ("" if len(have) != len(want) else " other") + " value(s): a list passed to a constructor is read at the call")
    return out


def run_impl(case: Case):
    """Reflect BEFORE the build (the reflection is what build sees), then run the real build."""
    pre = getattr(case, "pre", None)
    if pre is not None:      # an earlier (typically failing) build in the same process: history must not matter
        outcome(lambda: build(pre[0], pre[1], drop_unused_inputs=pre[2]))
    try:
        case.refl = Reflect(case.ins, case.outs, case.drop)
        case.coq = (case.refl.coq_prog(), case.refl.coq_request())
    except Unsupported as e:
        case.refl = None
        case.coq = None
        case.meta["unsupported"] = str(e)
    case.impl, case.model_proto, case.exc = outcome(lambda: build(case.ins, case.outs, drop_unused_inputs=case.drop))
    return case


def correspondence(run, name, cases):
    """Runs implementation and model on all cases; returns indices of disagreement."""
    for c in cases:
        if c.impl is None:
            run_impl(c)
    live = [c for c in cases if c.coq is not None]
    res = model_outcomes(run, name, [c.coq for c in live])
    for c, r in zip(live, res):
        c.model = r
    def same(c):
        if c.impl == c.model:
            return True
        # adversarial user names: only "raises" is compared (which exception wins depends on generated-name collisions
        # with arguments that were not listed, whose enumeration order comes from a set)
        return bool(c.meta.get("errors_as_class")) and c.impl.startswith("ERR ") and c.model.startswith("ERR ") and \
            "fuel" not in c.model and "model-validator" not in c.model

    bad = [i for i, c in enumerate(cases) if c.coq is not None and not same(c)]
    # a model refused by the model's own validators: say WHICH proved statement the returned model breaks (replay detail)
    rejected = [cases[i] for i in bad if cases[i].model and "model-validator" in cases[i].model][:8]
    if rejected:
        try:
            for c, names in zip(rejected, failed_validators(run, name + "val", [c.coq for c in rejected])):
                c.meta["statements_the_returned_model_breaks (validators)"] = names
        except Exception:  # noqa: BLE001
            pass
    return bad


VALIDATORS = [("global_unique (mmain m)", "every value name defined once in the whole model"),
              ("node_names_unique (mmain m)", "every non-empty node name used once"),
              ("imports_unique m", "one opset import per domain"), ("floor_ok m", "default opset >= 14"),
              ("emitted_once p' (mmain m)", "every reachable operator emitted exactly once"),
              ("placed p' (mmain m)", "every node in the innermost graph enclosing its uses"),
              ("check_plan p' 0 (mmain m)", "definition before use / well-formed plan"),
              ("functions_exact p' m", "one FunctionProto per used function key"),
              ("function_imports_cover p' m", "function imports cover body requirements"),
              ("function_plans p' m", "function bodies well-formed"), ("inline_blocks_alpha p' m", "inlined blocks are renamings of the inlined model"),
              ("names_ok p' 0 (mmain m)", "names denote Vars injectively"),
              ("io_exact p' i o (r_drop r) (depends_on p' 0) (mmain m)", "graph inputs/outputs are exactly the requested ones")]


def failed_validators(run, name, cases):
    header = COQ_HEADER.replace("Build Show Validate.", "Build Show Sem Plan Named Validate.")
    exprs = []
    for p, r in cases:
        exprs.append(f"let p := {p} in let r := {r} in match build_public p r, all_vars (r_inputs r), all_vars (r_outputs r) with "
                     f"| inl m, Some i, Some o => let p' := final_prog p r i o in [{'; '.join(v for v, _ in VALIDATORS)}] | _, _, _ => [] end")
    out = run.coq_eval(name, header, exprs, shard=1)
    res = []
    for x in out:
        flags = [t.strip() for t in x.strip().strip("[]").replace("\n", " ").split(";")]
        res.append([VALIDATORS[k][1] for k, f in enumerate(flags) if f == "false" and k < len(VALIDATORS)])
    return res


def harvest_names(m: onnx.ModelProto):
    """All value and node names of a built model (for adversarial user names)."""
    vals, nodes = [], []

    def walk(g):
        for x in list(g.input) + list(g.initializer) + list(g.output):
            vals.append(x.name)
        for n in g.node:
            if n.name:
                nodes.append(n.name)
            vals.extend(o for o in n.output if o)
            for a in n.attribute:
                if a.type == onnx.AttributeProto.GRAPH:
                    walk(a.g)

    walk(m.graph)
    return sorted(set(vals)), sorted(set(nodes))


def describe(case: Case):
    """Human-readable replay of a case: the reflected program and the request."""
    return {"request_inputs": list(case.ins.keys()), "request_outputs": list(case.outs.keys()), "drop_unused_inputs": case.drop,
            "meta": case.meta, "program": None if case.refl is None else [
                {k: (v if k != "ins" else [None if x is None else list(x) for x in v]) for k, v in nd.items() if k in ("kind", "ident", "ins", "outs", "attrs", "vnames")}
                for nd in case.refl.nodes],
            "graphs": None if case.refl is None else [[None if a is None else [list(x) for x in a], [(k, list(v)) for k, v in r]] for a, r in case.refl.graphs[1:]],
            "impl": case.impl, "model": case.model,
            "coq": None if case.coq is None else {"prog": case.coq[0], "request": case.coq[1],
                                                  "how": "From Spox Require Import Base IR Build Show Validate.  Eval vm_compute in show (build_checked <prog> <request>)."}}


# ------------------------------------------------------------------------------------------------ extended generator


def make_custom_op():
    """A user-defined operator class (own domain/version, one attribute, type-inference hook)."""
    from dataclasses import dataclass

    from spox._attributes import AttrFloat32
    from spox._fields import BaseAttributes, BaseInputs, BaseOutputs
    from spox._node import Node, OpType

    class Scale(Node):
        op_type = OpType("Scale", "verif.custom", 3)

        @dataclass
        class Attributes(BaseAttributes):
            factor: AttrFloat32

        @dataclass
        class Inputs(BaseInputs):
            X: Var

        @dataclass
        class Outputs(BaseOutputs):
            Y: Var

        attrs: Attributes
        inputs: Inputs
        outputs: Outputs

        def infer_output_types(self):
            return {"Y": self.inputs.X.type} if self.inputs.X.type is not None else {}

    def scale(x, factor=2.0):
        return Scale(Scale.Attributes(AttrFloat32(factor, "factor")), Scale.Inputs(x)).outputs.Y

    return scale


class GenX(Gen):
    """Gen + inlined models (built by spox itself from small recipes, with internal names resembling generated ones),
    functions (to_function; nested; repeated) and a custom operator."""

    NAME_SETS = [("x", "y"), ("Relu_0_Y", "Add_0_C"), ("a", "o"), ("Inline_0__x", "Inline_0__y"), ("Introduce_0_outputs_", "Argument_0_arg")]

    def __init__(self, rng, features=("inline", "func", "custom"), **kw):
        super().__init__(rng, **kw)
        self.features = set(features)
        self.models, self.funcs = [], []
        self.custom = make_custom_op()
        self.nfun = 0
        self.alt_names = set()
        self.intent_problems = []

    def inner_model(self):
        rng, op = self.rng, self.op
        n = rng.randint(1, 2)
        args = [argument(Tensor(F32, (2,))) for _ in range(n)]
        pool = list(args)
        for _ in range(rng.randint(1, 4)):
            a, b = rng.choice(pool), rng.choice(pool)
            k = rng.random()
            pool.append(op.add(a, b) if k < 0.35 else op.relu(a) if k < 0.55 else op.mul(a, initializer(np.array([1, 2], F32)))
                        if k < 0.75 else op.const(np.array([3, 4], F32)) if k < 0.85 else
                        op.if_(op.less(op.reduce_sum(a, keepdims=0), op.const(np.array(0, F32))),
                               then_branch=lambda: [op.add(a, b)], else_branch=lambda: [op.mul(a, b)])[0])
        outs = rng.sample(pool[n:], k=min(len(pool) - n, rng.randint(1, 2)))
        if rng.random() < 0.15:
            outs = outs + [args[0]]  # pass-through output
        names = rng.choice(self.NAME_SETS)
        m = build({f"{names[0]}{i}": a for i, a in enumerate(args)}, {f"{names[1]}{i}": o for i, o in enumerate(outs)})
        return m, n

    def make_function(self, depth=0):
        rng, op = self.rng, self.op
        kind = rng.randrange(3)
        name, domain = f"F{self.nfun}", "verif.fun"
        self.nfun += 1
        if self.nfun > 1 and rng.random() < 0.3:
            # the same function NAME in another domain: functions are identified by (domain, name)
            cand = f"F{rng.randrange(self.nfun - 1)}"
            if cand not in self.alt_names:
                self.alt_names.add(cand)
                name, domain = cand, "verif.alt"
        inner = rng.choice(self.funcs) if (self.funcs and rng.random() < 0.4) else None

        def body(x, y):
            t = op.add(x, y) if kind == 0 else op.mul(op.relu(x), y) if kind == 1 else op.sub(x, op.const(np.array([1, 1], F32)))
            if inner is not None:
                t = inner(t, y)[0]
            return [t]

        from spox._function import to_function

        f = to_function(name, domain)(body)
        expect = "Add" if kind == 0 else "Mul" if kind == 1 else "Sub"

        def call(a, b):
            r = list(f(a, b))
            # the operator that was just applied must be THIS definition (its body as written above), not another function that
            # happens to carry the same name / domain somewhere else in the process
            try:
                top = list(r[0]._op.func_graph.requested_results.values())[0]._op
                if inner is not None:
                    ok = isinstance(top, Function)
                else:
                    ok = top.op_type.identifier == expect
                if not ok:
                    self.intent_problems.append(f"function {domain}:{name} was defined with a body ending in "
                                                f"{'a function call' if inner is not None else expect} but the applied operator's body ends in {top.op_type.identifier}")
            except Exception:  # noqa: BLE001
                pass
            return r

        return call

    def program(self):
        rng = self.rng
        self.models = [self.inner_model() for _ in range(rng.randint(1, 2))] if "inline" in self.features else []
        self.funcs = []
        self.nfun, self.alt_names = 0, set()     # every program defines ITS functions F0, F1, ... (same names, other bodies)
        self.intent_problems = []
        if "func" in self.features:
            for _ in range(rng.randint(1, 3)):
                self.funcs.append(self.make_function())
        return super().program()

    def _expr(self, pool, depth):
        rng = self.rng
        k = rng.random()
        if k < 0.14 and self.models:
            self.count("Inline")
            m, n = rng.choice(self.models)
            r = inline(m)(*[self._same2(rng.choice(pool)) for _ in range(n)])
            return rng.choice(list(r.values()))
        if k < 0.24 and self.funcs:
            self.count("Function")
            f = rng.choice(self.funcs)
            return f(self._same2(rng.choice(pool)), self._same2(rng.choice(pool)))[0]
        if k < 0.29 and "custom" in self.features:
            self.count("Custom")
            return self.custom(rng.choice(pool), float(rng.randint(1, 3)))
        return super()._expr(pool, depth)


def dependency_arguments(outs):
    """Independent walker: the argument Vars on which the given Vars depend, through inputs and through the results of
    subgraphs at any depth (identity-based)."""
    seen, args, local = set(), [], set()

    def visit(v):
        if id(v) in seen:
            return
        seen.add(id(v))
        opn = v._op
        if isinstance(opn, Argument):
            args.append(v)
            return
        for x in opn.inputs:
            if x is not None:
                visit(x)
        for a in opn.attrs.get_fields().values():
            if isinstance(a, AttrGraph):
                for ba in a.value.requested_arguments or ():
                    local.add(id(ba))
                for r in a.value.requested_results.values():
                    visit(r)
        if isinstance(opn, Function):
            pass  # function bodies are closed over their own parameters

    for v in outs:
        visit(v)
    return [a for a in args if id(a) not in local]
