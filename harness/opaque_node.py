"""A custom operator WITHOUT type-inference / value-propagation hooks: its output is an untyped Var.
(No `from __future__ import annotations` here: spox reads the dataclass field types at class creation.)"""
import warnings
from dataclasses import dataclass, field

from spox import Var
from spox._attributes import AttrFloat32, AttrString
from spox._fields import BaseAttributes, BaseInputs, BaseOutputs
from spox._node import Node, OpType


class Opaque(Node):
    op_type = OpType("Opaque", "verif.opaque", 1)

    @dataclass
    class Attributes(BaseAttributes):
        pass

    @dataclass
    class Inputs(BaseInputs):
        X: Var

    @dataclass
    class Outputs(BaseOutputs):
        Y: Var

    attrs: Attributes
    inputs: Inputs
    outputs: Outputs


def untyped(x: Var) -> Var:
    with warnings.catch_warnings():
        warnings.simplefilter("ignore")
        y = Opaque(Opaque.Attributes(), Opaque.Inputs(x)).outputs.Y
    assert y.type is None
    return y


class Twice(Node):
    """A user-defined operator WITH a type hook, in its own domain (fixed composition scenarios of C18)."""
    op_type = OpType("Twice", "verif.c18fix", 3)

    @dataclass
    class Attributes(BaseAttributes):
        pass

    @dataclass
    class Inputs(BaseInputs):
        X: Var

    @dataclass
    class Outputs(BaseOutputs):
        Y: Var

    def infer_output_types(self):
        return {"Y": self.inputs.X.type} if self.inputs.X.type is not None else {}

    attrs: Attributes
    inputs: Inputs
    outputs: Outputs


class Scaled(Node):
    """A user-defined operator whose declared attributes have DEFAULTS (alpha = 1.5, mode = "fast"): constructed with explicit attributes
    or with ``attrs`` left out (``Node.__init__`` then instantiates ``Attributes()``), the defaults are emitted under their names."""
    op_type = OpType("Scaled", "verif.c18fix", 3)

    @dataclass
    class Attributes(BaseAttributes):
        alpha: AttrFloat32 = field(default_factory=lambda: AttrFloat32(1.5, "alpha"))
        mode: AttrString = field(default_factory=lambda: AttrString("fast", "mode"))

    @dataclass
    class Inputs(BaseInputs):
        X: Var

    @dataclass
    class Outputs(BaseOutputs):
        Y: Var

    def infer_output_types(self):
        return {"Y": self.inputs.X.type} if self.inputs.X.type is not None else {}

    attrs: Attributes
    inputs: Inputs
    outputs: Outputs


from typing import Optional, Sequence  # noqa: E402


class Pack(Node):
    """optional input + variadic input (fixed composition scenarios of C18)."""
    op_type = OpType("Pack", "verif.c18fix", 3)

    @dataclass
    class Attributes(BaseAttributes):
        pass

    @dataclass
    class Inputs(BaseInputs):
        first: Optional[Var]
        rest: Sequence[Var]

    @dataclass
    class Outputs(BaseOutputs):
        Y: Var

    def infer_output_types(self):
        r = list(self.inputs.rest)
        return {"Y": r[0].type} if r and r[0].type is not None else {}

    attrs: Attributes
    inputs: Inputs
    outputs: Outputs
