"""A custom operator WITHOUT type-inference / value-propagation hooks: its output is an untyped Var.
(No `from __future__ import annotations` here: spox reads the dataclass field types at class creation.)"""
import warnings
from dataclasses import dataclass

from spox import Var
from spox._fields import BaseAttributes, BaseInputs, BaseOutputs
from spox._node import Node, OpType


class Opaque(Node):
    op_type = OpType("Opaque", "verif.opaque", 1)

    @dataclass
    class Attributes(BaseAttributes):
        pass

    @dataclass
    class Inputs(BaseInputs):
        X: Var

    @dataclass
    class Outputs(BaseOutputs):
        Y: Var

    attrs: Attributes
    inputs: Inputs
    outputs: Outputs


def untyped(x: Var) -> Var:
    with warnings.catch_warnings():
        warnings.simplefilter("ignore")
        y = Opaque(Opaque.Attributes(), Opaque.Inputs(x)).outputs.Y
    assert y.type is None
    return y
