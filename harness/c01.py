"""C01 — a built model computes exactly the dataflow the program describes.

Model: coq/Build.v + coq/Sem.v (source evaluation over the DAG, execution of the emitted nested graphs);
theorems: coq/props/C01.v.  Correspondence: exact rendering of the real ModelProto vs the model's build on generated
legal and leak-containing programs.  Direct oracle on the implementation: every built model is executed by onnxruntime
(graph optimisations disabled) on random input bindings and compared with an independent numpy evaluation of the
program's object graph (Var._op / inputs / attribute values / body graphs as closures)."""

from __future__ import annotations

import collections

import numpy as np

from harness import buildlib as B
from harness.common import Run

CONE = ["Base.v", "IR.v", "Show.v", "Build.v", "Sem.v", "Plan.v", "Named.v", "Validate.v", "BuildFacts.v", "SemFacts.v", "FuncFacts.v", "NamedFacts.v", "DfsFacts.v", "CompilePres.v", "ScopeFacts.v", "EmitFacts.v", "ReachFacts.v", "DiscoverFacts.v", "CoverageFacts.v", "PlanFacts.v", "LcaFacts.v", "PlacementFacts.v", "DefUseFacts.v", "TreeFacts.v", "WfFacts.v", "LegalFacts.v"]
PROPS = "props/C01.v"


F32 = np.float32


def gen_cases(run: Run, n: int):
    rng = run.rng
    cases = []
    g = B.Gen(rng, leak_p=0.15)
    while len(cases) < n:
        # every other program is generated without side-effect leaks: such a program is legal and MUST build
        g.leak_p = 0.0 if len(cases) % 2 == 0 else 0.15
        ins, outs = g.program()
        cases.append(B.Case(ins, outs, rng.random() < 0.3, {"legal": g.leak_p == 0.0}))
        # every third program: ONE value computed by a control-flow node is built on its own first (same process, same Vars) - what
        # that build named or compiled must not show in the build that is judged
        cf = [v for v in list(outs.values()) + list(getattr(g, "last_pool", []))
              if any(isinstance(a, B.AttrGraph) for a in v._op.attrs.get_fields().values()) and isinstance(v.type, B.Tensor) and v.type.shape is not None]
        if cf and len(cases) % 3 == 0:
            cases[-1].pre = (dict(ins), {"y": rng.choice(cf)}, False)
            cases[-1].meta["after_build_of_one_control_flow_value"] = True
        cases[-1].meta["snapshot_problems"] = B.snapshot_problems(g.snapshots)
        cases[-1].meta["oneshot_problems"] = list(g.oneshot_problems)
    # RANK matters: scalar (rank 0) and one-element (rank 1) initializers / constants whose own rank reaches a requested output
    # (alone, combined with each other, inside an If branch and a Loop body, next to an ordinary broadcast use)
    for mk_name, mk in (("initializer", B.initializer), ("const", B.op17.const)):
        for sh in ((), (1,)):
            x = B.argument(B.Tensor(F32, (2,)))
            cnd = B.argument(B.Tensor(np.bool_, ()))
            s1, s2 = mk(np.array(3, F32).reshape(sh)), mk(np.array(-2, F32).reshape(sh))
            (br,) = B.op17.if_(cnd, then_branch=lambda: [B.op17.relu(s2)], else_branch=lambda: [B.op17.mul(s1, s2)])
            lp = B.op17.loop(B.op17.const(np.array(2, np.int64)), v_initial=[s1], body=lambda i, c, a: [c, B.op17.mul(a, s2)])[0]
            outs = {"prod": B.op17.mul(s1, s2), "alone": B.op17.relu(s1), "branch": br, "carried": lp, "broadcast": B.op17.add(x, s1)}
            cases.append(B.Case({"x": x, "cnd": cnd}, outs, False, {"legal": True, "rank_of_small_constants": f"{mk_name}{list(sh)}"}))
    # DEFAULT-VALUED model inputs (arguments(w=<array>): a graph input backed by an initializer) whose only consumers sit inside control-
    # flow bodies: the input is declared - with its default - by the MAIN graph only, and a fed value is what the bodies read
    from spox._graph import arguments as _arguments
    for where in ("if-branch", "loop-body", "nested-if-in-loop", "branch-and-main"):
        x = B.argument(B.Tensor(F32, (2,)))
        cnd = B.argument(B.Tensor(np.bool_, ()))
        (w,) = _arguments(w=np.array([10, 20], F32))
        if where == "if-branch":
            (r,) = B.op17.if_(cnd, then_branch=lambda: [B.op17.add(x, w)], else_branch=lambda: [B.op17.neg(x)])
            outs = {"r": r}
        elif where == "loop-body":
            outs = {"r": B.op17.loop(B.op17.const(np.array(2, np.int64)), v_initial=[x], body=lambda i, c, a: [c, B.op17.mul(a, w)])[0]}
        elif where == "nested-if-in-loop":
            outs = {"r": B.op17.loop(B.op17.const(np.array(2, np.int64)), v_initial=[x], body=lambda i, c, a: [
                c, B.op17.if_(cnd, then_branch=lambda: [B.op17.add(a, w)], else_branch=lambda: [B.op17.identity(a)])[0]])[0]}
        else:
            (r,) = B.op17.if_(cnd, then_branch=lambda: [B.op17.add(x, w)], else_branch=lambda: [B.op17.neg(x)])
            outs = {"r": r, "s": B.op17.mul(w, x)}
        cases.append(B.Case({"x": x, "cnd": cnd, "w": w}, outs, False, {"legal": True, "default_valued_input_read_in": where}))
    # a value created in a body at depth 1 (from the body's own argument, or from an outer value) and used again THREE and FOUR control-flow
    # levels deeper: it belongs to that body - a legal program that builds and computes its dataflow
    for deeper in (3, 4):
        for dep in ("body-argument", "outer-value"):
            x = B.argument(B.Tensor(F32, (2,)))
            cnd = B.argument(B.Tensor(np.bool_, ()))

            def lbody(i, c, acc):
                v = B.op17.add(acc if dep == "body-argument" else x, B.op17.const(np.array([1000, 1000], F32)))

                def nest(d):
                    if d == 0:
                        return B.op17.mul(v, acc)
                    return B.op17.if_(cnd, then_branch=lambda: [nest(d - 1)], else_branch=lambda: [B.op17.neg(acc)])[0]

                return [c, B.op17.add(B.op17.relu(v), nest(deeper))]

            r = B.op17.loop(B.op17.const(np.array(2, np.int64)), v_initial=[x], body=lbody)[0]
            cases.append(B.Case({"x": x, "cnd": cnd}, {"r": r}, False, {"legal": True, "value_reused_deeper": f"{deeper}-levels/{dep}"}))
    # scope-tree skeletons (shared with C04): a value (every 2nd time an initializer) created in one scope and used in others
    from harness import c04
    sks = list(c04.enumerate_skeletons(3, 1))
    for ski, sk in enumerate(sks):
        try:
            ins, outs, legal, extra = c04.build_skeleton(sk, as_init=(ski % 2 == 0))
        except Exception:  # noqa: BLE001
            continue
        cases.append(B.Case(ins, outs, False, {"legal": legal, "skeleton": True}))
    return cases, g.hist


def semantic_oracle(c: B.Case, nprng, trials=2):
    """ORT result of the built model vs numpy evaluation of the object graph. Returns problem string or None."""
    m = c.model_proto
    for t in range(trials):
        feeds, env = {}, {}
        used = {i.name for i in m.graph.input}
        for k, v in c.ins.items():
            shape = tuple(d if isinstance(d, int) else 2 for d in (v.type.shape if v.type.shape is not None else (2,)))
            if v.type.dtype == np.dtype(bool):
                a = np.array(bool((t + hash(k)) % 2))
            elif np.dtype(v.type.dtype).kind in "iu":
                a = nprng.randint(0, 5, size=shape).astype(v.type.dtype)
            else:
                a = (nprng.standard_normal(shape) * 3).astype(v.type.dtype)
            env[id(v)] = a
            if k in used:
                feeds[k] = a
        try:
            exp = [B.np_eval(v, env) for v in c.outs.values()]
        except B.NoEval as e:
            return None if "unbound" not in str(e) else None
        try:
            got = B.ort_run(m, feeds)
        except Exception as e:  # noqa: BLE001
            return "onnxruntime failed to run the built model: " + str(e)[:200]
        for name, g, e in zip(c.outs.keys(), got, exp):
            e = np.asarray(e)
            if g.shape != e.shape or g.dtype != e.dtype or not np.allclose(g, e, rtol=1e-5, atol=1e-6, equal_nan=True):
                return f"output {name!r}: onnxruntime {g.tolist()} ({g.dtype}{list(g.shape)}) != direct evaluation {e.tolist()} ({e.dtype}{list(e.shape)}) on inputs { {k: v.tolist() for k, v in feeds.items()} }"
    return None


def signed_zero_attributes(run: Run):
    """A program whose dataflow distinguishes +0.0 from -0.0 held in scalar ATTRIBUTES (Constant.value_float, in the main graph and in an
    If branch): x / c and x * c.  Both constants occur in one program and in both orders of creation; onnxruntime on the built model must
    give what the dataflow says (numpy), including the signs of zeros and infinities."""
    import onnxruntime as ort
    import spox.opset.ai.onnx.v17 as op
    from spox import Tensor, argument, build

    n = 0
    xv = np.array([1.0, -2.0, 0.0], np.float32)
    for first, second in ((0.0, -0.0), (-0.0, 0.0)):
        x = argument(Tensor(np.float32, (3,)))
        c = argument(Tensor(np.bool_, ()))
        a = op.constant(value_float=first)
        b = op.constant(value_float=second)
        (r,) = op.if_(c, then_branch=lambda: [op.div(x, op.constant(value_float=second))], else_branch=lambda: [op.div(x, op.constant(value_float=first))])
        outs = {"qa": op.div(x, a), "qb": op.div(x, b), "pb": op.mul(x, b), "branch": r}
        with np.errstate(all="ignore"):
            want = {"qa": xv / np.float32(first), "qb": xv / np.float32(second), "pb": xv * np.float32(second), "branch": xv / np.float32(second)}
        try:
            m = build({"x": x, "c": c}, outs)
            so = ort.SessionOptions()
            so.log_severity_level = 3
            so.graph_optimization_level = ort.GraphOptimizationLevel.ORT_DISABLE_ALL
            got = dict(zip(outs, ort.InferenceSession(m.SerializeToString(), so).run(None, {"x": xv, "c": np.array(True)})))
        except Exception as e:  # noqa: BLE001
            run.fail("impl", "C01/signed-zero-attributes/raises", f"{type(e).__name__}: {str(e)[:200]}", {"constants": [first, second]})
            continue
        for k in outs:
            n += 1
            if not (np.array_equal(got[k], want[k], equal_nan=True) and np.array_equal(np.signbit(got[k]), np.signbit(want[k]))):
                run.fail("impl", "C01/signed-zero-attributes/wrong-value",
                         f"{k}: x={xv.tolist()} with the scalar constants {first!r} then {second!r}: the model computes {got[k].tolist()}, the "
                         f"dataflow says {want[k].tolist()} (signs of zero / infinity compared)", {"constants": [first, second], "output": k})
                break
    return n


def run(run: Run) -> int:
    run.check_theorems(PROPS, CONE, thorough_coqchk=(run.tier == "thorough"))
    n = 250 if run.tier == "quick" else 4000
    cases, hist = gen_cases(run, n)
    mism = B.correspondence(run, "c01", cases)
    built = [c for c in cases if c.coq is not None and c.model_proto is not None]
    cprem = B.cover_premises(run, "c01cov", [c.coq for c in built])
    for c, ok in zip(built, cprem):
        if not ok:
            run.fail("corr", "C01/coverage-premises-not-met", "a program that builds does not satisfy the premises of "
                     "C01_no_application_is_dropped_by_construction", B.describe(c))
            break
    sprem = B.premise_eval(run, "c01spec", "PlanFacts", "spec_check_req", [c.coq for c in built])
    for c, ok in zip(built, sprem):
        if not ok:
            run.fail("corr", "C01/spec-plan-premise-not-met", "a program that builds does not satisfy the premise of "
                     "C01_build_sem_by_construction (its specification-level plan is not a well-formed linearisation)", B.describe(c))
            break
    n_sz = signed_zero_attributes(run)
    lprem = B.premise_eval(run, "c01legal", "LegalFacts", "legal_req", [c.coq for c in built])
    for c, ok in zip(built, lprem):
        if not ok:
            run.fail("corr", "C01/legality-premise-not-met", "a program that builds does not satisfy the decidable legality condition of "
                     "C01_build_sem_for_legal_programs", B.describe(c))
            break
    nprng = np.random.RandomState(run.seed)
    out_hist = collections.Counter()
    distinct, n_exec, n_bad = set(), 0, 0
    for i, c in enumerate(cases):
        out_hist[c.impl.split(" ")[1] if c.impl.startswith("ERR") else "model"] += 1
        if c.meta.get("oneshot_problems"):
            n_bad += 1
            run.fail("impl", "C01/one-shot-results-rejected", "a control-flow constructor refuses a body callback that hands its results over as a "
                     "generator / iterator, while the same callback returning a list is accepted: " + c.meta["oneshot_problems"][0][:200],
                     {"case": B.describe(c), "problems": c.meta["oneshot_problems"]})
        if c.meta.get("snapshot_problems"):
            n_bad += 1
            run.fail("impl", "C01/operands-not-those-of-the-call", c.meta["snapshot_problems"][0][:300], {"case": B.describe(c)})
        if c.model_proto is None:
            rank_unknown = isinstance(c.exc, ValueError) and "does not specify the shape" in str(c.exc)
            if c.meta.get("legal") and not rank_unknown:
                n_bad += 1
                run.fail("impl", "C01/legal-program-does-not-build", f"a well-typed program without leaks does not build: {c.impl}: {str(c.exc)[:160]}",
                         {"case": B.describe(c)})
            continue
        if c.refl and len(c.refl.graphs) > 1:
            distinct.add(c.impl)
        n_exec += 1
        prob = semantic_oracle(c, nprng)
        if prob:
            n_bad += 1
            run.fail("impl", "C01/wrong-value" if "!=" in prob else "C01/ort-run-fails", prob[:300], {"problem": prob, "case": B.describe(c)})
    for i in mism[:5]:
        run.fail("corr", f"C01/model-vs-impl/{i}", "model and implementation disagree on the emitted model / outcome class", B.describe(cases[i]))
    cov = {
        "evaluations": len(cases), "distinct_nontrivial": len(distinct),
        "rule": "random nested programs (If/Loop/Scan to depth 3, closures over outer values, sharing, values created in callbacks "
                "and reused outside, multi-output, optional/variadic inputs, initializers); distinct by rendering; non-trivial = has a subgraph",
        "traces_validated_against_impl": len([c for c in cases if c.coq is not None]) - len(mism),
        "disagreements_checked": len(mism),
        "coverage_theorem_premises_met": f"{sum(cprem)} of {len(built)} programs that build",
        "legality_premise_met (C01_build_sem_for_legal_programs)": f"{sum(lprem)} of {len(built)} programs that build",
        "semantic_theorem_by_construction_premise_met": f"{sum(sprem)} of {len(built)} programs that build",
        "signed_zero_attribute_comparisons": n_sz,
        "models_executed_ort_vs_numpy": n_exec, "bindings_per_model": 2, "semantic_mismatches": n_bad,
        "input_distribution": {"operators": hist, "outcomes": dict(out_hist)},
        "samples": [B.describe(c) for c in cases[:2]],
    }
    return run.finish(cov, [
        "A: onnxruntime (optimisations disabled) implements each operator's ONNX semantics (the abstract opsem of the theorems)",
        "the numpy evaluator of the object graph (buildlib.np_eval) is the independent reference for the generator's vocabulary",
    ])


def replay(run: Run, case) -> int:
    import json
    print(json.dumps(case.get("detail"), indent=1)[:4000])
    return 1
