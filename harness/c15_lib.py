"""Shared machinery of the C15 / C07 checks (value propagation).

* reflection of spox types / propagated values / arbitrary backend payloads into Gallina terms of coq/ValueProp.v;
* fault injection BELOW spox: ``onnx.reference.ReferenceEvaluator`` and ``onnxruntime.InferenceSession`` are replaced
  (module attributes, looked up by spox at every call) by wrappers that run the real evaluator and then misbehave as
  prescribed by a JSON-able fault description;
* a generator / interpreter of small straight-line programs over constants and arguments (one operator constructor
  call per step, so that "position" = step);
* independent oracles: conformance of a propagated value to a reported type, the "more permissive" order on types.
"""

from __future__ import annotations

import warnings

import numpy as np

from harness.common import coq_list, coq_str

HEADER = (
    "From Coq Require Import List String.\nFrom Spox Require Import ValueProp.\nImport ListNotations.\n"
    "Open Scope string_scope.\n"
)

# ------------------------------------------------------------------------------------------------ dtype tags

CHAR_TAG = {
    "?": "EBool", "b": "EI8", "h": "EI16", "i": "EI32", "l": "EI64", "B": "EU8", "H": "EU16", "I": "EU32", "L": "EU64",
    "e": "EF16", "f": "EF32", "d": "EF64", "F": "EC64", "D": "EC128", "U": "EStr", "q": "ELongLong", "Q": "EULongLong",
    "S": "EBytes", "g": "EOtherNum", "G": "EOtherNum",
}


def elem_tag(dtype, arr=None) -> str:
    dtype = np.dtype(dtype)
    if dtype.char == "O":
        if arr is not None and all(isinstance(x, str) for x in np.asarray(arr, dtype=object).ravel()):
            return "EObjStr"
        return "EObjOther"
    return CHAR_TAG.get(dtype.char, "EOtherDT")


def nat_list(xs) -> str:
    return coq_list([str(int(x)) for x in xs])


def paren(s: str) -> str:
    return f"({s})" if " " in s else s


def some(s):
    return "None" if s is None else f"Some {paren(s)}"


# ------------------------------------------------------------------------------------------------ reflection


def refl_type(t) -> str | None:
    """spox Type -> Gallina ``ty`` (None for an unknown type)."""
    from spox import Optional, Sequence, Tensor

    if t is None:
        return None
    if isinstance(t, Tensor):
        sh = t.shape
        if sh is None:
            s = "None"
        else:
            s = "(Some " + coq_list([f"DConst {d}" if isinstance(d, int) else "DUnk" for d in sh]) + ")"
        return f"Tensor {elem_tag(t.dtype)} {s}"
    if isinstance(t, Sequence):
        return f"Sequence ({refl_type(t.elem_type)})"
    if isinstance(t, Optional):
        return f"Optional ({refl_type(t.elem_type)})"
    return "TOther"


def refl_pval(v) -> str:
    """PropValue.value -> Gallina ``pval``."""
    from spox._value_prop import PropValue

    if isinstance(v, np.ndarray):
        return f"VArr {elem_tag(v.dtype, v)} {nat_list(v.shape)}"
    if isinstance(v, list):
        return "VList " + coq_list([f"({refl_type(e.type)}, {refl_pval(e.value)})" if isinstance(e, PropValue)
                                     else "(BAD, BAD)" for e in v])
    if isinstance(v, PropValue):
        return f"VSome ({refl_type(v.type)}) {paren(refl_pval(v.value))}"
    if v is None:
        return "VNothing"
    return "VBad"


def refl_pyval(x) -> str:
    """anything a backend may hand back -> Gallina ``pyval``."""
    if isinstance(x, np.ndarray):
        return f"PArr {elem_tag(x.dtype, x)} {nat_list(x.shape)}"
    if isinstance(x, list):
        return "PList " + coq_list([refl_pyval(e) for e in x])
    if x is None:
        return "PNone"
    if isinstance(x, (bool, int, float, complex, str, bytes, np.generic)):
        a = np.array(x)
        return f"PScalar {elem_tag(a.dtype, a)}"
    try:
        with warnings.catch_warnings():
            warnings.simplefilter("ignore")
            a = np.array(x)
    except Exception:  # noqa: BLE001
        return "POther None"
    return f"POther (Some ({elem_tag(a.dtype, a)}, {nat_list(a.shape)}))"


def describe_payload(x, depth=0) -> str:
    """short human-readable description for replays"""
    if isinstance(x, np.ndarray):
        return f"ndarray({x.dtype}, {list(x.shape)})"
    if isinstance(x, list):
        return "[" + ", ".join(describe_payload(e, depth + 1) for e in x[:4]) + "]"
    if isinstance(x, tuple):
        return "(" + ", ".join(describe_payload(e, depth + 1) for e in x[:4]) + ")"
    return f"{type(x).__name__}:{x!r}"[:60]


# ------------------------------------------------------------------------------------------------ independent oracles


def conforms(t, pv) -> bool:
    """Is the propagated value ``pv`` (a PropValue) a value of spox type ``t``?  Written independently of
    PropValue.check: recursion on the type, deep, annotations inside the value are ignored."""
    from spox import Optional, Sequence, Tensor
    from spox._value_prop import PropValue

    if not isinstance(pv, PropValue):
        return False
    v = pv.value
    if isinstance(t, Tensor):
        if not isinstance(v, np.ndarray):
            return False
        if t.shape is not None:
            if len(t.shape) != v.ndim:
                return False
            for d, n in zip(t.shape, v.shape):
                if isinstance(d, int) and d != n:
                    return False
        want = np.dtype(t.dtype)
        if want.kind == "U":
            if v.dtype.kind == "U":
                return True
            return v.dtype == object and all(isinstance(x, str) for x in v.ravel())
        return v.dtype == want and v.dtype.kind != "O"
    if isinstance(t, Sequence):
        return isinstance(v, list) and all(conforms(t.elem_type, e) for e in v)
    if isinstance(t, Optional):
        return v is None or conforms(t.elem_type, v)
    return False


def type_ge(a, b) -> bool:
    """a is equal to or more permissive than b (a = reported under fault, b = fault-free)."""
    from spox import Optional, Sequence, Tensor

    if a is None:
        return True
    if b is None:
        return False
    if isinstance(a, Tensor) and isinstance(b, Tensor):
        if np.dtype(a.dtype) != np.dtype(b.dtype):
            return False
        if a.shape is None:
            return True
        if b.shape is None or len(a.shape) != len(b.shape):
            return False
        return all((not isinstance(x, int)) or x == y for x, y in zip(a.shape, b.shape))
    if isinstance(a, Sequence) and isinstance(b, Sequence):
        return type_ge(a.elem_type, b.elem_type)
    if isinstance(a, Optional) and isinstance(b, Optional):
        return type_ge(a.elem_type, b.elem_type)
    return False


def values_equal(p, q) -> bool:
    """structural equality of two PropValues (exact)"""
    from spox._value_prop import PropValue

    a, b = (p.value if isinstance(p, PropValue) else p), (q.value if isinstance(q, PropValue) else q)
    if isinstance(a, np.ndarray) and isinstance(b, np.ndarray):
        return a.dtype == b.dtype and a.shape == b.shape and bool(np.array_equal(a, b, equal_nan=a.dtype.kind in "fc"))
    if isinstance(a, list) and isinstance(b, list):
        return len(a) == len(b) and all(values_equal(x, y) for x, y in zip(a, b))
    if a is None or b is None:
        return a is None and b is None
    if isinstance(a, PropValue) and isinstance(b, PropValue):
        return values_equal(a, b)
    return False


# ------------------------------------------------------------------------------------------------ faults


class BackendBoom(Exception):
    pass


def exception_classes():
    import onnx
    import onnxruntime.capi.onnxruntime_pybind11_state as ortstate

    out = {
        c.__name__: c for c in (
            RuntimeError, ValueError, TypeError, KeyError, IndexError, AttributeError, NotImplementedError,
            ZeroDivisionError, AssertionError, OSError, MemoryError, StopIteration, RecursionError, ImportError,
            OverflowError, FloatingPointError, LookupError, ArithmeticError, BufferError, EOFError, UnicodeError,
            BackendBoom,
        )
    }
    out["onnx.ValidationError"] = onnx.checker.ValidationError
    out["onnx.InferenceError"] = onnx.shape_inference.InferenceError
    for nm in ("Fail", "InvalidArgument", "NotImplemented", "RuntimeException", "InvalidGraph", "NoSuchFile"):
        c = getattr(ortstate, nm, None)
        if isinstance(c, type) and issubclass(c, Exception):
            out["ort." + nm] = c
    try:
        from onnx.reference.op_run import RuntimeTypeError

        out["onnx.RuntimeTypeError"] = RuntimeTypeError
    except Exception:  # noqa: BLE001
        pass
    return out


_EXC = None


def make_exc(name, msg="text"):
    global _EXC
    if _EXC is None:
        _EXC = exception_classes()
    cls = _EXC[name]
    try:
        if msg == "empty":
            return cls("")
        if msg == "noargs":
            return cls()
        if msg == "multiline":
            return cls("\n\ninjected\n  second line {0} %s %(x)d\n")
        if msg == "nonstr":
            return cls(("tuple", 3), None)
        if msg == "badstr":
            e = cls("injected")
            e.args = (_BadStr(),)
            return e
    except Exception:  # noqa: BLE001  (classes whose constructor needs particular arguments)
        pass
    return cls(f"injected {name}")


class _BadStr:
    def __str__(self):
        raise ValueError("str() of the exception argument fails")

    __repr__ = __str__


def base_array(o):
    if isinstance(o, np.ndarray):
        return o
    if isinstance(o, list) and o and isinstance(o[0], np.ndarray):
        return o[0]
    if isinstance(o, np.generic):
        return np.array(o)
    return np.zeros((2,), np.float32)


def wrong_dtype(a):
    k = a.dtype.kind
    if k == "f":
        return a.astype(np.int64) if a.dtype != np.float64 else a.astype(np.float32)
    if k in "iu":
        return a.astype(np.float32)
    if k == "b":
        return a.astype(np.int8)
    return np.zeros(a.shape, np.int64)


def payload(name, o):
    """The object handed back instead of the real output ``o``."""
    a = base_array(o)
    if name == "same":
        return o
    if name == "none":
        return None
    if name == "pyfloat":
        return 1.5
    if name == "pyint":
        return 3
    if name == "pybool":
        return True
    if name == "pystr":
        return "x"
    if name == "pybytes":
        return b"x"
    if name == "pycomplex":
        return 1j
    if name == "bigint":
        return 2 ** 70
    if name == "npscalar":
        return a.dtype.type(2) if a.dtype.kind in "fiub" else np.float32(2)
    if name == "npscalar-f64":
        return np.float64(2)
    if name == "wrong-dtype":
        return wrong_dtype(a)
    if name == "float64":
        return a.astype(np.float64) if a.dtype.kind in "fiub" else np.zeros(a.shape)
    if name == "alias-dtype":
        if a.dtype == np.int64:
            return a.astype(np.longlong)
        if a.dtype == np.uint64:
            return a.astype(np.ulonglong)
        return a.astype(np.longlong) if a.dtype.kind in "fiub" else np.zeros(a.shape, np.longlong)
    if name == "longdouble":
        return a.astype(np.longdouble) if a.dtype.kind in "fiub" else np.zeros(a.shape, np.longdouble)
    if name == "wrong-rank":
        return a.reshape(a.shape + (1,))
    if name == "wrong-dim":
        return np.zeros(tuple(d + 1 for d in a.shape) or (2,), a.dtype)
    if name == "zero-d":
        return np.zeros((), a.dtype)
    if name == "empty":
        return np.zeros((0,), a.dtype)
    if name == "wrong-dtype-other-values":       # neither the element type nor the numbers of the real result
        return wrong_dtype(payload("other-values", o)) if isinstance(o, np.ndarray) and a.dtype.kind in "fiub" else wrong_dtype(a)
    if name == "other-values":
        if a.dtype.kind in "fiu":
            return np.asarray(a + 1).astype(a.dtype).reshape(a.shape)
        if a.dtype.kind == "b":
            return ~a
        return a.copy()
    if name == "list2":
        return [a, a]
    if name == "list1":
        return [a]
    if name == "list1-real":
        return [o]
    if name == "list0":
        return []
    if name == "nested11":
        return [[a], [a]]
    if name == "nested2":
        return [[a, a]]
    if name == "list-none":
        return [None, a]
    if name == "list-scalars":
        return [1.0, 2.0]
    if name == "list-wrong-dtype":
        return [wrong_dtype(a), wrong_dtype(a)]
    if name == "list-wrong-shape":
        return [a.reshape(a.shape + (1,)), a]
    if name == "list-mixed":
        return [a, wrong_dtype(a)]
    if name == "tuple2":
        return (a, a)
    if name == "ragged-tuple":
        return (np.zeros(2), np.zeros(3))
    if name == "dict":
        return {"k": 1}
    if name == "object":
        return object()
    if name == "set":
        return {1, 2}
    if name == "objarr-str":
        return np.array(["a"] * max(a.size, 1), dtype=object).reshape(a.shape if a.size else (1,))
    if name == "objarr-first-str":      # an object array whose FIRST element is a str and a later one is not (2 or more elements)
        n = max(a.size, 2)
        vals = ["a"] * n
        vals[n // 2 if n > 2 else 1] = None
        vals[-1] = 1.5 if n > 2 else vals[-1]
        out = np.empty(n, dtype=object)
        out[:] = vals
        return out.reshape(a.shape) if a.size >= 2 else out
    if name == "objarr-other":
        return np.array([None] * max(a.size, 1), dtype=object).reshape(a.shape if a.size else (1,))
    if name == "bytes-array":
        return np.array([b"a"] * max(a.size, 1)).reshape(a.shape if a.size else (1,))
    if name == "str-array":
        return np.array(["a"] * max(a.size, 1)).reshape(a.shape if a.size else (1,))
    if name == "datetime":
        return np.zeros(a.shape, "datetime64[D]")
    if name == "array-for-seq":
        return a
    raise KeyError(name)


PAYLOADS = [
    "none", "pyfloat", "pyint", "pybool", "pystr", "pybytes", "pycomplex", "bigint", "npscalar", "npscalar-f64",
    "wrong-dtype", "wrong-dtype-other-values", "float64", "alias-dtype", "longdouble", "wrong-rank", "wrong-dim", "zero-d", "empty",
    "list2", "list1", "list1-real", "list0", "nested11", "nested2", "list-none", "list-scalars", "list-wrong-dtype",
    "list-wrong-shape", "list-mixed", "tuple2", "ragged-tuple", "dict", "object", "set", "objarr-str", "objarr-first-str", "objarr-other",
    "bytes-array", "str-array", "datetime", "array-for-seq",
]
STRUCTS = ["trunc-all", "trunc-last", "extra", "swap", "nonlist-none", "nonlist-int", "tuple", "generator"]
NAMES = ["rename", "inputs", "extra-unknown", "inputs-only", "reverse", "drop-first"]
STAGES = ["ctor", "names", "run"]


def all_faults():
    global _EXC
    if _EXC is None:
        _EXC = exception_classes()
    fs = []
    for e in _EXC:
        for st in STAGES:
            fs.append({"kind": "raise", "stage": st, "exc": e})
        for m in ("empty", "noargs"):
            fs.append({"kind": "raise", "stage": "run", "exc": e, "msg": m})
    for e in ("RuntimeError", "NotImplementedError", "BackendBoom", "ort.Fail", "KeyError"):
        for st in STAGES:
            for m in ("empty", "noargs", "multiline", "nonstr", "badstr"):
                if e in _EXC:
                    fs.append({"kind": "raise", "stage": st, "exc": e, "msg": m})
    for p in PAYLOADS:
        for idx in (0, 1):
            fs.append({"kind": "ret", "payload": p, "idx": idx})
    for s in STRUCTS:
        fs.append({"kind": "ret", "struct": s})
    for n in NAMES:
        fs.append({"kind": "ret", "names": n})
        fs.append({"kind": "ret", "names": n, "payload": "other-values", "idx": 0})
    fs.append({"kind": "ret", "payload": "other-values", "idx": 0})
    fs.append({"kind": "ret", "payload": "same", "idx": 0})
    return fs


def fault_label(f):
    if f is None or f.get("kind") == "pass":
        return "pass"
    if f["kind"] == "raise":
        return f"raise@{f['stage']}:{f['exc']}" + (":" + f["msg"] if f.get("msg") else "")
    return "ret:" + "/".join(str(f[k]) for k in ("struct", "names", "payload") if k in f)


class Injector:
    """Replaces the two evaluator entry points; ``arm(fault, input_names)`` before a constructor call, ``calls`` after."""

    def __init__(self):
        import onnx.reference
        import onnxruntime

        self.onnx_reference, self.onnxruntime = onnx.reference, onnxruntime
        self.real_ref = onnx.reference.ReferenceEvaluator
        self.real_ort = onnxruntime.InferenceSession
        self.fault = None
        self.input_names: list[str] = []
        self.calls: list[dict] = []
        inj = self

        class _Out:
            def __init__(self, name):
                self.name = name

        class _Base:
            backend = "?"

            def __init__(self, model, *a, **k):
                self.rec = {"backend": self.backend, "raised": None, "names": None, "outs": None, "nonlist": False,
                            "real_names": None, "real_outs": None}
                inj.calls.append(self.rec)
                f = inj.fault
                if f and f["kind"] == "raise" and f["stage"] == "ctor":
                    self.rec["raised"] = f["exc"]
                    raise make_exc(f["exc"], f.get("msg", "text"))
                try:
                    self.real = self._make(model, *a, **k)
                    self.real_names = self._real_names()
                except Exception as e:
                    self.rec["raised"] = "natural:" + type(e).__name__
                    raise
                self.rec["real_names"] = list(self.real_names)

            def _names(self):
                f = inj.fault
                if f and f["kind"] == "raise" and f["stage"] == "names":
                    self.rec["raised"] = f["exc"]
                    raise make_exc(f["exc"], f.get("msg", "text"))
                names = list(self.real_names)
                mode = (f or {}).get("names")
                if mode == "rename":
                    names = [n + "_renamed" for n in names]
                elif mode == "inputs":
                    names = list(inj.input_names) + names
                elif mode == "inputs-only":
                    names = list(inj.input_names)
                elif mode == "extra-unknown":
                    names = names + ["__no_such_value__"]
                elif mode == "reverse":
                    names = names[::-1]
                elif mode == "drop-first":
                    names = names[1:]        # the result lacks an output that is not the last one
                self.rec["names"] = names
                return names

            def run(self, out_names, feed, *a, **k):
                f = inj.fault
                if f and f["kind"] == "raise" and f["stage"] == "run":
                    self.rec["raised"] = f["exc"]
                    raise make_exc(f["exc"], f.get("msg", "text"))
                try:
                    outs = list(self.real.run(None, feed))
                except Exception as e:
                    self.rec["raised"] = "natural:" + type(e).__name__
                    raise
                self.rec["real_outs"] = outs
                if not f or f["kind"] != "ret":
                    self.rec["outs"] = outs
                    return outs
                outs = list(outs)
                mode = f.get("names")
                if mode in ("inputs", "inputs-only"):
                    k_in = len(inj.input_names)
                    filler = [payload("other-values", outs[i % len(outs)]) if outs else np.zeros((2,), np.float32) for i in range(k_in)]
                    outs = filler + (outs if mode == "inputs" else [])
                elif mode == "extra-unknown":
                    outs = outs + [outs[0] if outs else np.zeros((2,), np.float32)]
                elif mode == "reverse":
                    outs = outs[::-1]      # same association name -> value, other dictionary order
                elif mode == "drop-first":
                    outs = outs[1:]
                if "payload" in f and outs:
                    i = f.get("idx", 0) % len(outs)
                    outs[i] = payload(f["payload"], outs[i])
                s = f.get("struct")
                if s == "trunc-all":
                    outs = []
                elif s == "trunc-last":
                    outs = outs[:-1]
                elif s == "extra":
                    outs = outs + [base_array(outs[0] if outs else None)]
                elif s == "swap":
                    outs = outs[::-1]
                elif s == "nonlist-none":
                    self.rec["nonlist"] = True
                    return None
                elif s == "nonlist-int":
                    self.rec["nonlist"] = True
                    return 7
                self.rec["outs"] = outs
                if s == "tuple":
                    return tuple(outs)
                if s == "generator":
                    return iter(outs)
                return outs

        class FakeRef(_Base):
            backend = "REFERENCE"

            def _make(self, model, *a, **k):
                return inj.real_ref(model, *a, **k)

            def _real_names(self):
                return list(self.real.output_names)

            @property
            def output_names(self):
                return self._names()

        class FakeOrt(_Base):
            backend = "ONNXRUNTIME"

            def _make(self, model, *a, **k):
                return inj.real_ort(model, *a, **k)

            def _real_names(self):
                return [o.name for o in self.real.get_outputs()]

            def get_outputs(self):
                return [_Out(n) for n in self._names()]

        self.FakeRef, self.FakeOrt = FakeRef, FakeOrt

    def install(self):
        self.onnx_reference.ReferenceEvaluator = self.FakeRef
        self.onnxruntime.InferenceSession = self.FakeOrt

    def uninstall(self):
        self.onnx_reference.ReferenceEvaluator = self.real_ref
        self.onnxruntime.InferenceSession = self.real_ort

    def arm(self, fault, input_names=()):
        self.fault = fault if fault and fault.get("kind") != "pass" else None
        self.input_names = list(input_names)
        self.calls = []


def backend_result_term(calls) -> str:
    """What the wrappers _run_reference_implementation/_run_onnxruntime see inside their try block, as a Gallina
    ``backend_result``: an exception anywhere inside (constructor, output names, run, zip over a non-iterable) or the
    dictionary dict(zip(names, outputs))."""
    if not calls:
        return "BDict []"
    c = calls[-1]
    if c["raised"] is not None or c["nonlist"] or c["names"] is None or c["outs"] is None:
        return "BRaise 0"
    d = dict(zip(c["names"], c["outs"]))
    return "BDict " + coq_list([f"({coq_str(str(k))}, {refl_pyval(v)})" for k, v in d.items()])


# ------------------------------------------------------------------------------------------------ programs

F32, I64 = "float32", "int64"


def _arr(spec):
    return np.array(spec["value"], dtype=spec["dtype"]).reshape(spec["shape"])


# template table: name -> (input kinds (tuple of alternatives per argument), output kinds or callable, builder)
# kinds: F23 F6 F3 FX FV I3 IV IS SH1 SH2 SH23 SHX K1 S0 AX TWO1 ONE1 ONE2 SEQ6 SEQX OPT23 STR2 B B0
ANY6 = ("F23", "F6", "FX")
FLOATS = ("F23", "F6", "F3", "FX", "FV")


def templates(op, spox):
    import spox._future
    from spox import Tensor

    T = {}

    def t(name, ins, outs, fn):
        T[name] = (ins, outs, fn)

    for nm, f in (("add", op.add), ("sub", op.sub), ("mul", op.mul)):
        for k in ("F23", "F6", "F3", "I3"):
            t(f"{nm}_{k}", ((k,), (k,)), (k,), lambda a, p, f=f: [f(a[0], a[1])])
    t("mul_SH1", (("SH1",), ("ONE1",)), ("SH1",), lambda a, p: [op.mul(a[0], a[1])])
    t("mul_SH2", (("SH2", "SH23"), ("ONE2",)), ("SH2",), lambda a, p: [op.mul(a[0], a[1])])
    t("mul_SH23", (("SH23",), ("ONE2",)), ("SH23",), lambda a, p: [op.mul(a[0], a[1])])
    for nm, f in (("neg", op.neg), ("abs", op.abs), ("relu", op.relu), ("identity", op.identity)):
        for k in ("F23", "F6", "F3", "FX", "FV"):
            t(f"{nm}_{k}", ((k,),), (k,), lambda a, p, f=f: [f(a[0])])
    t("identity_SH2", (("SH2",),), ("SH2",), lambda a, p: [op.identity(a[0])])
    t("identity_STR2", (("STR2",),), ("STR2",), lambda a, p: [op.identity(a[0])])
    t("identity_SEQ6", (("SEQ6",),), ("SEQ6",), lambda a, p: [op.identity(a[0])])
    t("identity_OPT23", (("OPT23",),), ("OPT23",), lambda a, p: [op.identity(a[0])])
    t("reshape_to6", (ANY6, ("SH1",)), ("F6",), lambda a, p: [op.reshape(a[0], a[1])])
    t("reshape_to2d", (ANY6, ("SH2", "SHX")), ("FX",), lambda a, p: [op.reshape(a[0], a[1])])
    t("reshape_to23", (ANY6, ("SH23",)), ("F23",), lambda a, p: [op.reshape(a[0], a[1])])
    t("top_k6", (("F6",), ("K1",)), ("FV", "IV"), lambda a, p: list(op.top_k(a[0], a[1])))
    t("top_k3", (("F3",), ("K1",)), ("FV", "IV"), lambda a, p: list(op.top_k(a[0], a[1])))
    t("split2", (("F6",),), ("F3", "F3"), lambda a, p: list(op.split(a[0], outputs_count=2)))
    t("split3", (("F6",),), ("FV", "FV", "FV"), lambda a, p: list(op.split(a[0], outputs_count=3)))
    t("concat33", (("F3",), ("F3",)), ("F6",), lambda a, p: [op.concat([a[0], a[1]], axis=0)])
    t("concat66", (("F6",), ("F6",)), ("FV",), lambda a, p: [op.concat([a[0], a[1]], axis=0)])
    t("seq_construct", (("F6",), ("F6",)), ("SEQ6",), lambda a, p: [op.sequence_construct([a[0], a[1]])])
    t("seq_insert", (("SEQ6",), ("F6",)), ("SEQ6",), lambda a, p: [op.sequence_insert(a[0], a[1])])
    t("seq_at", (("SEQ6",), ("S0",)), ("F6",), lambda a, p: [op.sequence_at(a[0], a[1])])
    t("seq_length", (("SEQ6", "SEQX"),), ("IS",), lambda a, p: [op.sequence_length(a[0])])
    t("concat_from_seq", (("SEQ6",),), ("FV",), lambda a, p: [op.concat_from_sequence(a[0], axis=0)])
    t("split_to_seq", (("F6",),), ("SEQX",), lambda a, p: [op.split_to_sequence(a[0])])
    t("optional", (("F23",),), ("OPT23",), lambda a, p: [op.optional(a[0])])
    t("opt_get", (("OPT23",),), ("F23",), lambda a, p: [op.optional_get_element(a[0])])
    t("opt_has", (("OPT23",),), ("B",), lambda a, p: [op.optional_has_element(a[0])])
    t("shape_F23", (("F23",),), ("SH23",), lambda a, p: [op.shape(a[0])])
    t("shape_F6", (("F6",),), ("SH1",), lambda a, p: [op.shape(a[0])])
    t("shape_FX", (("FX",),), ("SHX",), lambda a, p: [op.shape(a[0])])
    t("size", (FLOATS,), ("IS",), lambda a, p: [op.size(a[0])])
    t("cast_I3_F3", (("I3",),), ("F3",), lambda a, p: [op.cast(a[0], to=np.float32)])
    t("cast_F3_I3", (("F3",),), ("I3",), lambda a, p: [op.cast(a[0], to=np.int64)])
    t("unsqueeze", (("F6",), ("AX",)), ("FX",), lambda a, p: [op.unsqueeze(a[0], a[1])])
    t("expand", (("F3",), ("SH23",)), ("F23",), lambda a, p: [op.expand(a[0], a[1])])
    t("const_of_shape", (("SH1", "SH2", "SH23", "SHX"),), ("FX",),
      lambda a, p: [op.constant_of_shape(a[0], value=np.array([1.5], np.float32))])
    t("tile", (("F3",), ("TWO1",)), ("F6",), lambda a, p: [op.tile(a[0], a[1])])
    t("slice", (("F6",), ("AX",), ("K1",)), ("FV",), lambda a, p: [op.slice(a[0], a[1], a[2])])
    t("unique", (("I3",),), ("IV", "IV", "IV", "IV"), lambda a, p: list(op.unique(a[0])))
    t("equal_I3", (("I3",), ("I3",)), ("B",), lambda a, p: [op.equal(a[0], a[1])])
    t("not", (("B",),), ("B",), lambda a, p: [op.not_(a[0])])
    t("if", (("B0",), ("F6",), ("F6",)), ("F6",),
      lambda a, p: list(op.if_(a[0], then_branch=lambda: [a[1]], else_branch=lambda: [a[2]])))

    # inference that yields no type (simulated by overriding infer_output_types of spox's own node classes): the
    # backend / the attribute still delivers a value
    class _AbsNoInfer(op._Abs):
        def infer_output_types(self):
            return {}

    class _ConstNoInfer(op._Constant):
        def infer_output_types(self):
            return {}

    def abs_untyped(a, p):
        with warnings.catch_warnings():
            warnings.simplefilter("ignore")
            return [_AbsNoInfer(op._Abs.Attributes(), op._Abs.Inputs(X=a[0])).outputs.Y]

    def const_untyped(a, p):
        from spox._attributes import AttrTensor

        with warnings.catch_warnings():
            warnings.simplefilter("ignore")
            attrs = op._Constant.Attributes(
                value=AttrTensor(np.array([1.0, 2.0], np.float32), "value"), value_float=None, value_floats=None,
                value_int=None, value_ints=None, value_string=None, value_strings=None)
            return [_ConstNoInfer(attrs).outputs.output]

    t("c_value_f6", (), ("F6",), lambda a, p: [op.constant(value=np.arange(6, dtype=np.float32) * 0.5)])
    t("c_value_i3", (), ("I3",), lambda a, p: [op.constant(value=np.array([2, 0, 1], np.int64))])
    t("c_value_u8", (), ("U8",), lambda a, p: [op.constant(value=np.array([[1, 2], [3, 4]], np.uint8))])
    t("c_value_f64", (), ("D",), lambda a, p: [op.constant(value=np.array(2.5, np.float64))])
    t("c_value_bool", (), ("B",), lambda a, p: [op.constant(value=np.array([True, False]))])
    t("c_value_longlong", (), ("I3",), lambda a, p: [op.constant(value=np.array([1, 2, 3], np.longlong))])
    t("c_value_float", (), ("FS",), lambda a, p: [op.constant(value_float=1.25)])
    t("c_value_floats", (), ("F3",), lambda a, p: [op.constant(value_floats=[0.5, -1.5, 2.0])])
    t("c_value_floats6", (), ("F6",), lambda a, p: [op.constant(value_floats=[0.5, -1.5, 2.0, 3.0, 4.0, 5.5])])
    t("c_value_int", (), ("S0",), lambda a, p: [op.constant(value_int=1)])
    t("c_value_ints", (), ("I3",), lambda a, p: [op.constant(value_ints=[3, 1, 2])])
    t("c_value_ints_sh", (), ("SH2",), lambda a, p: [op.constant(value_ints=[3, 2])])
    t("c_value_ints_empty", (), ("IV",), lambda a, p: [op.constant(value_ints=[])])
    t("c_value_string", (), ("STR0",), lambda a, p: [op.constant(value_string="héllo")])
    t("c_value_strings", (), ("STR2",), lambda a, p: [op.constant(value_strings=["a", "bç"])])
    # arrays in the non-native byte order, and read-only views of a buffer that its owner goes on modifying
    t("c_value_be_i8", (), ("I3",), lambda a, p: [op.constant(value=np.array([2, 0, 1], dtype=">i8"))])
    t("c_value_be_f4", (), ("F6",), lambda a, p: [op.constant(value=np.arange(6).astype(">f4") * 0.5)])
    t("init_be_f4", (), ("F3",), lambda a, p: [spox._future.initializer(np.array([1.5, -2.0, 3.0], dtype=">f4"))])
    # operators WITHOUT inputs whose result is not a constant: a random draw must never be taken for the value of the Var
    t("random_normal", (), ("F3",), lambda a, p: [op.random_normal(shape=[3])])
    t("random_uniform_seeded", (), ("F3",), lambda a, p: [op.random_uniform(shape=[3], seed=7.0)])
    t("random_normal_like", (("F3",),), ("F3",), lambda a, p: [op.random_normal_like(a[0])])
    t("random_uniform_like", (("F6",),), ("F6",), lambda a, p: [op.random_uniform_like(a[0], low=1.0, high=5.0)])
    # ... of the 16-bit element types as well (another packing path in make_tensor / from_array)
    t("c_value_be_i2", (), ("F3",), lambda a, p: [op.cast(op.constant(value=np.array([1, 2, 250], dtype=">i2")), to=np.float32)])
    t("c_value_be_u2", (), ("F3",), lambda a, p: [op.cast(op.constant(value=np.array([3, 256, 65535], dtype=">u2")), to=np.float32)])
    t("c_value_be_f2", (), ("F3",), lambda a, p: [op.cast(op.constant(value=np.array([1.5, -2.0, 0.25], dtype=">f2")), to=np.float32)])
    t("init_be_i2", (), ("F3",), lambda a, p: [op.cast(spox._future.initializer(np.array([7, -300, 1024], dtype=">i2")), to=np.float32)])

    # LARGE tensors (several KiB) in the non-native byte order / as strided views: the rows read back must be the numbers of the array
    _big_f = (np.arange(1100 * 3) % 17).reshape(1100, 3).astype(np.float32) * 0.5
    _big_i = (np.arange(700 * 3) % 23).reshape(700, 3).astype(np.int64)
    t("c_value_large_be_f4", (), ("F3",), lambda a, p: [op.gather(op.constant(value=_big_f.astype(">f4")), op.constant(value=np.array(1001, np.int64)))])
    t("init_large_be_i8", (), ("I3",), lambda a, p: [op.gather(spox._future.initializer(_big_i.astype(">i8")), op.constant(value=np.array(699, np.int64)))])
    t("c_value_large_strided_f4", (), ("F3",), lambda a, p: [op.gather(op.constant(value=np.repeat(_big_f, 2, axis=0)[::2]), op.constant(value=np.array(5, np.int64)))])

    def c_readonly_view(a, p):
        scratch = np.array([True, False])
        r = op.constant(value=np.broadcast_to(scratch, (2,)))
        scratch[:] = [False, True]
        return [r]

    def c_readonly_view_f(a, p):
        scratch = np.arange(3, dtype=np.float32)
        view = scratch[:]
        view.setflags(write=False)
        r = op.constant(value=view)
        scratch += 10
        return [r]

    t("c_readonly_view_bool", (), ("B",), c_readonly_view)
    t("c_readonly_view_f3", (), ("F3",), c_readonly_view_f)
    t("init_f6", (), ("F6",), lambda a, p: [spox._future.initializer(np.arange(6, dtype=np.float32) - 2)])
    t("init_i3", (), ("I3",), lambda a, p: [spox._future.initializer(np.array([1, 1, 2], np.int64))])
    t("init_str", (), ("STR2",), lambda a, p: [spox._future.initializer(np.array(["x", "yz"]))])
    t("abs_untyped", (("F6", "F3"),), ("UNT",), abs_untyped)
    t("const_untyped", (), ("UNT",), const_untyped)

    def inline1(a, p):
        return list(spox.inline(inline_model_1(op, spox))(a[0]).values())

    def inline2(a, p):
        return list(spox.inline(inline_model_2(op, spox))(a[0], a[1]).values())

    def inline3(a, p):
        return list(spox.inline(inline_model_3(op, spox))(a[0], a[1]).values())

    def inline_mut(a, p):
        """A ModelProto used as a template: inlined, then edited by its owner.  inline() replicates the model as it was
        when it was called."""
        import onnx

        m = onnx.ModelProto()
        m.CopyFrom(inline_model_4(op, spox))
        res = list(spox.inline(m)(a[0]).values())
        for n in m.graph.node:
            if n.op_type == "Constant":
                n.attribute[0].t.CopyFrom(onnx.numpy_helper.from_array(np.array(5.0, np.float32)))
        return res

    def unsafe_cast_f6(a, p):
        from spox._internal_op import unsafe_cast

        return [unsafe_cast(a[0], Tensor(np.float32, (None,)))]

    def unsafe_reshape_f6(a, p):
        from spox._internal_op import unsafe_reshape

        return [unsafe_reshape(a[0], (6,))]

    def linreg(a, p):
        import spox.opset.ai.onnx.ml.v3 as ml

        # reported [N, features], computed [N, targets] (known defect F6): the evaluator's natural result fails check
        return [ml.linear_regressor(a[0], coefficients=[1.0, 0.5, -1.0], intercepts=[0.25], targets=1)]

    # evaluators that compute in a wider type of the same kind than the one ONNX declares (the reference evaluator does
    # for ReduceSumSquare on 32-bit integers and for the Mean/InvStdDev outputs of LayerNormalization on non-float32 data)
    t("rss_I32M", (("I32M",),), ("I32S",), lambda a, p: [op.reduce_sum_square(a[0], keepdims=0)])
    t("rss_U32V", (("U32V",),), ("U32S",), lambda a, p: [op.reduce_sum_square(a[0], keepdims=1)])
    t("layernorm_D", (("D23",), ("D3",)), ("D23", "DM", "DM"), lambda a, p: list(op.layer_normalization(a[0], a[1], axis=-1)))
    t("layernorm_H", (("H23",), ("H3",)), ("H23", "HM", "HM"), lambda a, p: list(op.layer_normalization(a[0], a[1], axis=-1)))
    t("linreg", (("F23",),), ("LR",), linreg)
    t("inline_3", (("F6",), ("F6",)), ("F6", "F6"), inline3)
    t("unsafe_cast_F6", (("F6",),), ("FV",), unsafe_cast_f6)
    t("unsafe_reshape_F6", (("F6",),), ("F6",), unsafe_reshape_f6)
    t("inline_1", (("F23",),), ("F23", "F6"), inline1)
    t("inline_2", (("F6",), ("F6",)), ("F6",), inline2)
    t("inline_mut", (("F6",),), ("F6",), inline_mut)
    # operators WITHOUT inputs that the backend evaluates all the same (a fault there is handled like anywhere else)
    t("seq_empty", (), ("SEQX",), lambda a, p: [op.sequence_empty(dtype=np.float32)])
    t("inline_no_inputs", (), ("F6",), lambda a, p: list(spox.inline(inline_model_6(op, spox))().values()))
    t("inline_5_old_mixed", (("F23",),), ("F23OLD",), lambda a, p: list(spox.inline(inline_model_5())(a[0]).values()))
    return T


_INLINE_CACHE: dict = {}


def inline_model_1(op, spox):
    from spox import Tensor

    if "m1" not in _INLINE_CACHE:
        x = spox.argument(Tensor(np.float32, (2, 3)))
        _INLINE_CACHE["m1"] = spox.build(
            {"x": x}, {"y": op.add(x, x), "z": op.reshape(x, op.const(np.array([6], np.int64)))})
    return _INLINE_CACHE["m1"]


def inline_model_2(op, spox):
    from spox import Tensor

    if "m2" not in _INLINE_CACHE:
        a, b = spox.argument(Tensor(np.float32, (6,))), spox.argument(Tensor(np.float32, (6,)))
        _INLINE_CACHE["m2"] = spox.build({"a": a, "b": b}, {"r": op.sub(op.mul(a, b), a)})
    return _INLINE_CACHE["m2"]


def inline_model_3(op, spox):
    """two outputs of the same type, declared in an order that is not the sorted order of their names"""
    from spox import Tensor

    if "m3" not in _INLINE_CACHE:
        a, b = spox.argument(Tensor(np.float32, (6,))), spox.argument(Tensor(np.float32, (6,)))
        _INLINE_CACHE["m3"] = spox.build({"a": a, "b": b}, {"s": op.add(a, b), "d": op.sub(a, b)})
    return _INLINE_CACHE["m3"]


def inline_model_4(op, spox):
    """no initializers: the factor is a Constant node"""
    from spox import Tensor

    if "m4" not in _INLINE_CACHE:
        a = spox.argument(Tensor(np.float32, (6,)))
        _INLINE_CACHE["m4"] = spox.build({"a": a}, {"r": op.mul(a, op.const(np.array(2.0, np.float32)))})
    return _INLINE_CACHE["m4"]


def inline_model_6(op, spox):
    """a model without inputs (its result is computed from Constant nodes only)"""
    if "m6" not in _INLINE_CACHE:
        c = op.constant(value=np.arange(6, dtype=np.float32))
        _INLINE_CACHE["m6"] = spox.build({}, {"r": op.mul(c, op.constant(value=np.array(0.5, np.float32)))})
    return _INLINE_CACHE["m6"]


def inline_model_5():
    """an opset-11 model (Softmax's meaning changed at 13) that also holds a node of another domain: the shape sklearn converters
    produce; the default-domain part has to be converted to the surrounding model's opset"""
    if "m5" not in _INLINE_CACHE:
        import onnx
        from onnx import TensorProto as TP, helper as oh

        g = oh.make_graph(
            [oh.make_node("Softmax", ["x"], ["s"], axis=0),
             oh.make_node("Scaler", ["s"], ["y"], domain="ai.onnx.ml", scale=[2.0], offset=[0.5])],
            "g", [oh.make_tensor_value_info("x", TP.FLOAT, [2, 3])], [oh.make_tensor_value_info("y", TP.FLOAT, [2, 3])])
        m = oh.make_model(g, opset_imports=[oh.make_operatorsetid("", 11), oh.make_operatorsetid("ai.onnx.ml", 1)], ir_version=8)
        onnx.checker.check_model(m, full_check=True)
        _INLINE_CACHE["m5"] = m
    return _INLINE_CACHE["m5"]


def gen_sources(rng):
    """Initial environment: arguments and constants of every kind (JSON-able specs)."""
    src = []

    def fl(n):
        return [round(rng.uniform(-4, 4), 2) for _ in range(n)]

    src.append({"t": "arg", "kind": "F23", "dtype": F32, "shape": [2, 3]})
    src.append({"t": "arg", "kind": "F6", "dtype": F32, "shape": [6]})
    if rng.random() < 0.5:
        src.append({"t": "arg", "kind": "F3", "dtype": F32, "shape": [3]})
    if rng.random() < 0.4:
        src.append({"t": "arg", "kind": "I3", "dtype": I64, "shape": [3]})
    for kind, shape in (("F23", [2, 3]), ("F6", [6]), ("F3", [3]), ("F6", [6])):
        how = rng.choice(["const", "const", "init"])
        n = int(np.prod(shape))
        src.append({"t": how, "kind": kind, "dtype": F32, "shape": shape, "value": fl(n)})
    src.append({"t": "const", "kind": "I3", "dtype": I64, "shape": [3], "value": [rng.randrange(0, 4) for _ in range(3)]})
    src.append({"t": "const", "kind": "I3", "dtype": I64, "shape": [3], "value": [rng.randrange(0, 4) for _ in range(3)]})
    src.append({"t": "const", "kind": "SH1", "dtype": I64, "shape": [1], "value": [6]})
    src.append({"t": "const", "kind": "SH2", "dtype": I64, "shape": [2], "value": rng.choice([[3, 2], [1, 6], [6, 1], [2, 3]])})
    src.append({"t": "const", "kind": "SH23", "dtype": I64, "shape": [2], "value": [2, 3]})
    if rng.random() < 0.5:
        src.append({"t": "argdef", "kind": rng.choice(["SH23", "SH2", "F3"]), "dtype": I64, "shape": [2], "value": [2, 3]})
        if src[-1]["kind"] == "F3":
            src[-1].update(dtype=F32, shape=[3], value=[1.0, 2.0, 3.0])
    src.append({"t": "const", "kind": "ONE1", "dtype": I64, "shape": [1], "value": [1]})
    src.append({"t": "const", "kind": "ONE2", "dtype": I64, "shape": [2], "value": [1, 1]})
    src.append({"t": "const", "kind": "K1", "dtype": I64, "shape": [1], "value": [rng.randrange(1, 4)]})
    src.append({"t": "const", "kind": "S0", "dtype": I64, "shape": [], "value": [rng.randrange(0, 2)]})
    src.append({"t": "const", "kind": "AX", "dtype": I64, "shape": [1], "value": [rng.randrange(0, 2)]})
    src.append({"t": "const", "kind": "TWO1", "dtype": I64, "shape": [1], "value": [2]})
    src.append({"t": "const", "kind": "STR2", "dtype": "str", "shape": [2], "value": [rng.choice(["a", "bc", "äö"]), "d"]})
    src.append({"t": "const", "kind": "B0", "dtype": "bool", "shape": [], "value": [rng.random() < 0.5]})
    src.append({"t": "const", "kind": "I32M", "dtype": "int32", "shape": [2, 2], "value": [rng.randrange(-5, 6) for _ in range(4)]})
    src.append({"t": "const", "kind": "U32V", "dtype": "uint32", "shape": [3], "value": [rng.randrange(0, 6) for _ in range(3)]})
    src.append({"t": "const", "kind": "D23", "dtype": "float64", "shape": [2, 3], "value": [1.0, 2.0, 4.0, 0.5, 0.25, 8.0]})
    src.append({"t": "const", "kind": "D3", "dtype": "float64", "shape": [3], "value": [1.0, 2.0, 3.0]})
    src.append({"t": "const", "kind": "H23", "dtype": "float16", "shape": [2, 3], "value": [1.0, 2.0, 4.0, 0.5, 0.25, 8.0]})
    src.append({"t": "const", "kind": "H3", "dtype": "float16", "shape": [3], "value": [1.0, 2.0, 3.0]})
    return src


def gen_program(rng, tmpl, n_steps=None, p_const=0.75):
    """A program: sources followed by operator steps.  Each env entry = (kind, is_const)."""
    src = gen_sources(rng)
    env = [(s["kind"], s["t"] not in ("arg", "argdef")) for s in src]
    steps = []
    n_steps = n_steps or rng.randrange(5, 12)
    names = sorted(tmpl)
    tries = 0
    while len(steps) < n_steps and tries < 400:
        tries += 1
        name = rng.choice(names)
        ins, outs, _ = tmpl[name]
        want_const = rng.random() < p_const
        args = []
        for alts in ins:
            cands = [i for i, (k, c) in enumerate(env) if k in alts and (c or not want_const)]
            if not cands:
                cands = [i for i, (k, c) in enumerate(env) if k in alts]
            if not cands:
                args = None
                break
            # prefer recently produced values (longer chains)
            recent = [i for i in cands if i >= len(src)]
            args.append(rng.choice(recent) if recent and rng.random() < 0.6 else rng.choice(cands))
        if args is None:
            continue
        is_const = all(env[i][1] for i in args) and name != "if"
        steps.append({"t": name, "args": args})
        for k in outs:
            env.append((k, is_const))
    return {"sources": src, "steps": steps}


def slice_program(prog, pos):
    """Keep only the steps that step ``pos`` depends on (and the step itself); sources are kept whole."""
    ns = len(prog["sources"])
    # env index -> producing step
    owner, idx = {}, ns
    outs_of = []
    return_steps = prog["steps"]
    from_tmpl = prog.get("_outs")
    need = {pos}
    # compute number of outputs per step from recorded widths
    widths = prog["widths"]
    starts = []
    for w in widths:
        starts.append(idx)
        idx += w
    for p in range(len(return_steps)):
        for k in range(widths[p]):
            owner[starts[p] + k] = p
    changed = True
    while changed:
        changed = False
        for p in sorted(need):
            for a in return_steps[p]["args"]:
                if a >= ns and owner[a] not in need:
                    need.add(owner[a])
                    changed = True
    keep = sorted(need)
    remap = {i: i for i in range(ns)}
    new_steps, new_widths, cur = [], [], ns
    for p in keep:
        for k in range(widths[p]):
            remap[starts[p] + k] = cur + k
        cur += widths[p]
        new_steps.append({"t": return_steps[p]["t"], "args": [remap[a] for a in return_steps[p]["args"]]})
        new_widths.append(widths[p])
    return {"sources": prog["sources"], "steps": new_steps, "widths": new_widths}, keep.index(pos)
