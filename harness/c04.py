"""C04 — each operator application is emitted once, in the innermost enclosing scope.

Model: coq/Build.v (discover / update_scope_tree / resolve_scopes / compile) + Validate.emitted_once / placed /
Plan.check_plan; theorems: coq/props/C04.v.  Inputs: an EXHAUSTIVELY enumerated family of scope-tree skeletons (scope trees
of If-branches / Loop-bodies, movable values with every creation scope x body-dependence x use-scope set) and random
programs with leaks.  Correspondence: exact rendering (position and multiplicity of every NodeProto) and exception class.
Direct oracle on the implementation: an independent walker over the returned ModelProto (each value sits in the LCA of
the graphs that consume it; nothing is emitted twice; counts match the reachable Node objects) and an independent
legality rule for skeletons (a value depending on a Loop body's argument may only be used inside that body)."""

from __future__ import annotations

import collections
import itertools
import json

import numpy as np
import onnx

from harness import buildlib as B
from harness.common import Run

CONE = ["Base.v", "IR.v", "Show.v", "Build.v", "Sem.v", "Plan.v", "Named.v", "Validate.v", "BuildFacts.v", "SemFacts.v", "DfsFacts.v", "CompilePres.v", "ScopeFacts.v", "EmitFacts.v", "ReachFacts.v", "DiscoverFacts.v", "CoverageFacts.v", "LcaFacts.v", "PlacementFacts.v", "DefUseFacts.v"]
PROPS = "props/C04.v"
F32 = np.float32
op = B.op17


# ------------------------------------------------------------------------------------------------ skeletons


def tree_shapes(n):
    """parent arrays of rooted trees on scopes 0..n-1 (parent[i] < i)."""
    if n == 1:
        return [()]
    return [p + (k,) for p in tree_shapes(n - 1) for k in range(n - 1)]


def enumerate_skeletons(max_scopes, max_values):
    for n in range(1, max_scopes + 1):
        for parents in tree_shapes(n):
            for kinds in itertools.product("IL", repeat=n - 1):  # kind of each non-root scope
                kinds = ("R",) + kinds
                scopes = list(range(n))
                subsets = [s for r in range(1, n + 1) for s in itertools.combinations(scopes, r)]
                vals1 = [(c, dep, u) for c in scopes for dep in ((False, True) if kinds[c] == "L" else (False,)) for u in subsets]
                for k in range(1, max_values + 1):
                    if k == 1:
                        for v in vals1:
                            yield (parents, kinds, (v,))
                    else:  # pairs: second value uses the first one as operand (chains) – sampled diagonal to bound the family
                        for v in vals1:
                            for w in vals1[:: max(1, len(vals1) // 6)]:
                                yield (parents, kinds, (v, w))


def enumerate_deep(n=5):
    """Deeper family: n scopes, ONE body-independent value created in the main program and used in exactly two scopes."""
    scopes = list(range(n))
    for parents in tree_shapes(n):
        for kinds in itertools.product("IL", repeat=n - 1):
            for u in itertools.combinations(scopes, 2):
                yield (parents, ("R",) + kinds, ((0, False, u),))


def enumerate_shared_cf(max_scopes=4):
    """A control-flow NODE created once in the main program (an If whose branch reads a value v of the main program) whose result
    is used in one or two scopes of different depth, while v itself is used in at most one further scope; both orders of the uses."""
    for n in range(2, max_scopes + 1):
        scopes = list(range(n))
        for parents in tree_shapes(n):
            for kinds in itertools.product("IL", repeat=n - 1):
                for r in (1, 2):
                    for un in itertools.combinations(scopes, r):
                        for uv in [()] + [(s,) for s in scopes]:
                            for rev in (False, True):
                                yield (parents, ("R",) + kinds, un, uv, rev)


def build_shared_cf(sk):
    parents, kinds, un, uv, rev = sk
    n = len(kinds)
    children = {s: [t for t in range(1, n) if parents[t - 1] == s] for s in range(n)}
    a = B.argument(B.Tensor(F32, (2,)))
    cond = B.argument(B.Tensor(np.bool_, ()))
    v = op.relu(a)
    (node,) = op.if_(cond, then_branch=lambda: [op.add(v, op.const(np.array([1, 1], F32)))], else_branch=lambda: [op.identity(a)])

    def scope_body(s, body_arg):
        parts = []
        for t in children[s]:
            if kinds[t] == "I":
                parts.append(op.if_(cond, then_branch=lambda t=t: scope_body(t, None), else_branch=lambda: [op.identity(a)])[0])
            else:
                parts.append(op.loop(op.const(np.array(2, np.int64)), v_initial=[a], body=lambda i, c, x, t=t: [c] + scope_body(t, x))[0])
        if s in un:
            parts.append(op.abs(node))
        if s in uv:
            parts.append(op.neg(v))
        if body_arg is not None:
            parts.append(op.identity(body_arg))
        if not parts:
            parts.append(op.identity(a))
        if rev:
            parts.reverse()
        return [op.sum(parts)]

    res = scope_body(0, None)
    return {"a": a, "c": cond}, {"o": res[0]}


def build_shared_leak(sk, derived):
    """As build_shared_cf, but the shared control-flow node is a LOOP whose body stashes a value that depends on the body's own argument
    (a side effect of the callback); the Loop's result is used in the scopes `un` (so its body is reached from several graphs during
    discovery) and the stashed value in the scopes `uv`: with uv non-empty the program leaks a body-local value and must be rejected,
    whichever of the graphs discovery visits first."""
    parents, kinds, un, uv, rev = sk
    n = len(kinds)
    children = {s: [t for t in range(1, n) if parents[t - 1] == s] for s in range(n)}
    a = B.argument(B.Tensor(F32, (2,)))
    cond = B.argument(B.Tensor(np.bool_, ()))
    stash = []

    def lbody(i, c, x):
        stash.append(op.add(x, x) if derived else x)
        return [c, op.relu(x)]

    node = op.loop(op.const(np.array(2, np.int64)), v_initial=[a], body=lbody)[0]
    leaked = stash[0]

    def scope_body(s, body_arg):
        parts = []
        for t in children[s]:
            if kinds[t] == "I":
                parts.append(op.if_(cond, then_branch=lambda t=t: scope_body(t, None), else_branch=lambda: [op.identity(a)])[0])
            else:
                parts.append(op.loop(op.const(np.array(2, np.int64)), v_initial=[a], body=lambda i, c, x, t=t: [c] + scope_body(t, x))[0])
        if s in un:
            parts.append(op.abs(node))
        if s in uv:
            parts.append(op.neg(leaked))
        if body_arg is not None:
            parts.append(op.identity(body_arg))
        if not parts:
            parts.append(op.identity(a))
        if rev:
            parts.reverse()
        return [op.sum(parts)]

    res = scope_body(0, None)
    return {"a": a, "c": cond}, {"o": res[0]}


def descendants(parents, s):
    out = {s}
    for i in range(len(parents) + 1):
        j = i
        while j != 0:
            j = parents[j - 1]
            if j == s:
                out.add(i)
                break
    return out


def build_skeleton(sk, as_init=False):
    """Constructs the program with the real constructors. Returns (ins, outs, expect_legal, extra value or None)."""
    parents, kinds, values = sk
    n = len(kinds)
    children = {s: [t for t in range(1, n) if parents[t - 1] == s] for s in range(n)}
    a = B.argument(B.Tensor(F32, (2,)))
    cond = B.argument(B.Tensor(np.bool_, ()))
    created = {}
    realized = collections.defaultdict(set)
    default_args = []

    def scope_body(s, body_arg):
        # values created in this scope
        for j, (c, dep, uses) in enumerate(values):
            if c == s:
                base = body_arg if dep else a
                if j == 0 and not dep and as_init == 2:
                    # an argument with a default value (graph input backed by an initializer): defined once, by the main graph
                    from spox._graph import arguments as _arguments
                    (x,) = _arguments(w_default=np.array([1, 2], F32))
                    default_args.append(x)
                elif j == 0 and not dep and as_init:
                    x = B.initializer(np.array([1, 2], F32))     # an initializer-backed weight: must be lifted like any other value
                else:
                    x = op.relu(base) if j == 0 else op.neg(base)
                if j == 1 and 0 in created:
                    x = op.add(x, created[0])
                    realized['chained'].add(True)
                created[j] = x
        parts = []
        for t in children[s]:
            if kinds[t] == "I":
                r = op.if_(cond, then_branch=lambda t=t: scope_body(t, None), else_branch=lambda: [op.identity(a)])
                parts.append(r[0])
            else:
                r = op.loop(op.const(np.array(2, np.int64)), v_initial=[a], body=lambda i, c, x, t=t: [c] + scope_body(t, x))
                parts.append(r[0])
        # uses, evaluated after the children exist
        for j, (c, dep, uses) in enumerate(values):
            if s in uses and j in created:
                realized[j].add(s)
                parts.append(op.abs(created[j]))
        if not parts:
            parts.append(op.identity(a))
        return [op.sum(parts)]

    res = scope_body(0, None)
    legal = True
    dep0 = bool(values[0][1]) and 0 in created
    for j, (c, dep, uses) in enumerate(values):
        if j not in created:
            continue
        if dep and not realized[j] <= descendants(parents, c):
            legal = False
        # value 1 is built from value 0 when that exists at its creation: it inherits value 0's body dependence
        if j == 1 and dep0 and realized['chained']:
            inside0 = descendants(parents, values[0][0])
            if realized[1] and not realized[1] <= inside0:
                legal = False
    extra = None
    if 0 in created and not values[0][1] and realized[0]:
        extra = created[0]          # body-independent value: may also be requested directly in a second build
    ins = {"a": a, "c": cond}
    for x in default_args:
        ins["w_default"] = x
    return ins, {"o": res[0]}, legal, extra


# ------------------------------------------------------------------------------------------------ direct oracle


def placement_oracle(m: onnx.ModelProto):
    """On the returned model alone: every operator application (all outputs of a node together; an inlined block as one unit)
    sits in the LCA of the graphs that consume its values."""
    import re

    group_of, group_path, uses, problems = {}, {}, collections.defaultdict(list), []
    blk = re.compile(r"^(.*?Inline_\d+)__")

    def unit(n, idx, path):
        mm = blk.match(n.name) or next((blk.match(o) for o in n.output if blk.match(o)), None)
        return ("block", mm.group(1)) if mm else ("node", path, idx)

    def walk(g, path):
        input_names = {i.name for i in g.input}
        for t in g.initializer:
            if t.name in input_names:
                continue     # the default of a graph input: it lives where the input lives
            u = ("initializer", path, t.name)
            group_path.setdefault(u, path)
            group_of[t.name] = u
        for idx, n in enumerate(g.node):
            u = unit(n, idx, path)
            group_path.setdefault(u, path)
            for o in n.output:
                if o:
                    group_of[o] = u
            for i in n.input:
                if i:
                    uses[i].append((path, u))
            for a in n.attribute:
                if a.type == onnx.AttributeProto.GRAPH:
                    walk(a.g, path + (n.name + "." + a.name,))
        for o in g.output:
            uses[o.name].append((path, None))

    walk(m.graph, ("main",))
    # every value is defined once in the whole model: a graph input (with or without default), an initializer or a node output
    defs = collections.defaultdict(list)

    def walk_defs(g, path):
        names_here = {i.name for i in g.input}
        for i in g.input:
            defs[i.name].append("/".join(path) + ":input")
        for t in g.initializer:
            if t.name not in names_here:        # an initializer of the same graph under an input's name is that input's default
                defs[t.name].append("/".join(path) + ":initializer")
        for n in g.node:
            for o in n.output:
                if o:
                    defs[o].append("/".join(path) + ":" + n.op_type)
            for a in n.attribute:
                if a.type == onnx.AttributeProto.GRAPH:
                    walk_defs(a.g, path + (n.name + "." + a.name,))

    walk_defs(m.graph, ("main",))
    for v, where in defs.items():
        if len(where) > 1:
            problems.append(f"value {v!r} is emitted {len(where)} times: {where[:3]}")
    ext = collections.defaultdict(list)
    for v, us in uses.items():
        if v in group_of:
            u = group_of[v]
            ext[u] += [p for p, cu in us if cu != u]
    for u, paths in ext.items():
        if not paths:
            continue
        l = paths[0]
        for q in paths[1:]:
            k = 0
            while k < min(len(l), len(q)) and l[k] == q[k]:
                k += 1
            l = l[:k]
        if l != group_path[u]:
            problems.append(f"{u[0]} {u[1] if u[0] == 'block' else 'at ' + '/'.join(u[1]) + '#' + str(u[2])} is defined in {'/'.join(group_path[u])} "
                            f"but the innermost graph enclosing its uses is {'/'.join(l)}")
    return problems


def inline_with_unused_input(c: B.Case) -> bool:
    """Does the program inline a model that does not read one of its inputs?  Passing a value to such an input is a use of the value
    in the program's dataflow that is invisible in the emitted ModelProto, so the ModelProto-level innermost test does not apply."""
    seen = set()

    def visit(v):
        opn = v._op
        if id(opn) in seen:
            return False
        seen.add(id(opn))
        if isinstance(opn, B._Inline):
            read = {i for n in opn.model.graph.node for i in n.input} | {o.name for o in opn.model.graph.output}
            def sub_reads(g):
                r = set()
                for n in g.node:
                    r |= set(n.input)
                    for a in n.attribute:
                        if a.type == onnx.AttributeProto.GRAPH:
                            r |= sub_reads(a.g)
                return r
            read |= sub_reads(opn.model.graph)
            if any(i.name not in read for i in opn.model.graph.input):
                return True
        for x in opn.inputs:
            if x is not None and visit(x):
                return True
        for at in opn.attrs.get_fields().values():
            if isinstance(at, B.AttrGraph):
                for r in at.value.requested_results.values():
                    if visit(r):
                        return True
        if isinstance(opn, B.Function):
            for r in opn.func_graph.requested_results.values():
                if visit(r):
                    return True
        return False

    return any(visit(v) for v in c.outs.values())


def count_oracle(c: B.Case):
    """Number of emitted operator NodeProtos == number of distinct reachable operator Node objects."""
    seen, ops = set(), 0

    def visit(v):
        nonlocal ops
        opn = v._op
        if id(opn) in seen:
            return
        seen.add(id(opn))
        if not isinstance(opn, (B.Argument, B._Initializer)):
            ops += 1
        for x in opn.inputs:
            if x is not None:
                visit(x)
        for at in opn.attrs.get_fields().values():
            if isinstance(at, B.AttrGraph):
                for r in at.value.requested_results.values():
                    visit(r)

    for v in c.outs.values():
        visit(v)
    emitted = 0

    def walk(g):
        nonlocal emitted
        for n in g.node:
            if not (n.op_type == "Identity" and "Introduce_" in n.name):
                emitted += 1
            for a in n.attribute:
                if a.type == onnx.AttributeProto.GRAPH:
                    walk(a.g)

    walk(c.model_proto.graph)
    return [] if emitted == ops else [f"{emitted} operator nodes emitted, {ops} operator applications reachable from the outputs"]


def run(run: Run) -> int:
    run.check_theorems(PROPS, CONE, thorough_coqchk=(run.tier == "thorough"))
    quick = run.tier == "quick"
    sks = list(enumerate_skeletons(3 if quick else 4, 1 if quick else 2))
    if not quick and len(sks) > 30000:
        sks = sks[:: len(sks) // 30000 + 1]
    deep = list(enumerate_deep(5))
    step = max(1, len(deep) // (400 if quick else 4000))
    off = run.rng.randrange(step)
    sks = sks + deep[off::step]
    cases = []
    for ski, sk in enumerate(sks):
        try:
            ins, outs, legal, extra = build_skeleton(sk, as_init=(2 if ski % 8 == 5 else ski % 4 == 1))
        except Exception as e:  # construction itself failed (not build): skip, counted
            continue
        meta = {"skeleton": [list(sk[0]), list(sk[1]), [[c, d, list(u)] for c, d, u in sk[2]]], "legal": legal}
        cases.append(B.Case(ins, outs, False, meta))
        if extra is not None and legal and len(cases) % 3 == 0:
            # the same Vars built again in another combination: the movable value is now also a model output
            cases.append(B.Case(ins, {"o": outs["o"], "x": extra}, False, dict(meta, second_build=True)))
    shared = list(enumerate_shared_cf(4))
    stp = max(1, len(shared) // (300 if quick else 100000))
    for sk in shared[run.rng.randrange(stp)::stp]:
        ins, outs = build_shared_cf(sk)
        meta = {"skeleton": [list(sk[0]), list(sk[1]), {"shared-control-flow-node used in": list(sk[2]), "its operand used in": list(sk[3]),
                                                        "reversed": sk[4]}], "legal": True}
        cases.append(B.Case(ins, outs, False, meta))
    # the same shapes with a shared LOOP whose body leaks a body-local value: its body is reached from several graphs during discovery
    # (memoised claims); the leak must be diagnosed wherever it is used
    leaky = [sk for sk in shared if len(sk[3]) == 1 and len(sk[2]) == 2]
    stp = max(1, len(leaky) // (250 if quick else 100000))
    for j, sk in enumerate(leaky[run.rng.randrange(stp)::stp]):
        ins, outs = build_shared_leak(sk, derived=(j % 2 == 0))
        meta = {"skeleton": [list(sk[0]), list(sk[1]), {"shared Loop used in": list(sk[2]), "value leaked from its body used in": list(sk[3]),
                                                        "reversed": sk[4], "derived": j % 2 == 0}], "legal": False, "fixed": True}
        cases.append(B.Case(ins, outs, False, meta))
    # ONE callback function object handed to several constructor calls (two If nodes of one model; both branches of one If; a Loop body
    # used twice): each application is its own operator application with its own bodies - a legal program, emitted once each
    import numpy as _np
    for shape_ in ("two-ifs-share-a-branch", "both-branches-one-callable", "two-loops-share-a-body"):
        x = B.argument(B.Tensor(_np.float32, (2,)))
        c1, c2 = B.argument(B.Tensor(_np.bool_, ())), B.argument(B.Tensor(_np.bool_, ()))
        shared = B.op17.mul(x, x)

        def fallback():
            return [B.op17.add(shared, x)]

        def lbody(i, k, a):
            return [k, B.op17.add(a, shared)]

        if shape_ == "two-ifs-share-a-branch":
            (r1,) = B.op17.if_(c1, then_branch=lambda: [B.op17.neg(x)], else_branch=fallback)
            (r2,) = B.op17.if_(c2, then_branch=lambda: [B.op17.relu(x)], else_branch=fallback)
            outs_ = {"o": B.op17.add(r1, r2)}
        elif shape_ == "both-branches-one-callable":
            (r1,) = B.op17.if_(c1, then_branch=fallback, else_branch=fallback)
            outs_ = {"o": B.op17.add(r1, x)}
        else:
            n3 = B.op17.const(_np.array(2, _np.int64))
            r1 = B.op17.loop(n3, v_initial=[x], body=lbody)[0]
            r2 = B.op17.loop(n3, v_initial=[r1], body=lbody)[0]
            outs_ = {"o": B.op17.add(r1, r2)}
        cases.append(B.Case({"x": x, "c1": c1, "c2": c2}, outs_, True, {"skeleton": shape_, "legal": True, "fixed": True}))
    n_skel = len(cases)
    g = B.GenX(run.rng, leak_p=0.5, features=("func",))
    for _ in range(150 if quick else 2500):
        ins, outs = g.program()
        cases.append(B.Case(ins, outs, False, {"random": True}))
    # second tie (translator): the source text of Builder.ScopeTree.parent / .lca -> Gallina, proved equal to the model's parent / lca
    from harness import pysrc
    from harness.common import REPO
    tie = pysrc.check_tie(run, "C04/source-tie/equivalence-theorems", "Builder.ScopeTree.parent / .lca (src/spox/_build.py)",
                          lambda: pysrc.translate_scope_tree((REPO / "src/spox/_build.py").read_text()), "SrcBuildGen.v", "SrcBuildFacts.v", 4)
    mism = B.correspondence(run, "c04", cases)
    # non-vacuity of the validator-free emission theorem: its premises (duplicate-free traversal, no graph twice in the graph
    # tree) evaluated by the model on every program that builds
    built = [c for c in cases if c.coq is not None and c.model_proto is not None]
    prem = B.emission_premises(run, "c04prem", [c.coq for c in built])
    n_prem = sum(prem)
    for c, ok in zip(built, prem):
        if not ok:
            run.fail("corr", "C04/emission-premises-not-met", "a program that builds does not satisfy the premises of "
                     "C04_build_main_emits_at_most_once (duplicate-free traversal order, no graph twice in the graph tree)", B.describe(c))
            break
    cprem = B.cover_premises(run, "c04cov", [c.coq for c in built])
    n_cprem = sum(cprem)
    for c, ok in zip(built, cprem):
        if not ok:
            run.fail("corr", "C04/coverage-premises-not-met", "a program that builds does not satisfy the premises of "
                     "C04_emitted_iff_a_requested_output_depends_on_it_by_construction (acyclic object graph within the fuel, subgraph "
                     "attributes only on operator / function nodes)", B.describe(c))
            break
    out_hist = collections.Counter()
    n_bad = 0
    distinct = set()
    for i, c in enumerate(cases):
        tag = "skeleton" if "skeleton" in c.meta else "random"
        out_hist[tag + "/" + (c.impl.split(" ")[1] if c.impl.startswith("ERR") else "model")] += 1
        distinct.add(c.impl if c.model_proto is not None else repr(c.coq))
        probs = []
        if c.model_proto is not None:
            probs += [] if inline_with_unused_input(c) else placement_oracle(c.model_proto)
            probs += count_oracle(c) if "skeleton" in c.meta and not c.meta.get("fixed") else []
            if "skeleton" in c.meta and not c.meta["legal"]:
                probs.append("a value depending on a Loop body's argument is used outside that body, but build returned a model")
        elif "skeleton" in c.meta and c.meta["legal"]:
            probs.append(f"legal skeleton was rejected with {c.impl}")
        if probs:
            n_bad += 1
            key = "C04/misplaced" if "innermost" in probs[0] else "C04/multiplicity" if "emitted" in probs[0] else \
                "C04/leak-accepted" if "outside that body" in probs[0] else "C04/legal-rejected"
            run.fail("impl", key, probs[0][:250], {"problems": probs[:4], "case": B.describe(c)})
    for i in mism[:5]:
        run.fail("corr", f"C04/model-vs-impl/{i}", "model and implementation disagree on position/multiplicity of nodes or on the exception class",
                 B.describe(cases[i]))
    cov = {
        "evaluations": len(cases), "distinct_nontrivial": len(distinct),
        "rule": f"exhaustive skeleton family (scope trees with <= {3 if quick else 4} scopes of kind If-branch/Loop-body, "
                f"{1 if quick else 2} movable value(s): every creation scope x body-dependence x non-empty use-scope set), a sampled family of "
                f"5-scope trees with one value used in two scopes ({len(deep[off::step])} of {len(deep)}) "
                "plus random programs with leak probability 0.5; distinct by rendering",
        "exhaustive": True, "exhaustive_family_size": n_skel,
        "traces_validated_against_impl": len([c for c in cases if c.coq is not None]) - len(mism),
        "disagreements_checked": len(mism), "direct_oracle_failures": n_bad,
        "emission_theorem_premises_met": f"{n_prem} of {len(built)} programs that build",
        "coverage_theorem_premises_met": f"{n_cprem} of {len(built)} programs that build",
        "source_tie": tie,
        "input_distribution": {"outcomes": dict(out_hist), "operators_random_part": g.hist},
        "samples": [B.describe(c) for c in (cases[0], cases[n_skel // 2], cases[-1])],
    }
    return run.finish(cov, [
        "skeleton legality rule (oracle): a value depending on a Loop body's argument may be used only inside that body's subtree",
        "exhaustive refers to the stated skeleton family only; random programs extend beyond it",
    ])


def replay(run: Run, case) -> int:
    print(json.dumps(case.get("detail"), indent=1)[:4000])
    return 1
