"""C11 translator: dumps, from the CURRENT spox tree (whatever is on sys.path) and from onnx.defs, the facts that
coq/Sig.v talks about, and renders them as Gallina (SigsGen_<module>.v).

For every (module, operator) pair:
  * reflection: ``_OPERATORS`` / ``_CONSTRUCTORS``, the node class' ``op_type`` and ``Attributes/Inputs/Outputs``
    dataclasses, ``inspect.signature`` of the constructor (parameter kinds, defaults, return annotation);
  * behaviour: the constructor is CALLED on sentinel arguments for a family of argument patterns and the NodeProto that
    the real ``Node.to_onnx`` produces is recorded (input names, output names, attributes).  Sentinel Vars are named by
    the POSITION at which they were passed (``i<k>``, ``i<k>_<j>`` for variadics); returned Vars by their position in
    the returned value (``o<k>``, ``o<k>_<j>``).  Attribute values given are rendered canonically by this file from the
    Python value (never through spox); emitted ones from the AttributeProto.
The second table holds the same facts for the ONNX schemas in force at the module's version, computed from
``onnx.defs.get_all_schemas_with_history`` (not through spox._schemas, which is cross-checked).
Fail-closed: whatever cannot be classified becomes a ``Bad`` reason / ``VBad`` value / raised observation, all of which
make the Coq check fail.
"""

from __future__ import annotations

import dataclasses
import hashlib
import importlib
import inspect
import itertools
import struct
import typing
import warnings

import numpy as np
import numpy.typing as npt
import onnx
import onnx.defs
import onnx.helper
import onnx.numpy_helper

MODULES = [
    # (label, python module, onnx domain, version)
    ("ai.onnx.v17", "spox.opset.ai.onnx.v17", "", 17),
    ("ai.onnx.v18", "spox.opset.ai.onnx.v18", "", 18),
    ("ai.onnx.v19", "spox.opset.ai.onnx.v19", "", 19),
    ("ai.onnx.v20", "spox.opset.ai.onnx.v20", "", 20),
    ("ai.onnx.v21", "spox.opset.ai.onnx.v21", "", 21),
    ("ai.onnx.ml.v3", "spox.opset.ai.onnx.ml.v3", "ai.onnx.ml", 3),
    ("ai.onnx.ml.v4", "spox.opset.ai.onnx.ml.v4", "ai.onnx.ml", 4),
    ("ai.onnx.ml.v5", "spox.opset.ai.onnx.ml.v5", "ai.onnx.ml", 5),
]

AP = onnx.AttributeProto
SAFE = set(b"abcdefghijklmnopqrstuvwxyzABCDEFGHIJKLMNOPQRSTUVWXYZ0123456789 _-.,:;/()[]{}<>=+*#@!?~^&|'$")


def esc(s) -> str:
    b = s.encode("utf8") if isinstance(s, str) else bytes(s)
    return "".join(chr(c) if c in SAFE else "%%%02X" % c for c in b)


def f32bits(x) -> str:
    return "%08x" % struct.unpack("<I", struct.pack("<f", float(np.float32(x))))[0]


def digest(b: bytes) -> str:
    return hashlib.sha256(b).hexdigest()[:20]


def array_val(arr: np.ndarray):
    arr = np.asarray(arr)
    try:
        dt = int(onnx.helper.np_dtype_to_tensor_dtype(arr.dtype))
    except Exception as e:  # noqa: BLE001
        return ("VBad", f"tensor dtype {arr.dtype}: {type(e).__name__}")
    if arr.dtype == object:
        raw = b"\0".join(x if isinstance(x, bytes) else str(x).encode("utf8") for x in arr.ravel())
    else:
        raw = np.ascontiguousarray(arr).tobytes()
    return ("VTensor", dt, [int(d) for d in arr.shape], digest(raw))


def type_proto_val(tp: onnx.TypeProto):
    return ("VType", digest(tp.SerializeToString(deterministic=True)))


def render_attrproto(ap: onnx.AttributeProto):
    """AttributeProto -> aval (tuple)."""
    try:
        t = ap.type
        if ap.ref_attr_name:
            return ("VBad", "ref_attr_name set")
        if t == AP.FLOAT:
            return ("VFloat", f32bits(ap.f))
        if t == AP.INT:
            return ("VInt", int(ap.i))
        if t == AP.STRING:
            return ("VStr", esc(ap.s))
        if t == AP.TENSOR:
            return array_val(onnx.numpy_helper.to_array(ap.t))
        if t == AP.GRAPH:
            return ("VGraph", esc(ap.g.name))
        if t == AP.TYPE_PROTO:
            return type_proto_val(ap.tp)
        if t == AP.FLOATS:
            return ("VFloats", [f32bits(x) for x in ap.floats])
        if t == AP.INTS:
            return ("VInts", [int(x) for x in ap.ints])
        if t == AP.STRINGS:
            return ("VStrs", [esc(x) for x in ap.strings])
        if t == AP.UNDEFINED:
            return ("VBad", "undefined attribute type")
        c = onnx.AttributeProto()
        c.CopyFrom(ap)
        c.name = ""
        c.doc_string = ""
        return ("VOther", int(t), digest(c.SerializeToString(deterministic=True)))
    except Exception as e:  # noqa: BLE001
        return ("VBad", f"render: {type(e).__name__}")


def spox_type_to_proto(t):
    """Independent rendering of a spox Type as TypeProto (tensors only are used as sentinels)."""
    from spox import Tensor

    if isinstance(t, Tensor):
        return onnx.helper.make_tensor_type_proto(
            int(onnx.helper.np_dtype_to_tensor_dtype(np.dtype(t.dtype))), t.shape)
    raise TypeError("sentinel type")


def render_given(value, want_type, pname, acls):
    """Python value as passed to a constructor -> the aval the attribute must carry.  ``want_type`` is the schema's
    AttributeProto type for the attribute of that name (None when the schema has none: then by Python type)."""
    try:
        if callable(value) and not isinstance(value, type):
            return ("VGraph", esc("graph-of:" + pname))
        is_dtype = isinstance(value, (np.dtype, type)) or acls == "dtype"
        if is_dtype:
            return ("VInt", int(onnx.helper.np_dtype_to_tensor_dtype(np.dtype(value))))
        if isinstance(value, np.ndarray):
            return array_val(value)
        if want_type is None:
            if isinstance(value, bool):
                return ("VBad", "bool attribute value")
            if isinstance(value, int):
                want_type = AP.INT
            elif isinstance(value, float):
                want_type = AP.FLOAT
            elif isinstance(value, str):
                want_type = AP.STRING
            elif isinstance(value, (tuple, list)) and value:
                want_type = {int: AP.INTS, float: AP.FLOATS, str: AP.STRINGS}.get(type(value[0]))
        if want_type == AP.FLOAT and isinstance(value, (int, float)):
            return ("VFloat", f32bits(value))
        if want_type == AP.INT and isinstance(value, int) and not isinstance(value, bool):
            return ("VInt", int(value))
        if want_type == AP.STRING and isinstance(value, str):
            return ("VStr", esc(value))
        if want_type == AP.FLOATS:
            return ("VFloats", [f32bits(x) for x in value])
        if want_type == AP.INTS and all(isinstance(x, int) for x in value):
            return ("VInts", [int(x) for x in value])
        if want_type == AP.STRINGS and all(isinstance(x, str) for x in value):
            return ("VStrs", [esc(x) for x in value])
        if want_type == AP.TYPE_PROTO:
            return type_proto_val(spox_type_to_proto(value))
        return ("VBad", f"cannot render {type(value).__name__} as attribute type {want_type}")
    except Exception as e:  # noqa: BLE001
        return ("VBad", f"given: {type(e).__name__}")


# ------------------------------------------------------------------------------------------------ schema side


def schemas_in_force(domain: str, version: int):
    """name -> OpSchema with the largest since_version <= version, from onnx.defs alone."""
    best = {}
    for s in onnx.defs.get_all_schemas_with_history():
        if s.domain != domain or s.since_version > version:
            continue
        if s.name not in best or best[s.name].since_version < s.since_version:
            best[s.name] = s
    return best


OPT = {0: "Single", 1: "Optional", 2: "Variadic"}


def dump_schema(s, spox_schemas):
    bad = []
    ins, outs = [], []
    for lst, src in ((ins, s.inputs), (outs, s.outputs)):
        for p in src:
            k = OPT.get(int(p.option.value))
            if k is None:
                bad.append(f"formal parameter option {p.option}")
                k = "Single"
            lst.append((p.name, k))
    attrs = []
    for name in sorted(s.attributes):
        a = s.attributes[name]
        dv = a.default_value
        has = dv is not None and dv.type != AP.UNDEFINED
        d = render_attrproto(dv) if has else None
        if has and dv.type != a.type.value:
            bad.append(f"default of {name} has another type")
        if a.name != name:
            bad.append(f"attribute key {name} != name {a.name}")
        attrs.append({"name": name, "type": int(a.type.value), "required": bool(a.required), "default": d})
    # cross-check spox's own table (src/spox/_schemas.py), which StandardNode uses for min_input / min_output
    sp = spox_schemas.get(s.name)
    if sp is None:
        bad.append("spox._schemas.SCHEMAS has no schema of this name at the module's version")
    elif sp.since_version != s.since_version or sp.domain != s.domain:
        bad.append(f"spox._schemas.SCHEMAS gives since_version {sp.since_version}")
    return {"name": s.name, "domain": s.domain, "since": int(s.since_version), "deprecated": bool(s.deprecated),
            "inputs": ins, "outputs": outs, "min_in": int(s.min_input), "min_out": int(s.min_output),
            "attrs": attrs, "bad": bad}


# ------------------------------------------------------------------------------------------------ shipped side


def classify_ann(ann):
    """-> ('Var'|'OptVar'|'SeqVar'|'int'|'float'|'str'|'ints'|'floats'|'strs'|'tensor'|'dtype'|'type'|'callable'|'?..', optional?)"""
    from spox import Var
    from spox._type_system import Type

    table = [
        (Var, "Var"), (typing.Sequence[Var], "SeqVar"), (int, "int"), (float, "float"), (str, "str"),
        (typing.Iterable[int], "ints"), (typing.Iterable[float], "floats"), (typing.Iterable[str], "strs"),
        (np.ndarray, "tensor"), (npt.DTypeLike, "dtype"), (Type, "type"),
        (typing.Callable[..., typing.Iterable[Var]], "callable"), (typing.Callable[[], typing.Iterable[Var]], "callable"),
    ]
    for t, n in table:
        try:
            if ann == t:
                return n, False
            if ann == typing.Optional[t]:
                return ("OptVar", True) if n == "Var" else (n, True)
        except Exception:  # noqa: BLE001
            pass
    return "?" + esc(str(ann))[:60], False


class Ctx:
    pass


CREATED: list = []
_HOOKED = False


def install_hook():
    """Record every Node instance at the start of Node.__init__ (so a node is observable even if inference raises)."""
    global _HOOKED
    if _HOOKED:
        return
    from spox._node import Node

    orig = Node.__init__

    def hooked(self, *a, **k):
        CREATED.append(self)
        return orig(self, *a, **k)

    hooked._c11_orig = orig
    Node.__init__ = hooked
    _HOOKED = True


def sentinel_type(opname, pname):
    from spox import Tensor
    from spox._type_system import Sequence as SSeq

    if opname == "Loop":
        return {"M": Tensor(np.int64, ()), "cond": Tensor(np.bool_, ())}.get(pname, Tensor(np.float32, (2,)))
    if opname == "If":
        return Tensor(np.bool_, ())
    if opname == "Scan":
        return Tensor(np.float32, (3, 2))
    if opname == "SequenceMap":
        return SSeq(Tensor(np.float32, (2,)))
    return Tensor(np.float32, (2, 2))


def mk_var(typ, typed):
    from spox import argument

    v = argument(typ)
    if not typed:
        v.type = None
    return v


def given_value(acls, pname, default, opname, n_results, variant=0):
    """A distinctive, non-default value for a keyword parameter of annotation class ``acls`` (``variant`` > 0: another one,
    used by the random patterns so that a constant-emitting constructor cannot pass)."""
    from spox import Tensor

    if acls == "int":
        if variant:
            return 5 if default == 2 else 2
        return 4 if default == 3 else 3
    if acls == "float" and variant in (3, 4):
        return 0.0 if variant == 3 else -0.0     # equal as Python numbers, different attributes (the sign bit must arrive)
    if acls == "floats" and variant in (3, 4):
        return (0.0, 1.0) if variant == 3 else (-0.0, 1.0)
    if acls == "float":
        if variant:
            return -2.5 if default == 1e-3 else 1e-3  # 1e-3 is not exactly representable: rounding to float32 is exercised
        return 0.8125 if default == 0.4375 else 0.4375
    if acls == "str":
        return ("other " if variant else "given ") + pname
    if variant == 2 and acls in ("ints", "floats", "strs"):
        return ()       # an explicitly given EMPTY list is a given attribute (of length 0), not an absent one
    if acls == "ints":
        return (7,) if variant else (3, 1, 2)
    if acls == "floats":
        return (1e-3, 3.0, -0.0) if variant else (0.25, -1.5)
    if acls == "strs":
        return ("z",) if variant else ("a " + pname, "b")
    if acls == "tensor":
        return np.array([0.5, -1.0], dtype=np.float32) if variant else np.array([[1, 2, 3]], dtype=np.int32)
    if acls == "dtype":
        try:
            same = default is not None and default is not inspect.Parameter.empty and np.dtype(default) == np.float64
        except Exception:  # noqa: BLE001
            same = False
        if variant:
            return np.uint8
        return np.int32 if same else np.float64
    if acls == "type":
        return Tensor(np.float32, (2, 2)) if variant else Tensor(np.int64, (3,))
    if acls == "callable":
        def fn(*ins):
            if opname == "Loop":
                return list(ins[1:])
            if ins:
                return list(ins)
            return [mk_var(Tensor(np.float32, (2,)), True) for _ in range(n_results)]

        fn._c11_tag = pname
        return fn
    raise TypeError(f"no sentinel for parameter class {acls}")


def render_args(desc):
    out = []
    for d in desc:
        if d[0] == "S":
            out.append(("ArgS", d[1]))
        elif d[0] == "O":
            out.append(("ArgO", d[1]))
        else:
            out.append(("ArgV", list(d[1])))
    return out


def call_once(ctx, pat, mode, attempt):
    """One constructor call for an argument pattern; returns an obs dict or raises."""
    from spox import Var
    from spox._scope import Scope
    from spox._standard import StandardNode

    typed = mode != "untyped"
    names = []  # (var, name)
    pos_args, args_desc = [], []
    shared = {}  # with pat["share"]: ONE Var object (hence one name) for all slots of the same sentinel type
    var_lists = []  # the list objects passed for variadic parameters: the caller goes on using them after the call

    def fresh(typ, name):
        key = repr(typ)
        if pat.get("share") and key in shared:
            return shared[key]
        v = mk_var(typ, typed)
        names.append((v, name))
        shared[key] = (v, name)
        return v, name

    for i, (pname, k) in enumerate(ctx.pos):
        typ = sentinel_type(ctx.opname, pname)
        if k == "Var":
            v, nmv = fresh(typ, f"i{i}")
            pos_args.append(v)
            args_desc.append(("S", nmv))
        elif k == "OptVar":
            if pname in pat.get("falsy", {}):
                pos_args.append(pat["falsy"][pname])          # a FALSY object that is neither None nor a Var: no way of omitting the input
                args_desc.append(("O", None))
            elif pname in pat["opts"]:
                v, nmv = fresh(typ, f"i{i}")
                pos_args.append(v)
                args_desc.append(("O", nmv))
            else:
                pos_args.append(None)
                args_desc.append(("O", None))
        elif k == "SeqVar":
            pairs = [fresh(typ, f"i{i}_{j}") for j in range(pat["varlen"])]
            pos_args.append([v for v, _ in pairs])
            var_lists.append((pos_args[-1], typ))
            args_desc.append(("V", [n for _, n in pairs]))
        else:
            raise TypeError(f"positional parameter {pname} of class {k}")
    kwargs, given = {}, []
    for pname, acls, _opt, default in ctx.kw:
        if pname in pat["attrs"] or default is inspect.Parameter.empty:
            val = given_value(acls, pname, default, ctx.opname, max(1, pat["varlen"]), pat.get("variant", 0))
            kwargs[pname] = (x for x in val) if pat.get("variant") == 5 and acls in ("ints", "floats", "strs") else val
            given.append((pname, render_given(val, ctx.schema_attr_type.get(pname), pname, acls)))
    attempt["args"], attempt["given"] = render_args(args_desc), given
    patched = {}
    if mode == "noinfer":
        for meth in ("infer_output_types", "propagate_values"):
            patched[meth] = ctx.cls.__dict__.get(meth, None)
            setattr(ctx.cls, meth, lambda self: {})
    CREATED.clear()
    try:
        with warnings.catch_warnings():
            warnings.simplefilter("ignore")
            result = ctx.ctor(*pos_args, **kwargs)
    finally:
        for meth, old in patched.items():
            if old is None:
                delattr(ctx.cls, meth)
            else:
                setattr(ctx.cls, meth, old)
    nodes = [n for n in CREATED if isinstance(n, StandardNode)]
    CREATED.clear()
    for lst, typ in var_lists:
        # the slot was filled with the list's contents AT THE CALL; what the caller does to its list afterwards is its business
        late = mk_var(typ, typed)
        names.append((late, "appended_after_the_call"))
        lst.append(late)
    CREATED.clear()
    if len(nodes) != 1:
        raise RuntimeError(f"constructor created {len(nodes)} standard nodes")
    node = nodes[0]
    # returned structure, named by position
    ret_desc = []
    outs_named = []

    def is_seq(x):
        return isinstance(x, (tuple, list))

    if isinstance(result, Var):
        items = [result]
        top_seq = False
    elif is_seq(result):
        items = list(result)
        top_seq = ctx.ret == ("RetSeq",)
    else:
        raise TypeError(f"constructor returned {type(result).__name__}")
    if top_seq:
        if not all(isinstance(x, Var) for x in items):
            raise TypeError("variadic result holds non-Vars")
        ret_desc.append(("V", [f"o0_{j}" for j in range(len(items))]))
        outs_named += [(x, f"o0_{j}") for j, x in enumerate(items)]
    else:
        for k, x in enumerate(items):
            sk = ctx.schema_out_kinds[k] if k < len(ctx.schema_out_kinds) else "Single"
            if isinstance(x, Var):
                ret_desc.append(("O" if sk == "Optional" else "S", f"o{k}"))
                outs_named.append((x, f"o{k}"))
            elif is_seq(x) and all(isinstance(y, Var) for y in x):
                ret_desc.append(("V", [f"o{k}_{j}" for j in range(len(x))]))
                outs_named += [(y, f"o{k}_{j}") for j, y in enumerate(x)]
            else:
                raise TypeError(f"result {k} is {type(x).__name__}")
    scope = Scope()
    scope.node[node] = "n"
    for v, nm in names:
        scope.var[v] = nm
    for v, nm in outs_named:
        if v not in scope.var:
            scope.var[v] = nm
    for fname, v in node.outputs.get_vars().items():
        if v not in scope.var:
            scope.var[v] = "unreturned_" + fname

    def build_subgraph(_node, key, graph):
        fn = getattr(graph, "_constructor", None)
        tag = getattr(fn, "_c11_tag", None)
        return onnx.helper.make_graph([], "graph-of:" + (tag if tag is not None else "?unknown"), [], [])

    protos = node.to_onnx(scope, build_subgraph=build_subgraph)
    if len(protos) != 1:
        raise RuntimeError(f"to_onnx returned {len(protos)} nodes")
    np_ = protos[0]
    return {
        "raised": "", "classok": type(node) is ctx.cls, "mode": mode,
        "args": render_args(args_desc), "given": given, "ret": render_args(ret_desc),
        "optype": np_.op_type, "domain": np_.domain, "in": list(np_.input), "out": list(np_.output),
        "attr": [(a.name, render_attrproto(a)) for a in np_.attribute],
        "_proto": np_,
    }


def observe(ctx, pat, stats):
    last = None
    attempt = {"args": [], "given": []}
    for mode in ("untyped", "typed", "noinfer"):
        try:
            o = call_once(ctx, pat, mode, attempt)
            o["label"] = pat["label"]
            stats[mode] = stats.get(mode, 0) + 1
            return o
        except Exception as e:  # noqa: BLE001
            last = e
    stats["raised"] = stats.get("raised", 0) + 1
    return {"label": pat["label"], "raised": type(last).__name__, "classok": False, "mode": "raised",
            "args": attempt["args"], "given": attempt["given"], "ret": [], "optype": "", "domain": "", "in": [], "out": [],
            "attr": [], "error": f"{type(last).__name__}: {str(last)[:300]}"}


SHARED_FAILS = []
FALSY_FAILS = []


def patterns(ctx, rng=None, n_random=0):
    opt_inputs = [n for n, k in ctx.pos if k == "OptVar"]
    has_var = any(k == "SeqVar" for _, k in ctx.pos)
    opt_attrs = [n for n, _a, _o, d in ctx.kw if d is not inspect.Parameter.empty]
    pats, seen = [], set()

    def add(label, opts, varlen, attrs, variant=0, share=False):
        key = (tuple(sorted(opts)), varlen if has_var else 1, tuple(sorted(attrs)), variant if attrs or ctx.kw else 0, share)
        if key in seen:
            return
        seen.add(key)
        pats.append({"label": label, "opts": frozenset(opts), "varlen": varlen, "attrs": frozenset(attrs), "variant": variant, "share": share})

    add("defaults", [], 1, [])
    for r in range(1, len(opt_inputs) + 1):
        for sub in itertools.combinations(opt_inputs, r):
            add("inputs{" + ",".join(sub) + "}", sub, 1, [])
    for a in opt_attrs:
        add("attr:" + a, opt_inputs, 1, [a])
        add("attr-only:" + a, [], 1, [a])
    for a, acls, _o, d in ctx.kw:
        if d is not inspect.Parameter.empty and acls in ("ints", "floats", "strs"):
            add("attr-empty-list:" + a, [], 1, [a], variant=2)
    for a, acls, _o, d in ctx.kw:
        if d is not inspect.Parameter.empty and acls in ("ints", "floats", "strs"):
            # the value handed over as a ONE-SHOT iterable (the parameters are annotated Iterable[...]): it arrives all the same
            add("attr-one-shot-iterable:" + a, opt_inputs, 1, [a], variant=5)
    for a, acls, _o, d in ctx.kw:
        if d is not inspect.Parameter.empty and acls in ("float", "floats"):
            # two calls in a row whose values are EQUAL as Python objects but are different attributes (0.0, then -0.0)
            add("attr-zero:" + a, [], 1, [a], variant=3)
            add("attr-negative-zero:" + a, [], 1, [a], variant=4)
    add("all-attrs", [], 1, opt_attrs)
    add("all-attrs+all-inputs", opt_inputs, 1, opt_attrs)
    add("no-attrs+all-inputs", opt_inputs, 1, [])
    # one Var object passed to several slots (each argument must still land in its own schema slot)
    if len(ctx.pos) >= 2 or has_var:
        add("shared-var+all-inputs", opt_inputs, 3 if has_var else 1, [], share=True)
        for r in range(1, len(opt_inputs)):
            add("shared-var+inputs-prefix%d" % r, opt_inputs[:r], 2 if has_var else 1, [], share=True)
    if has_var:
        for L in (0, 2, 3):
            add(f"variadic={L}", [], L, [])
            add(f"variadic={L}+all", opt_inputs, L, opt_attrs)
    if rng is not None:
        for t in range(n_random):
            oi = [n for n in opt_inputs if rng.random() < 0.5]
            oa = [n for n in opt_attrs if rng.random() < 0.5]
            add(f"random{t}", oi, rng.randrange(4), oa, variant=1)
    return pats


def dump_entry(M, key, schema_by_name, rng=None, n_random=0, stats=None):
    from spox._fields import VarFieldKind

    stats = stats if stats is not None else {}
    bad = []
    ops, cons = getattr(M, "_OPERATORS", {}), getattr(M, "_CONSTRUCTORS", {})
    cls, ctor = ops.get(key), cons.get(key)
    e = {"key": key, "name": "", "domain": "", "since": -1, "inputs": [], "outputs": [], "attrs": [], "params": [],
         "ret": ("RetBad", "unknown"), "obs": [], "bad": bad}
    if cls is None:
        bad.append("no entry in _OPERATORS")
    if ctor is None:
        bad.append("no entry in _CONSTRUCTORS")
    if cls is None or ctor is None:
        return e
    try:
        ot = cls.op_type
        e["name"], e["domain"], e["since"] = str(ot.identifier), str(ot.domain), int(ot.version)
    except Exception as ex:  # noqa: BLE001
        bad.append(f"op_type: {type(ex).__name__}")
    kindname = {VarFieldKind.SINGLE: "Single", VarFieldKind.OPTIONAL: "Optional", VarFieldKind.VARIADIC: "Variadic"}
    for which, dc in (("inputs", getattr(cls, "Inputs", None)), ("outputs", getattr(cls, "Outputs", None))):
        try:
            for f in dataclasses.fields(dc):
                e[which].append((f.name, kindname[dc._get_field_type(f)]))
        except Exception as ex:  # noqa: BLE001
            bad.append(f"{which}: {type(ex).__name__}: {str(ex)[:80]}")
    try:
        import spox._attributes as A

        for f in dataclasses.fields(cls.Attributes):
            t = f.type
            opt = False
            if typing.get_origin(t) is typing.Union:
                args = [a for a in typing.get_args(t) if a is not type(None)]
                if len(args) == 1 and len(typing.get_args(t)) == 2:
                    t, opt = args[0], True
            if not (isinstance(t, type) and issubclass(t, A.Attr)):
                bad.append(f"attribute field {f.name} has type {esc(str(f.type))[:60]}")
                e["attrs"].append({"name": f.name, "cls": "?", "ptype": -3, "opt": opt})
                continue
            if f.default is not dataclasses.MISSING or f.default_factory is not dataclasses.MISSING:
                bad.append(f"attribute field {f.name} has a dataclass default")
            try:
                ptype = int(t._attribute_proto_type)
            except Exception:  # noqa: BLE001
                ptype = -3
            e["attrs"].append({"name": f.name, "cls": t.__name__, "ptype": ptype, "opt": opt})
    except Exception as ex:  # noqa: BLE001
        bad.append(f"attributes: {type(ex).__name__}: {str(ex)[:80]}")
    # constructor signature
    ctx = Ctx()
    ctx.ctor, ctx.cls, ctx.opname = ctor, cls, key
    ctx.pos, ctx.kw = [], []
    sch = schema_by_name.get(key)
    ctx.schema_attr_type = {a["name"]: a["type"] for a in sch["attrs"]} if sch else {}
    ctx.schema_out_kinds = [k for _, k in sch["outputs"]] if sch else []
    attr_cls = {a["name"]: a["cls"] for a in e["attrs"]}
    callable_ok = True
    try:
        sig = inspect.signature(ctor)
        for p in sig.parameters.values():
            acls, aopt = classify_ann(p.annotation)
            kwonly = p.kind is inspect.Parameter.KEYWORD_ONLY
            if p.kind not in (inspect.Parameter.KEYWORD_ONLY, inspect.Parameter.POSITIONAL_OR_KEYWORD):
                bad.append(f"parameter {p.name} is {p.kind.name}")
                callable_ok = False
            if acls.startswith("?"):
                bad.append(f"parameter {p.name}: unclassifiable annotation {acls[1:]}")
                callable_ok = False
            pk = {"Var": "Single", "OptVar": "Optional", "SeqVar": "Variadic"}.get(acls)
            if p.default is inspect.Parameter.empty:
                d = ("NoDefault",)
            elif p.default is None:
                d = ("DefNone",)
            elif pk is not None:
                d = ("DefEmpty",) if (isinstance(p.default, tuple) and not p.default) else ("DefBad", "default of a Var parameter")
            else:
                d = ("DefVal", render_given(p.default, ctx.schema_attr_type.get(p.name), p.name,
                                            "dtype" if attr_cls.get(p.name) == "AttrDtype" else acls))
            e["params"].append({"name": p.name, "kwonly": kwonly, "kind": pk, "ann": ("opt " if aopt else "") + acls, "default": d})
            if kwonly:
                ctx.kw.append((p.name, acls, aopt, p.default))
            else:
                ctx.pos.append((p.name, acls))
        ra = sig.return_annotation
        from spox import Var

        if ra == Var:
            e["ret"] = ("RetVar",)
        elif ra == typing.Sequence[Var]:
            e["ret"] = ("RetSeq",)
        elif typing.get_origin(ra) is tuple and all(a == Var for a in typing.get_args(ra)) and typing.get_args(ra):
            e["ret"] = ("RetTuple", len(typing.get_args(ra)))
        else:
            e["ret"] = ("RetBad", esc(str(ra))[:60])
        ctx.ret = e["ret"]
    except Exception as ex:  # noqa: BLE001
        bad.append(f"signature: {type(ex).__name__}: {str(ex)[:80]}")
        callable_ok = False
    if callable_ok:
        for pat in patterns(ctx, rng, n_random):
            o = observe(ctx, pat, stats)
            if pat.get("share"):
                # one Var in several slots: sentinel names repeat, so the Coq check (which needs distinct names to tell the
                # arguments apart) does not apply; the emission is compared here with the prescribed one (position i = argument i,
                # "" for inner omitted optionals, trailing omitted ones dropped down to the schema minimum)
                stats["shared_var_patterns"] = stats.get("shared_var_patterns", 0) + 1
                if o.get("raised"):
                    continue
                flat = []
                for a in o["args"]:
                    if a[0] == "ArgV":
                        flat.extend(a[1])
                    else:
                        flat.append(a[1] if a[1] is not None else "")
                sch = schema_by_name.get(key)
                min_in = sch["min_in"] if sch is not None else 0
                while len(flat) > min_in and flat[-1] == "":
                    flat.pop()
                if list(o["in"]) != flat:
                    SHARED_FAILS.append({"module": M.__name__, "operator": key, "pattern": pat["label"], "args": o["args"],
                                         "emitted_inputs": list(o["in"]), "prescribed_inputs": flat})
                continue
            e["obs"].append(o)
        # an optional input given as a falsy object that is neither None nor a Var ("" as in onnx.helper.make_node, (), 0): the slot would
        # silently disappear and every later operand shift one schema slot to the left - the constructor must raise at the call
        opt_inputs = [n for n, k in ctx.pos if k == "OptVar"]
        for oi in opt_inputs:
            for fv in ("", (), 0):
                pat = {"label": f"falsy-optional:{oi}", "opts": frozenset(opt_inputs), "varlen": 1, "attrs": frozenset(), "variant": 0, "share": False,
                       "falsy": {oi: fv}}
                stats["falsy_optional_calls"] = stats.get("falsy_optional_calls", 0) + 1
                try:
                    call_once(ctx, pat, "typed", {})
                except Exception:  # noqa: BLE001
                    continue
                FALSY_FAILS.append({"module": M.__name__, "operator": key, "input": oi, "value": repr(fv)})
    return e


def dump_module(label, modname, domain, version, rng=None, n_random=0):
    install_hook()
    from spox._schemas import SCHEMAS

    stats = {}
    bad = []
    try:
        M = importlib.import_module(modname)
    except Exception as ex:  # noqa: BLE001
        return {"label": label, "domain": domain, "version": version, "entries": [], "schemas": [],
                "bad": [f"import failed: {type(ex).__name__}: {str(ex)[:200]}"], "stats": stats}
    inforce = schemas_in_force(domain, version)
    try:
        spox_schemas = SCHEMAS[domain][version]
    except Exception:  # noqa: BLE001
        spox_schemas = {}
        bad.append("spox._schemas.SCHEMAS has no table for this domain/version")
    schemas = [dump_schema(inforce[n], spox_schemas) for n in sorted(inforce)]
    by_name = {s["name"]: s for s in schemas}
    ops, cons = getattr(M, "_OPERATORS", None), getattr(M, "_CONSTRUCTORS", None)
    if not isinstance(ops, dict) or not isinstance(cons, dict):
        bad.append("module has no _OPERATORS / _CONSTRUCTORS dict")
        ops, cons = {}, {}
    keys = list(ops) + [k for k in cons if k not in ops]
    entries = [dump_entry(M, k, by_name, rng, n_random, stats) for k in keys]
    # the public names: every constructor is exported under its own name
    exported = set(getattr(M, "__all__", []))
    for k, fn in cons.items():
        if getattr(M, getattr(fn, "__name__", "?"), None) is not fn or fn.__name__ not in exported:
            for e in entries:
                if e["key"] == k:
                    e["bad"].append("constructor is not exported under its name")
    return {"label": label, "domain": domain, "version": version, "entries": entries, "schemas": schemas, "bad": bad,
            "stats": stats}


# ------------------------------------------------------------------------------------------------ Gallina rendering


def q(s: str) -> str:
    return '"' + s.replace('"', '""') + '"'


def zs(n: int) -> str:
    return f"({n})%Z" if n < 0 else f"{n}%Z"


def lst(items) -> str:
    return "[" + "; ".join(items) + "]"


def coq_aval(v) -> str:
    t = v[0]
    if t in ("VFloat", "VStr", "VGraph", "VType", "VBad"):
        return f"({t} {q(v[1])})"
    if t == "VInt":
        return f"(VInt {zs(v[1])})"
    if t == "VTensor":
        return f"(VTensor {zs(v[1])} {lst([zs(d) for d in v[2]])} {q(v[3])})"
    if t in ("VFloats", "VStrs"):
        return f"({t} {lst([q(x) for x in v[1]])})"
    if t == "VInts":
        return f"(VInts {lst([zs(x) for x in v[1]])})"
    if t == "VOther":
        return f"(VOther {zs(v[1])} {q(v[2])})"
    raise ValueError(v)


def coq_arg(a) -> str:
    if a[0] == "ArgS":
        return f"ArgS {q(a[1])}"
    if a[0] == "ArgO":
        return "ArgO None" if a[1] is None else f"ArgO (Some {q(a[1])})"
    return f"ArgV {lst([q(x) for x in a[1]])}"


def coq_fields(fs) -> str:
    return lst([f"mkf {q(n)} {k}" for n, k in fs])


def coq_pairs(ps) -> str:
    return lst([f"({q(n)}, {coq_aval(v)})" for n, v in ps])


def coq_bool(b) -> str:
    return "true" if b else "false"


def coq_obs(o) -> str:
    return (f"mko {q(esc(o['label']))} {q(esc(o['raised']))} {coq_bool(o['classok'])} {lst([coq_arg(a) for a in o['args']])} "
            f"{coq_pairs(o['given'])} {lst([coq_arg(a) for a in o['ret']])} {q(esc(o['optype']))} {q(esc(o['domain']))} "
            f"{lst([q(esc(x)) for x in o['in']])} {lst([q(esc(x)) for x in o['out']])} {coq_pairs([(esc(n), v) for n, v in o['attr']])}")


def coq_default(d) -> str:
    if d[0] == "DefVal":
        return f"(DefVal {coq_aval(d[1])})"
    if d[0] == "DefBad":
        return f"(DefBad {q(d[1])})"
    return d[0]


def coq_param(p) -> str:
    k = "None" if p["kind"] is None else f"(Some {p['kind']})"
    return f"mkp {q(esc(p['name']))} {coq_bool(p['kwonly'])} {k} {q(esc(p['ann']))} {coq_default(p['default'])}"


def coq_ret(r) -> str:
    if r[0] == "RetTuple":
        return f"(RetTuple {r[1]})"
    if r[0] == "RetBad":
        return f"(RetBad {q(r[1])})"
    return r[0]


def coq_entry(e) -> str:
    attrs = lst([f"mka {q(esc(a['name']))} {q(esc(a['cls']))} {zs(a['ptype'])} {coq_bool(a['opt'])}" for a in e["attrs"]])
    return ("mke " + " ".join([
        q(esc(e["key"])), q(esc(e["name"])), q(esc(e["domain"])), zs(e["since"]),
        coq_fields([(esc(n), k) for n, k in e["inputs"]]), coq_fields([(esc(n), k) for n, k in e["outputs"]]), attrs,
        "\n    " + lst([coq_param(p) for p in e["params"]]), coq_ret(e["ret"]),
        "\n    " + lst(["\n     " + coq_obs(o) for o in e["obs"]]),
        lst([q(esc(b)) for b in e["bad"]]),
    ]))


def coq_schema(s) -> str:
    attrs = lst([
        f"mks {q(esc(a['name']))} {zs(a['type'])} {coq_bool(a['required'])} "
        + ("None" if a["default"] is None else f"(Some {coq_aval(a['default'])})")
        for a in s["attrs"]
    ])
    return ("mksc " + " ".join([
        q(esc(s["name"])), q(esc(s["domain"])), zs(s["since"]), coq_bool(s["deprecated"]),
        coq_fields([(esc(n), k) for n, k in s["inputs"]]), coq_fields([(esc(n), k) for n, k in s["outputs"]]),
        str(s["min_in"]), str(s["min_out"]), attrs, lst([q(esc(b)) for b in s["bad"]]),
    ]))


def ident(label: str) -> str:
    return label.replace(".", "_")


def render_module(d, excused) -> str:
    m = ident(d["label"])
    entries = list(d["entries"])
    if d["bad"]:
        # module-level trouble: an explicit Bad entry that can never conform
        entries.append({"key": "module", "name": "", "domain": "", "since": -1, "inputs": [], "outputs": [], "attrs": [],
                        "params": [], "ret": ("RetBad", "module"), "obs": [], "bad": list(d["bad"])})
    out = [
        f"(* GENERATED by harness/c11_dump.py from the current tree: module {d['label']} "
        f"(domain {d['domain']!r}, version {d['version']}), {len(d['entries'])} operator entries. *)",
        "From Coq Require Import List String ZArith Bool.",
        "From Spox Require Import Sig SigFacts.",
        "Import ListNotations.",
        "Open Scope string_scope.",
        "Definition schemas : list schema := [",
        ";\n".join("  " + coq_schema(s) for s in d["schemas"]),
        "].",
        "Definition table : list shipped := [",
        ";\n".join("  " + coq_entry(e) for e in entries),
        "].",
        f"Definition excused : list string := {lst([q(esc(k)) for k in excused])}.",
        "Set Printing Width 100000000.",
        "Set Printing Depth 100000000.",
        "Eval vm_compute in (List.length table).",
        "Eval vm_compute in (failing_keys table schemas).",
        "Eval vm_compute in (failing_obs table schemas).",
        f"Theorem all_conform_{m} : check_all excused table schemas = true.",
        "Proof. vm_compute. reflexivity. Qed.",
        f"Theorem all_conform_lifted_{m} : forall e, In e table -> Conforms excused schemas e.",
        f"Proof. exact (check_all_sound excused table schemas all_conform_{m}). Qed.",
        f"Theorem complete_{m} : forall s, In s schemas -> s_deprecated s = false ->",
        "  In (s_name s ++ \"/completeness\") excused \\/ exists e, In e table /\\ e_key e = s_name s.",
        f"Proof. exact (check_all_complete excused table schemas all_conform_{m}). Qed.",
        f"Print Assumptions all_conform_{m}.",
        f"Print Assumptions all_conform_lifted_{m}.",
        f"Print Assumptions complete_{m}.",
    ]
    return "\n".join(out) + "\n"


GEN_THEOREMS_PER_MODULE = 3


def strip_private(d):
    """JSON-able copy (drops the NodeProto objects)."""
    def clean(o):
        return {k: v for k, v in o.items() if not k.startswith("_")}

    return {**d, "entries": [{**e, "obs": [clean(o) for o in e["obs"]]} for e in d["entries"]]}


if __name__ == "__main__":
    import sys
    import time

    t = time.time()
    tot = 0
    for lab, mod, dom, ver in MODULES:
        d = dump_module(lab, mod, dom, ver)
        n_obs = sum(len(e["obs"]) for e in d["entries"])
        tot += len(d["entries"])
        print(lab, len(d["entries"]), "entries", len(d["schemas"]), "schemas", n_obs, "observations", d["stats"], d["bad"])
        if len(sys.argv) > 1:
            open(f"{sys.argv[1]}/SigsGen_{ident(lab)}.v", "w").write(render_module(d, []))
    print("total", tot, "in", round(time.time() - t, 1), "s")
