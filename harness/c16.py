"""C16 — scoped settings are restored on every exit from their block.

Model: coq/Settings.v (exec), theorems: coq/props/C16.v.  Correspondence: random block histories are executed
against the real context managers / decorators of spox._future and against the model (vm_compute); final settings,
outcome and every observation must agree.  Direct oracle (implementation only): at each block exit the block's own
setting must equal its value at entry, and the behaviour that the setting controls must match the setting.
"""

from __future__ import annotations

import warnings

from harness.common import Run, coq_list

CONE = ["Settings.v", "SettingsFacts.v", "SettingsFacts2.v"]
PROPS = "props/C16.v"
INIT = (0, 1, 2)
DISP = [(False, True), (True, True), (False, False), (True, False)]  # dispatcher value v = 1 + index
NVAL = {0: 5, 1: 3, 2: 4}
N_EXC = 7
N_OPS = 8


class _MyBase(BaseException):
    pass


# ------------------------------------------------------------------------------------------------ generation


def gen_prog(rng, depth, budget):
    r = rng.random()
    if depth > 0 and r < 0.45:
        k = rng.randrange(3)
        v = rng.randrange(1 if k == 0 else 0, NVAL[k])
        form = rng.choice(["with", "with", "deco", "predeco", "premgr", "shareddeco"])
        body = gen_list(rng, depth - 1, budget)
        if form == "shareddeco" and rng.random() < 0.6:
            # ONE decorator object, re-entered while it is active (a decorated function that calls a function decorated by the same object)
            body = [["Obs"], ["Block", k, v, body, "shareddeco"], ["Obs"]]
        return ["Block", k, v, body, form]
    if depth > 0 and r < 0.60:
        return ["Try", gen_list(rng, depth - 1, budget)]
    if r < 0.75:
        return ["Raise", rng.randrange(N_EXC)]
    if r < 0.80:
        k = rng.choice([1, 2])
        return ["SetG", k, rng.randrange(NVAL[k])]
    if r < 0.86:
        return ["Op", rng.randrange(N_OPS)]
    if r < 0.97:
        return ["Obs"]
    return ["Nop"]


def gen_list(rng, depth, budget):
    n = rng.choice([0, 1, 1, 2, 2, 3, 4])
    return [gen_prog(rng, depth, budget) for _ in range(n)]


def to_coq(p):
    t = p[0]
    if t == "Block":
        return f"Block {p[1]} {p[2]} {coq_list([to_coq(q) for q in p[3]])}"
    if t == "Try":
        return f"Try {coq_list([to_coq(q) for q in p[1]])}"
    if t == "Raise":
        return f"Raise {p[1]}"
    if t == "SetG":
        return f"SetG {p[1]} {p[2]}"
    if t == "Op":
        return "Nop"      # using an overloaded operator (successfully or not) is not a settings action
    return t


def scoped(p):
    t = p[0]
    if t == "Block":
        return all(scoped(q) for q in p[3])
    if t == "Try":
        return all(scoped(q) for q in p[1])
    return t != "SetG"


def size(l):
    n = 0
    for p in l:
        n += 1
        if p[0] == "Block":
            n += size(p[3])
        elif p[0] == "Try":
            n += size(p[1])
    return n


# ------------------------------------------------------------------------------------------------ implementation side


class Impl:
    def __init__(self):
        import numpy as np
        import spox._future as F
        import spox._node
        import spox._value_prop
        import spox.opset.ai.onnx.v17 as op
        from spox import Tensor, argument
        from spox._var import Var, NotImplementedOperatorDispatcher

        self.np, self.F, self.op, self.Var = np, F, op, Var
        self.node, self.vp = spox._node, spox._value_prop
        self.NotImpl = NotImplementedOperatorDispatcher
        self.x = argument(Tensor(np.float32, (2,)))
        self.y = argument(Tensor(np.float32, (2,)))
        self.i = argument(Tensor(np.int64, (2,)))
        self.k = argument(Tensor(np.int64, (None,)))
        self.j = argument(Tensor(np.int64, None))
        self.default_disp = Var._operator_dispatcher
        # what each evaluator computes for Exp on a fixed vector, obtained WITHOUT spox (a hand-made model run by onnx.reference and by
        # onnxruntime): the two round differently in the last bit, so a propagated value tells which backend produced it
        import onnx
        import onnx.reference
        import onnxruntime
        from onnx import TensorProto as TP, helper as oh
        self.xs = np.linspace(-3, 3, 41).astype(np.float32)
        m = oh.make_model(oh.make_graph([oh.make_node("Exp", ["x"], ["y"])], "g", [oh.make_tensor_value_info("x", TP.FLOAT, [41])],
                                        [oh.make_tensor_value_info("y", TP.FLOAT, [41])]), opset_imports=[oh.make_operatorsetid("", 17)], ir_version=8)
        so = onnxruntime.SessionOptions()
        so.log_severity_level = 3
        self.finger = {1: np.asarray(onnx.reference.ReferenceEvaluator(m).run(None, {"x": self.xs})[0]),
                       2: np.asarray(onnxruntime.InferenceSession(m.SerializeToString(), so).run(None, {"x": self.xs})[0])}
        self.finger_distinct = not np.array_equal(self.finger[1], self.finger[2])
        self.exp_model = m          # float32[41] -> float32[41]; inlining it with another argument type raises TypeError at the call
        self.nraise = 0
        from spox._function import to_function
        # a function whose body is ill-typed for an int64 argument: the call raises from inside the body's construction
        self.add_half = to_function("AddHalf", "verif.c16")(lambda a: [op.add(a, op.const(np.array(0.5, np.float32)))])
        self.add_half(self.x)            # the first call fixes the operator's signature; later calls go through Function.infer_output_types

    def reset(self):
        self.Var._operator_dispatcher = self.default_disp
        self.vp._VALUE_PROP_BACKEND = self.vp.ValuePropBackend(INIT[1])
        self.node._TYPE_WARNING_LEVEL = self.node.TypeWarningLevel(INIT[2])

    def state(self):
        d = self.Var._operator_dispatcher
        if isinstance(d, self.NotImpl):
            a = 0
        else:
            a = 1 + DISP.index((d.type_promotion, d.constant_promotion))
        return (a, self.vp._VALUE_PROP_BACKEND.value, int(self.node._TYPE_WARNING_LEVEL))

    def cm(self, k, v):
        F = self.F
        if k == 0:
            tp, cp = DISP[v - 1]
            return F.operator_overloading(self.op, type_promotion=tp, constant_promotion=cp)
        if k == 1:
            return F.value_prop_backend(F.ValuePropBackend(v))
        return F.type_warning_level(F.TypeWarningLevel(v))

    def do_raise(self, e):
        # the exception classes are fixed; WHERE they are raised varies: by the caller's own code, or from inside a library call that the
        # block makes (build / inline / a constructor) - whichever library routine fails, it must leave the three settings alone
        self.nraise += 1
        variant = self.nraise % 3
        import spox
        if e == 0:
            if variant == 0:
                raise KeyError("k")
            return spox.build({}, {"y": self.op.neg(self.x)})                   # an argument the output depends on is not listed
        if e == 1:
            if variant == 0:
                raise ValueError("v")
            return spox.build({"x": self.x}, {})                                  # no outputs
        if e == 2:
            return 1 // 0
        if e == 3:  # spox's own eager inference error
            if self.nraise % 4 == 2:                                              # ... raised while a to_function operator builds its BODY
                return self.add_half(self.i)
            return self.op.add(self.x, self.i) if variant else self.op.matmul(self.x, self.i)
        if e == 4:  # a TypeError raised at the call by spox itself
            if variant == 0:
                return self.op.add(self.x, "not a var")                           # non-Var input
            if variant == 1:
                return spox.inline(self.exp_model)(self.i)                        # argument of another type than the inlined model declares
            return spox.build({"x": 1}, {"y": self.x})                            # non-Var in the request
        if e == 5:
            raise StopIteration("s")
        raise _MyBase()

    def do_op(self, j):
        """An overloaded-operator expression; under some settings it is a TypeError raised from inside the dispatcher."""
        x, y, i = self.x, self.y, self.i
        return [lambda: i + 2.5, lambda: x + 2.0, lambda: x + i, lambda: x * y, lambda: -x, lambda: i // 2, lambda: 2.5 - i,
                lambda: 3 * x][j]()

    def classify(self, exc):
        from spox._exceptions import InferenceError

        if isinstance(exc, KeyError):
            return 0
        if isinstance(exc, InferenceError):
            return 3
        if isinstance(exc, ValueError):
            return 1
        if isinstance(exc, ZeroDivisionError):
            return 2
        if isinstance(exc, TypeError):
            return 4
        if isinstance(exc, StopIteration):
            return 5
        if isinstance(exc, _MyBase):
            return 6
        return 99

    def behaviour_ok(self, st):
        """The behaviour controlled by each setting must match the setting that is reported to be in force."""
        bad = []
        try:
            r = self.x + self.y
            worked = True
        except TypeError:
            worked = False
        if worked != (st[0] != 0):
            bad.append(f"x+y {'works' if worked else 'raises TypeError'} but dispatcher state is {st[0]}")
        c = self.op.add(self.op.const(1.0), self.op.const(2.0))
        if (c._value is not None) != (st[1] != 0):
            bad.append(f"value propagation {'on' if c._value is not None else 'off'} but backend state is {st[1]}")
        if st[1] in (1, 2) and self.finger_distinct:
            e = self.op.exp(self.op.const(self.xs))._value
            got = None if e is None else self.np.asarray(e.value)
            if got is None or not self.np.array_equal(got, self.finger[st[1]]):
                other = 3 - st[1]
                who = "the OTHER backend's result" if got is not None and self.np.array_equal(got, self.finger[other]) else "neither evaluator's result"
                bad.append(f"backend state is {st[1]} but the value propagated for Exp is {who}")
        for probe, shape, need in (("reshape to int64[?]", self.k, 2), ("reshape to rank-unknown int64", self.j, 3)):
            with warnings.catch_warnings(record=True) as w:
                warnings.simplefilter("always")
                self.op.reshape(self.x, shape)  # output of unknown rank; inputs concrete (k) / not concrete (j)
            warned = any("InferenceWarning" in type(m.message).__name__ for m in w)
            if warned != (st[2] >= need):
                bad.append(f"{probe}: incomplete-type warning {'emitted' if warned else 'absent'} but level is {st[2]}")
        return bad

    def run(self, prog, behaviour=False):
        """Returns (final state, outcome, log, restore_violations, behaviour_violations)."""
        self.reset()
        log, viol, bviol = [], [], []
        # managers / decorators created up front (at the initial settings) and entered later, possibly inside other blocks
        pre, shared = {}, {}

        def prepare(l):
            for p in l:
                if p[0] == "Block":
                    if p[4] in ("predeco", "premgr"):
                        pre[id(p)] = self.cm(p[1], p[2])
                    prepare(p[3])
                elif p[0] == "Try":
                    prepare(p[1])

        prepare(prog)

        def ex_list(l):
            for p in l:
                ex(p)

        def ex(p):
            t = p[0]
            if t == "Block":
                _, k, v, body, form = p
                prev = self.state()[k]
                try:
                    if form == "with":
                        with self.cm(k, v):
                            ex_list(body)
                    elif form == "shareddeco":
                        if (k, v) not in shared:
                            shared[(k, v)] = self.cm(k, v)

                        @shared[(k, v)]
                        def h():
                            ex_list(body)

                        h()
                    elif form == "premgr":
                        with pre[id(p)]:
                            ex_list(body)
                    elif form == "predeco":
                        @pre[id(p)]
                        def g():
                            ex_list(body)

                        g()
                    else:
                        @self.cm(k, v)
                        def f():
                            ex_list(body)

                        f()
                finally:
                    after = self.state()[k]
                    if after != prev:
                        viol.append({"setting": k, "entered_with": v, "before": prev, "after": after})
            elif t == "Try":
                try:
                    ex_list(p[1])
                except BaseException:
                    pass
            elif t == "Raise":
                self.do_raise(p[1])
                raise AssertionError("do_raise did not raise")
            elif t == "Op":
                before = self.state()
                try:
                    self.do_op(p[1])
                except TypeError:
                    pass
                if self.state() != before:
                    viol.append({"operator_expression": p[1], "before": before, "after": self.state()})
            elif t == "SetG":
                if p[1] == 1:
                    self.F.set_value_prop_backend(self.F.ValuePropBackend(p[2]))
                else:
                    self.F.set_type_warning_level(self.F.TypeWarningLevel(p[2]))
            elif t == "Obs":
                st = self.state()
                log.append(st)
                if behaviour:
                    bviol.extend(self.behaviour_ok(st))

        out = "Normal"
        try:
            with warnings.catch_warnings():
                warnings.simplefilter("ignore")
                ex_list(prog)
        except BaseException as exc:  # noqa: BLE001
            out = f"Raised {self.classify(exc)}"
        final = self.state()
        self.reset()
        return final, out, log, viol, bviol


def render(final, out, log):
    return "(%d,%d,%d,%s,[%s])" % (*final, out.replace(" ", ""), ";".join("(%d,%d,%d)" % t for t in log))


def shrink(prog, bad):
    """Greedy structural shrinking: drop statements / unwrap bodies while ``bad(prog)`` stays true."""
    changed = True
    while changed:
        changed = False
        for cand in _candidates(prog):
            if bad(cand):
                prog, changed = cand, True
                break
    return prog


def _candidates(l):
    for i, p in enumerate(l):
        yield l[:i] + l[i + 1:]
        if p[0] == "Block":
            yield l[:i] + p[3] + l[i + 1:]
            for c in _candidates(p[3]):
                yield l[:i] + [["Block", p[1], p[2], c, p[4]]] + l[i + 1:]
        elif p[0] == "Try":
            yield l[:i] + p[1] + l[i + 1:]
            for c in _candidates(p[1]):
                yield l[:i] + [["Try", c]] + l[i + 1:]


HEADER = "From Coq Require Import List Arith.\nFrom Spox Require Import Settings.\nImport ListNotations.\n"


def model_eval(run: Run, progs, name="c16"):
    exprs = [f"run_prog {INIT} {coq_list([to_coq(p) for p in prog])}" for prog in progs]
    res = run.coq_eval(name, HEADER, exprs, shard=400)
    return [r.replace(" ", "") for r in res]


def run(run: Run) -> int:
    run.check_theorems(PROPS, CONE, thorough_coqchk=(run.tier == "thorough"))
    n = 1500 if run.tier == "quick" else 30000
    impl = Impl()
    rng = run.rng
    progs = []
    # corpus first: minimal programs that exercised past failures
    progs.append([["Try", [["Block", 0, 1, [["Raise", 0]], "with"]]], ["Obs"]])
    progs.append([["Try", [["Block", 1, 0, [["Raise", 3]], "deco"]]], ["Obs"]])
    progs.append([["Try", [["Block", 2, 3, [["Obs"], ["Raise", 4]], "with"]]], ["Obs"]])
    while len(progs) < n:
        progs.append(gen_list(rng, rng.choice([1, 2, 3, 4, 5]), 0) + [["Obs"]])
    impl_res, n_restore_bad = [], 0
    hist = {"size": {}, "scoped": 0, "raising_blocks": 0, "outcome": {}, "forms": {"with": 0, "deco": 0}}
    distinct = set()
    for idx, prog in enumerate(progs):
        final, out, log, viol, bviol = impl.run(prog, behaviour=(idx % 10 == 0))
        impl_res.append(render(final, out, log))
        key = repr(prog)
        if size(prog) >= 3 and "Block" in key:
            distinct.add(key)
        b = min(size(prog) // 5 * 5, 40)
        hist["size"][b] = hist["size"].get(b, 0) + 1
        hist["scoped"] += all(scoped(p) for p in prog)
        hist["outcome"][out.split()[0]] = hist["outcome"].get(out.split()[0], 0) + 1
        hist["forms"]["with"] += key.count("'with'")
        hist["forms"]["deco"] += key.count("'deco'")
        hist["forms"]["pre-created"] = hist["forms"].get("pre-created", 0) + key.count("'predeco'") + key.count("'premgr'")
        hist["forms"]["shared decorator object"] = hist["forms"].get("shared decorator object", 0) + key.count("'shareddeco'")
        hist["forms"]["operator expressions"] = hist["forms"].get("operator expressions", 0) + key.count("'Op'")
        if viol:
            n_restore_bad += 1
            small = shrink(prog, lambda c: bool(impl.run(c)[3]))
            v = impl.run(small)[3][0]
            if "operator_expression" in v:
                changed = next(k for k in range(3) if v["before"][k] != v["after"][k])
                setting = ["operator_overloading", "value_prop_backend", "type_warning_level"][changed]
                run.fail("impl", f"C16/operator-expression-changes/{setting}",
                         f"evaluating an overloaded operator expression (do_op {v['operator_expression']}) changed the setting {setting}: "
                         f"{v['before']} -> {v['after']}", {"history": small, "violation": v, "original_index": idx})
                continue
            setting = ["operator_overloading", "value_prop_backend", "type_warning_level"][v["setting"]]
            run.fail("impl", f"C16/not-restored/{setting}",
                     f"{setting} block does not restore the previous setting on exit",
                     {"history": small, "violation": v, "original_index": idx,
                      "how_to_read": "Block k v body form; Raise e; Try body; SetG k v; Obs — see harness/c16.py Impl.run"})
        if bviol:
            run.fail("impl", "C16/behaviour-mismatch", "behaviour does not follow the setting in force",
                     {"history": prog, "mismatch": bviol[:3]})
    model_res = model_eval(run, progs)
    mism = [i for i, (a, b) in enumerate(zip(impl_res, model_res)) if a != b]
    for i in mism[:5]:
        small = shrink(progs[i], lambda c: render(*impl.run(c)[:3]) != model_eval(run, [c], "shrink")[0])
        run.fail("corr", f"C16/model-vs-impl/{to_coq(small[0]) if small else ''}"[:120],
                 "model and implementation disagree on a block history",
                 {"history": small, "impl": render(*impl.run(small)[:3]), "model": model_eval(run, [small], "shrink")[0]})
    cov = {
        "evaluations": len(progs),
        "backend_probe_distinguishes_evaluators": bool(impl.finger_distinct),
        "distinct_nontrivial": len(distinct),
        "rule": "random trees of with-blocks/decorated calls over the three settings (depth<=5), bodies raising 7 exception "
                "classes incl. spox's own eager InferenceError/TypeError, try/except, global setters, observation points; "
                "distinct by tree, non-trivial = at least one block and >= 3 statements",
        "traces_validated_against_impl": len(progs) - len(mism),
        "disagreements_checked": len(mism),
        "restore_violations_on_impl": n_restore_bad,
        "input_distribution": hist,
        "samples": [{"history": progs[i], "impl": impl_res[i], "model": model_res[i]} for i in (0, 3, 4, 5) if i < len(progs)],
    }
    return run.finish(cov, [
        "the harness interpreter of block histories (Impl.run) executes the same tree the model term denotes",
        "with-statement and decorator forms of a @contextmanager-built manager are the same block (decorator re-creates the manager per call)",
    ])


def replay(run: Run, case) -> int:
    impl = Impl()
    h = case["detail"]["history"]
    final, out, log, viol, bviol = impl.run(h, behaviour=True)
    m = model_eval(run, [h], "replay")[0]
    print("history:", h)
    print("impl :", render(final, out, log), "restore violations:", viol, "behaviour:", bviol)
    print("model:", m)
    bad = bool(viol or bviol or render(final, out, log) != m)
    if bad:
        print(f"VIOLATION property=C16 replay={run.pid}")
    return 1 if bad else 0
