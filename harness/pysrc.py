"""Fail-closed translator: a few small, pure decision functions of spox's SOURCE TEXT -> Gallina definitions (C13's second tie).

What is translated (from $VERIF_REPO/src/spox/_shape.py and _type_system.py, parsed with `ast`, never imported):
  _broadcast_elem                                   -> src_broadcast_elem : sdim -> sdim -> option sdim      (raise ShapeError = None)
  Unknown.__le__ / Constant.__le__ (dispatch on x)  -> src_natural_le     : dim -> dim -> bool
  Shape.__le__                                      -> src_shape_le       : shape -> shape -> bool
  Type/Tensor/Sequence/Optional._subtype            -> src_subtype        : ty -> ty -> bool  (one Fixpoint, dispatch on the class of self)
The generated file is compiled together with coq/gen/SrcFacts.v, whose theorems state that the generated functions ARE the hand-written
model's (Shape.bce / dim_le / shape_le, Types.subtype), for all arguments.

The accepted Python subset is tiny and checked construct by construct; anything else raises Unsupported (the caller then records that
this tie is not available for the current source text - the exhaustive correspondence of C13 remains the deciding tie).
Typing: every variable has a SORT given by the per-function spec below; the sort decides how ==, <=, isinstance and attribute access
are rendered.  The `if not isinstance(other, <Class>): return NotImplemented` guards are dropped (they hold by sorting) - only in exactly
that shape."""

from __future__ import annotations

import ast
import hashlib


class Unsupported(Exception):
    pass


def _fail(node, why):
    raise Unsupported(f"line {getattr(node, 'lineno', '?')}: {why}: {ast.dump(node)[:160]}")


# sort -> (equality function, constructor tests for isinstance)
EQ = {"sdim": "sdim_eqb", "dim": "dim_eqb", "ty": "ty_eqb", "shape": "shape_eqb", "nat": "Nat.eqb", "elem": "N.eqb"}
ISINSTANCE = {
    ("sdim", "int"): "is_sint", ("sdim", "str"): "is_sstr",
    ("dim", "Unknown"): "is_unknown", ("dim", "Constant"): "is_constant",
    ("ty", "Tensor"): "is_tensor", ("ty", "Sequence"): "is_seq", ("ty", "Optional"): "is_opt",
}
# (sort of the object, attribute) -> (Gallina accessor, sort of the result)
ATTR = {
    ("shape", "dims"): ("{0}", "dims?"),                 # Optional[Tuple[Natural, ...]]: only `is None`, zip(...) and .rank use it
    ("shape", "rank"): ("(shape_rank {0})", "nat"),
    ("ty", "_elem_type"): ("(ty_elem {0})", "elem"),
    ("ty", "_shape"): ("(ty_shape {0})", "shape"),
    ("ty", "elem_type"): ("(ty_inner {0})", "ty"),
}
LE = {"dim": "src_natural_le", "shape": "src_shape_le"}


class Fn:
    """Translation of one function body under a sort environment."""

    def __init__(self, env, result, guards, self_fields=None):
        self.env, self.result, self.guards = dict(env), result, guards   # result: 'bool' | 'option sdim'
        self.self_fields = self_fields or {}      # attribute of self bound by the class dispatch pattern: name -> (term, sort)
        self.dropped = []

    # ---- expressions: returns (gallina, sort)
    def expr(self, e, want=None):
        if isinstance(e, ast.Name):
            if e.id in self.env:
                return e.id if e.id != "self" else "self", self.env[e.id]
            _fail(e, "unknown name")
        if isinstance(e, ast.Constant):
            v = e.value
            if v is True or v is False:
                return ("true" if v else "false"), "bool"
            if v is None and want == "sdim":
                return "SNone", "sdim"
            if isinstance(v, int) and want == "sdim":
                return f"(SInt {v})", "sdim"
            _fail(e, f"constant in a context of sort {want}")
        if isinstance(e, ast.Attribute):
            if isinstance(e.value, ast.Name) and e.value.id == "self" and e.attr in self.self_fields:
                return self.self_fields[e.attr]
            o, so = self.expr(e.value)
            if (so, e.attr) not in ATTR:
                _fail(e, f"attribute of sort {so}")
            acc, sr = ATTR[(so, e.attr)]
            return acc.format(o), sr
        if isinstance(e, ast.UnaryOp) and isinstance(e.op, ast.Not):
            a, sa = self.expr(e.operand)
            if sa != "bool":
                _fail(e, "not of a non-boolean")
            return f"(negb {a})", "bool"
        if isinstance(e, ast.BoolOp):
            parts = [self.expr(v) for v in e.values]
            if any(s != "bool" for _, s in parts):
                _fail(e, "and/or of non-booleans (Python returns an operand, not a bool)")
            op = " && " if isinstance(e.op, ast.And) else " || "
            return "(" + op.join(p for p, _ in parts) + ")", "bool"
        if isinstance(e, ast.Compare):
            if len(e.ops) != 1:
                _fail(e, "chained comparison")
            op, l, r = e.ops[0], e.left, e.comparators[0]
            if isinstance(op, (ast.Is, ast.IsNot)):
                if not (isinstance(r, ast.Constant) and r.value is None):
                    _fail(e, "is / is not with something else than None")
                a, sa = self.expr(l)
                if sa != "dims?":
                    _fail(e, f"`is None` on sort {sa}")
                t = f"(is_none {a})"
                return (t if isinstance(op, ast.Is) else f"(negb {t})"), "bool"
            if isinstance(op, (ast.Eq, ast.NotEq)):
                a, sa = self.expr(l)
                if isinstance(r, ast.Call) and isinstance(r.func, ast.Name) and not r.args and not r.keywords:
                    # other == Type()  /  other == Unknown()
                    cons = {("ty", "Type"): "TTop", ("dim", "Unknown"): "DA"}.get((sa, r.func.id))
                    if cons is None:
                        _fail(e, "comparison with a constructor call")
                    b, sb = cons, sa
                else:
                    b, sb = self.expr(r, want=sa)
                if sa != sb or sa not in EQ:
                    _fail(e, f"== between sorts {sa} and {sb}")
                t = f"({EQ[sa]} {a} {b})"
                return (t if isinstance(op, ast.Eq) else f"(negb {t})"), "bool"
            if isinstance(op, ast.LtE):
                a, sa = self.expr(l)
                b, sb = self.expr(r)
                if sa != sb or sa not in LE:
                    _fail(e, f"<= between sorts {sa} and {sb}")
                return f"({LE[sa]} {a} {b})", "bool"
            _fail(e, "comparison operator")
        if isinstance(e, ast.Call) and isinstance(e.func, ast.Name) and not e.keywords:
            f = e.func.id
            if f == "isinstance" and len(e.args) == 2 and isinstance(e.args[1], ast.Name):
                a, sa = self.expr(e.args[0])
                key = (sa, e.args[1].id)
                if key not in ISINSTANCE:
                    _fail(e, f"isinstance on sort {sa}")
                return f"({ISINSTANCE[key]} {a})", "bool"
            if f == "issubclass" and len(e.args) == 2:
                a, sa = self.expr(e.args[0])
                b, sb = self.expr(e.args[1])
                if sa != "elem" or sb != "elem":
                    _fail(e, "issubclass of non element types")
                return f"(N.eqb {a} {b})", "bool"          # canonical numpy scalar types: subclass = same type (SrcPrims note)
            if f == "all" and len(e.args) == 1 and isinstance(e.args[0], ast.GeneratorExp):
                g = e.args[0]
                if len(g.generators) != 1 or g.generators[0].ifs or g.generators[0].is_async:
                    _fail(e, "generator shape")
                c = g.generators[0]
                if not (isinstance(c.target, ast.Tuple) and len(c.target.elts) == 2 and all(isinstance(t, ast.Name) for t in c.target.elts)
                        and isinstance(c.iter, ast.Call) and isinstance(c.iter.func, ast.Name) and c.iter.func.id == "zip" and len(c.iter.args) == 2):
                    _fail(e, "all(... for x, y in zip(a, b)) expected")
                xs, sx = self.expr(c.iter.args[0])
                ys, sy = self.expr(c.iter.args[1])
                if sx != "dims?" or sy != "dims?":
                    _fail(e, "zip over non-dims")
                x, y = c.target.elts[0].id, c.target.elts[1].id
                inner = Fn({**self.env, x: "dim", y: "dim"}, "bool", [], self.self_fields)
                body, sb = inner.expr(g.elt)
                if sb != "bool":
                    _fail(e, "all over non-booleans")
                return f"(all2 (fun {x} {y} => {body}) (dims_of {xs}) (dims_of {ys}))", "bool"
        if isinstance(e, ast.Call) and isinstance(e.func, ast.Attribute) and e.func.attr == "_subtype" and len(e.args) == 1 and not e.keywords:
            a, sa = self.expr(e.func.value)
            b, sb = self.expr(e.args[0])
            if sa != "ty" or sb != "ty":
                _fail(e, "_subtype on non-types")
            return f"(src_subtype {a} {b})", "bool"
        _fail(e, "expression form")

    # ---- statements with continuation
    def block(self, stmts):
        if not stmts:
            raise Unsupported("control reaches the end of the function (implicit return None)")
        s, rest = stmts[0], stmts[1:]
        if isinstance(s, ast.Expr) and isinstance(s.value, ast.Constant) and isinstance(s.value.value, str):
            return self.block(rest)                                    # docstring
        if isinstance(s, ast.Return):
            if s.value is None:
                _fail(s, "bare return")
            if self.result == "bool":
                t, so = self.expr(s.value)
                if so != "bool":
                    _fail(s, f"returns sort {so}, bool expected")
                return t
            t, so = self.expr(s.value, want="sdim")
            if so != "sdim":
                _fail(s, f"returns sort {so}, sdim expected")
            return f"Some {t}"
        if isinstance(s, ast.Raise):
            if self.result == "bool":
                _fail(s, "raise in a boolean function")
            exc = s.exc
            if not (isinstance(exc, ast.Call) and isinstance(exc.func, ast.Name) and exc.func.id == "ShapeError"):
                _fail(s, "raises something else than ShapeError(...)")
            return "None"
        if isinstance(s, ast.If):
            # guard idiom: if not isinstance(<param>, <Class>): return NotImplemented
            t = s.test
            if (isinstance(t, ast.UnaryOp) and isinstance(t.op, ast.Not) and isinstance(t.operand, ast.Call)
                    and isinstance(t.operand.func, ast.Name) and t.operand.func.id == "isinstance" and len(t.operand.args) == 2
                    and isinstance(t.operand.args[0], ast.Name) and isinstance(t.operand.args[1], ast.Name)
                    and (t.operand.args[0].id, t.operand.args[1].id) in self.guards
                    and len(s.body) == 1 and isinstance(s.body[0], ast.Return) and isinstance(s.body[0].value, ast.Name)
                    and s.body[0].value.id == "NotImplemented"):
                self.dropped.append(f"{t.operand.args[0].id}:{t.operand.args[1].id}")
                return self.block(list(s.orelse) + rest)
            c, sc = self.expr(t)
            if sc != "bool":
                _fail(s, f"condition of sort {sc} (truthiness is not translated)")
            return f"(if {c} then {self.block(list(s.body) + rest)} else {self.block(list(s.orelse) + rest)})"
        _fail(s, "statement form")


def _find(tree, cls, name):
    body = tree.body
    if cls is not None:
        cs = [n for n in body if isinstance(n, ast.ClassDef) and n.name == cls]
        if len(cs) != 1:
            raise Unsupported(f"class {cls}: {len(cs)} definitions")
        body = cs[0].body
    fs = [n for n in body if isinstance(n, ast.FunctionDef) and n.name == name]
    if len(fs) != 1:
        raise Unsupported(f"{cls or ''}.{name}: {len(fs)} definitions")
    f = fs[0]
    if f.decorator_list:
        raise Unsupported(f"{name}: decorated")
    a = f.args
    if a.vararg or a.kwarg or a.kwonlyargs or a.defaults or a.posonlyargs:
        raise Unsupported(f"{name}: argument list form")
    return f, [x.arg for x in a.args]


def translate(shape_src: str, types_src: str) -> tuple[str, dict]:
    """Returns (Gallina text, info)."""
    st, tt = ast.parse(shape_src), ast.parse(types_src)
    info = {"dropped_guards": {}, "sha256": {"_shape.py": hashlib.sha256(shape_src.encode()).hexdigest(),
                                             "_type_system.py": hashlib.sha256(types_src.encode()).hexdigest()}}
    out = ["(* GENERATED by harness/pysrc.py from the SOURCE TEXT of src/spox/_shape.py and src/spox/_type_system.py - do not edit *)",
           "From Coq Require Import List String ZArith NArith Bool.",
           "From Spox Require Import Shape Types SrcPrims.", "Import ListNotations.", ""]

    f, params = _find(st, None, "_broadcast_elem")
    if params != ["x", "y"]:
        raise Unsupported("_broadcast_elem parameters")
    fn = Fn({"x": "sdim", "y": "sdim"}, "option sdim", [])
    out += ["Definition src_broadcast_elem (x y : sdim) : option sdim :=", "  " + fn.block(list(f.body)) + ".", ""]

    le = {}
    for cls in ("Unknown", "Constant"):
        f, params = _find(st, cls, "__le__")
        if params != ["self", "other"]:
            raise Unsupported(f"{cls}.__le__ parameters")
        fn = Fn({"self": "dim", "other": "dim"}, "bool", [("other", "Natural")])
        le[cls] = fn.block(list(f.body))
        info["dropped_guards"][f"{cls}.__le__"] = fn.dropped
    out += ["(* x <= y on Natural: the method of the class of x *)",
            "Definition src_natural_le (self other : dim) : bool :=",
            f"  match self with DC _ => {le['Constant']} | _ => {le['Unknown']} end.", ""]

    f, params = _find(st, "Shape", "__le__")
    if params != ["self", "other"]:
        raise Unsupported("Shape.__le__ parameters")
    fn = Fn({"self": "shape", "other": "shape"}, "bool", [("other", "Shape")])
    out += ["Definition src_shape_le (self other : shape) : bool :=", "  " + fn.block(list(f.body)) + ".", ""]
    info["dropped_guards"]["Shape.__le__"] = fn.dropped

    bodies = {}
    for cls, fields in (("Type", {}), ("Tensor", {}), ("Sequence", {"elem_type": ("self_elem", "ty")}), ("Optional", {"elem_type": ("self_elem", "ty")})):
        f, params = _find(tt, cls, "_subtype")
        if params != ["self", "other"]:
            raise Unsupported(f"{cls}._subtype parameters")
        fn = Fn({"self": "ty", "other": "ty"}, "bool", [("other", "Type")], fields)
        bodies[cls] = fn.block(list(f.body))
        info["dropped_guards"][f"{cls}._subtype"] = fn.dropped
    out += ["(* self._subtype(other): the method of the class of self; self.elem_type is the pattern variable (structural recursion) *)",
            "Fixpoint src_subtype (self other : ty) {struct self} : bool :=",
            "  match self with",
            f"  | TTop => {bodies['Type']}",
            f"  | TTensor _ _ => {bodies['Tensor']}",
            f"  | TSeq self_elem => {bodies['Sequence']}",
            f"  | TOpt self_elem => {bodies['Optional']}",
            "  end.", ""]
    return "\n".join(out), info


# ================================================================================================ ScopeTree.parent / ScopeTree.lca (C04)
def _stmts(f):
    return [s for s in f.body if not (isinstance(s, ast.Expr) and isinstance(s.value, ast.Constant) and isinstance(s.value.value, str))]


def translate_scope_tree(build_src: str) -> tuple[str, dict]:
    """src/spox/_build.py: Builder.ScopeTree.parent and .lca -> Gallina.  `parent` must have exactly the shape
    `return self.scope_of[self.subgraph_owner[g]] if g in self.subgraph_owner else g`; `lca` is translated statement by statement:
    tuple assignments, `s.add(x)`, `x = self.parent(x)`, one `while <x> not in <s>:` loop followed by `return <x>` become a fuelled
    recursive function over the loop's variables (fuel exhausted = the return expression, as in Build.lca)."""
    tree = ast.parse(build_src)
    b = [n for n in tree.body if isinstance(n, ast.ClassDef) and n.name == "Builder"]
    if len(b) != 1:
        raise Unsupported("class Builder")
    st = [n for n in b[0].body if isinstance(n, ast.ClassDef) and n.name == "ScopeTree"]
    if len(st) != 1:
        raise Unsupported("class Builder.ScopeTree")
    fs = {n.name: n for n in st[0].body if isinstance(n, ast.FunctionDef)}
    if set(fs) != {"__init__", "parent", "lca"}:
        raise Unsupported(f"ScopeTree methods {sorted(fs)}")
    for f in fs.values():
        if f.decorator_list:
            raise Unsupported("decorated ScopeTree method")
    # ---- parent
    f = fs["parent"]
    if [a.arg for a in f.args.args] != ["self", "graph"]:
        raise Unsupported("parent parameters")
    body = _stmts(f)
    ok = (len(body) == 1 and isinstance(body[0], ast.Return) and isinstance(body[0].value, ast.IfExp))
    if ok:
        e = body[0].value

        def attr(x, name):
            return isinstance(x, ast.Attribute) and isinstance(x.value, ast.Name) and x.value.id == "self" and x.attr == name

        ok = (isinstance(e.test, ast.Compare) and len(e.test.ops) == 1 and isinstance(e.test.ops[0], ast.In)
              and isinstance(e.test.left, ast.Name) and e.test.left.id == "graph" and attr(e.test.comparators[0], "subgraph_owner")
              and isinstance(e.orelse, ast.Name) and e.orelse.id == "graph"
              and isinstance(e.body, ast.Subscript) and attr(e.body.value, "scope_of")
              and isinstance(e.body.slice, ast.Subscript) and attr(e.body.slice.value, "subgraph_owner")
              and isinstance(e.body.slice.slice, ast.Name) and e.body.slice.slice.id == "graph")
    if not ok:
        raise Unsupported("ScopeTree.parent is not `return self.scope_of[self.subgraph_owner[graph]] if graph in self.subgraph_owner else graph`")
    out = ["(* GENERATED by harness/pysrc.py from the SOURCE TEXT of src/spox/_build.py (Builder.ScopeTree) - do not edit *)",
           "From Coq Require Import List Arith Bool.", "From Spox Require Import Base IR Build.", "Import ListNotations.", "",
           "(* self.scope_of[self.subgraph_owner[graph]] if graph in self.subgraph_owner else graph   (a missing scope_of entry, a KeyError in",
           "   Python, reads as the graph itself - as in Build.parent) *)",
           "Definition src_parent (own : list (nat * nref)) (sc : list (nref * nat)) (graph : nat) : nat :=",
           "  match lookup Nat.eqb graph own with",
           "  | Some o => match lookup nref_eqb o sc with Some s => s | None => graph end",
           "  | None => graph end.", ""]
    # ---- lca
    f = fs["lca"]
    params = [a.arg for a in f.args.args]
    if params != ["self", "a", "b"]:
        raise Unsupported("lca parameters")
    body = _stmts(f)
    sort = {"a": "nat", "b": "nat"}      # variable -> sort ('nat' | 'set')
    pre = []

    def expr(e):
        if isinstance(e, ast.Name) and e.id in sort:
            return e.id, sort[e.id]
        if isinstance(e, ast.Set) and len(e.elts) == 1:
            x, sx = expr(e.elts[0])
            if sx != "nat":
                _fail(e, "set of non-graphs")
            return f"[{x}]", "set"
        if (isinstance(e, ast.Call) and isinstance(e.func, ast.Attribute) and isinstance(e.func.value, ast.Name) and e.func.value.id == "self"
                and e.func.attr == "parent" and len(e.args) == 1 and not e.keywords):
            x, sx = expr(e.args[0])
            if sx != "nat":
                _fail(e, "parent of a non-graph")
            return f"(src_parent own sc {x})", "nat"
        _fail(e, "expression in lca")

    def assign(s):
        """-> list of (pattern, term) lets"""
        if isinstance(s, ast.Assign) and len(s.targets) == 1:
            t, v = s.targets[0], s.value
            if isinstance(t, ast.Name):
                x, sx = expr(v)
                sort[t.id] = sx if t.id not in sort else sort[t.id]
                if sort[t.id] != sx:
                    _fail(s, "assignment changes the sort of a variable")
                return [(t.id, x)]
            if isinstance(t, ast.Tuple) and isinstance(v, ast.Tuple) and len(t.elts) == len(v.elts) == 2 and all(isinstance(x, ast.Name) for x in t.elts):
                vals = [expr(x) for x in v.elts]
                for tn, (_, sx) in zip(t.elts, vals):
                    if sort.setdefault(tn.id, sx) != sx:
                        _fail(s, "assignment changes the sort of a variable")
                return [(f"'({t.elts[0].id}, {t.elts[1].id})", f"({vals[0][0]}, {vals[1][0]})")]
        if (isinstance(s, ast.Expr) and isinstance(s.value, ast.Call) and isinstance(s.value.func, ast.Attribute) and s.value.func.attr == "add"
                and isinstance(s.value.func.value, ast.Name) and sort.get(s.value.func.value.id) == "set" and len(s.value.args) == 1):
            x, sx = expr(s.value.args[0])
            if sx != "nat":
                _fail(s, "adding a non-graph")
            v = s.value.func.value.id
            return [(v, f"({x} :: {v})")]
        _fail(s, "statement in lca")

    i = 0
    while i < len(body) and not isinstance(body[i], ast.While):
        pre += assign(body[i])
        i += 1
    if not (i + 2 == len(body) and isinstance(body[i], ast.While) and isinstance(body[i + 1], ast.Return) and not body[i].orelse):
        raise Unsupported("lca: expected <assignments>; while ...: ...; return <variable>")
    w, r = body[i], body[i + 1]
    c = w.test
    if not (isinstance(c, ast.Compare) and len(c.ops) == 1 and isinstance(c.ops[0], ast.NotIn)):
        raise Unsupported("lca: loop condition is not `<x> not in <set>`")
    cx, csx = expr(c.left)
    cs, css = expr(c.comparators[0])
    if csx != "nat" or css != "set":
        raise Unsupported("lca: loop condition sorts")
    loop_lets = []
    for s in w.body:
        loop_lets += assign(s)
    ret, rs = expr(r.value)
    if rs != "nat":
        raise Unsupported("lca returns a non-graph")
    vars_ = sorted(sort)                 # a b vis_a vis_b
    sig = " ".join(f"({v} : {'nat' if sort[v] == 'nat' else 'list nat'})" for v in vars_)
    lets = " ".join(f"let {p} := {t} in" for p, t in loop_lets)
    out += ["(* the while loop of ScopeTree.lca as a fuelled recursion over its variables; fuel exhausted = the value returned after the loop *)",
            f"Fixpoint src_lca_loop (fuel : nat) (own : list (nat * nref)) (sc : list (nref * nat)) {sig} {{struct fuel}} : nat :=",
            f"  match fuel with O => {ret} | S fuel' =>",
            f"    if negb (Base.mem Nat.eqb {cx} {cs}) then {lets} src_lca_loop fuel' own sc {' '.join(vars_)} else {ret} end.",
            "Definition src_lca (fuel : nat) (own : list (nat * nref)) (sc : list (nref * nat)) (a b : nat) : nat :=",
            "  " + " ".join(f"let {p} := {t} in" for p, t in pre) + f" src_lca_loop fuel own sc {' '.join(vars_)}.", ""]
    return "\n".join(out), {"sha256": {"_build.py": hashlib.sha256(build_src.encode()).hexdigest()}, "loop_variables": vars_}


# ================================================================================================ running a tie inside a check
def check_tie(run, key, what, translate, gen_name, facts_name, n_theorems):
    """Translate, write <scratch>/<gen_name>, compile it and coq/gen/<facts_name> against it.  Returns the evidence record.
    Outside the subset: recorded, no alarm by itself.  Translated but the equivalence theorems do not re-check: a broken proof
    obligation (reported unless a concrete failing input is reported instead)."""
    import shutil
    import time
    from harness.common import COQ, sh

    t0 = time.time()
    rec = {"what": what}
    try:
        text, info = translate()
    except Unsupported as e:
        rec.update(translated=False, reason=str(e)[:400])
        run.notes.append(f"source tie (translator, {what}): the current source text is outside the translated subset: " + str(e)[:200])
        return rec
    except Exception as e:  # noqa: BLE001
        rec.update(translated=False, reason=f"{type(e).__name__}: {e}"[:400])
        run.notes.append(f"source tie (translator, {what}): could not read / parse the source: " + rec["reason"][:200])
        return rec
    sc = run.scratch() / "srcgen"
    sc.mkdir(parents=True, exist_ok=True)
    (sc / gen_name).write_text(text)
    shutil.copy(COQ / "gen" / facts_name, sc / facts_name)
    rc1, out1 = sh(f"timeout 300 coqc -R {COQ} Spox -R {sc} Gen {sc}/{gen_name}", timeout=320)
    rc2, out2 = (1, "") if rc1 != 0 else sh(f"timeout 300 coqc -R {COQ} Spox -R {sc} Gen {sc}/{facts_name}", timeout=320)
    closed = out2.count("Closed under the global context")
    ok = rc1 == 0 and rc2 == 0 and closed == n_theorems
    rec.update(translated=True, generated_lines=text.count("\n"), generated_definitions_compile=rc1 == 0, equivalence_theorems=n_theorems,
               equivalence_theorems_checked=closed if rc2 == 0 else 0, axioms="none" if ok else "n/a", wall_s=round(time.time() - t0, 1), **info)
    if ok and getattr(run, "tier", "quick") == "thorough":
        # independent re-check of the generated definitions + equivalence theorems (and everything they depend on) by coqchk
        lib = "Gen." + facts_name[:-2]
        rc3, out3 = sh(f"timeout 1500 coqchk -silent -o -R {COQ} Spox -R {sc} Gen {lib}", cwd=str(sc), timeout=1530)
        rec["coqchk"] = {"rc": rc3, "library": lib, "tail": out3[-600:]}
        if rc3 != 0:
            run.fail("proof", key + "/coqchk", f"coqchk rejected the compiled equivalence theorems of {what}", out3[-1500:])
    if not ok:
        rec["coqc_output"] = (out1 + out2)[-1200:]
        run.fail("proof", key, f"the Gallina functions generated from the current source text of {what} are no longer proved equal to the model's "
                 f"(coq/gen/{facts_name} does not re-check)", {"coqc_output": rec["coqc_output"], "generated": text})
    return rec
