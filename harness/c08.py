"""C08 — inline(m) denotes exactly the function of m, for any valid m.

Model: coq/Inline.v (argument binding, type check at the boundary) + coq/Build.v (renaming of the inlined graph:
inputs/outputs ↦ outer names, everything else prefixed/enumerated/reserved, recursion into subgraphs, pass-through outputs)
+ Validate.inline_blocks_alpha; theorems: coq/props/C08.v.  Correspondence: (i) the binding of random calling forms
(which argument lands in which input, or TypeError) vs bind_args; (ii) exact rendering of models built around inlined
models (spox-built and hand-built corner shapes; repeated, chained, inside bodies).  Direct oracle: onnxruntime on m vs
onnxruntime on the model built around inline(m) on random inputs; bytes of m before/after; declared output types."""

from __future__ import annotations

import collections
import warnings
import json

import numpy as np
import onnx
from onnx import TensorProto as TP
from onnx import helper as oh
from onnx import numpy_helper

from harness import buildlib as B
from harness.common import Run, coq_list, coq_str

CONE = ["Base.v", "IR.v", "Show.v", "Build.v", "Sem.v", "Plan.v", "Named.v", "Validate.v", "BuildFacts.v", "Inline.v", "InlineFacts.v", "CompilePres.v", "ScopeFacts.v", "InlineDefs.v", "InlineInj.v", "InlineSeq.v"]
PROPS = "props/C08.v"
F32 = np.float32
op = B.op17


# ------------------------------------------------------------------------------------------------ hand-built corner models


def vi(name, shape=(2,), t=TP.FLOAT):
    return oh.make_tensor_value_info(name, t, list(shape))


def corner_models():
    """(tag, ModelProto, runnable) – valid ONNX models exercising the corner shapes named by the property."""
    out = []
    c1 = numpy_helper.from_array(np.array([1, 2], F32), "w")

    def mk(nodes, ins, outs, inits=(), opset=17, sparse=(), extra_imports=()):
        g = oh.make_graph(nodes, "g", ins, outs, list(inits))
        for s in sparse:
            g.sparse_initializer.append(s)
        m = oh.make_model(g, opset_imports=[oh.make_operatorsetid("", opset)] + list(extra_imports), ir_version=8)
        return m

    out.append(("initializer", mk([oh.make_node("Add", ["x", "w"], ["y"])], [vi("x")], [vi("y")], [c1]), True))
    out.append(("default-input", mk([oh.make_node("Add", ["x", "w"], ["y"])], [vi("x"), vi("w")], [vi("y")], [c1]), True))
    out.append(("unused-input", mk([oh.make_node("Relu", ["x"], ["y"])], [vi("x"), vi("u")], [vi("y")]), True))
    out.append(("passthrough-output", mk([oh.make_node("Relu", ["x"], ["y"])], [vi("x")], [vi("y"), vi("x")]), True))
    out.append(("output-is-initializer", mk([oh.make_node("Relu", ["x"], ["y"])], [vi("x")], [vi("y"), vi("w")], [c1]), True))
    out.append(("generated-looking-names", mk([oh.make_node("Relu", ["Relu_0_Y"], ["Inline_0__x"], name="Inline_0__Relu_0"),
                                               oh.make_node("Neg", ["Inline_0__x"], ["Introduce_0_outputs_0"], name="Neg_0")],
                                              [vi("Relu_0_Y")], [vi("Introduce_0_outputs_0")]), True))
    out.append(("empty-optional-input", mk([oh.make_node("Clip", ["x", "", "hi"], ["y"]), oh.make_node("ReduceMax", ["x"], ["hi"], keepdims=0)][::-1],
                                           [vi("x")], [vi("y")]), True))
    then_g = oh.make_graph([oh.make_node("Add", ["x", "t"], ["tb"])], "then", [], [vi("tb")])
    else_g = oh.make_graph([oh.make_node("Mul", ["x", "t"], ["eb"])], "else", [], [vi("eb")])
    out.append(("subgraph-captures-outer", mk([oh.make_node("Relu", ["x"], ["t"]), oh.make_node("If", ["c"], ["y"], then_branch=then_g, else_branch=else_g)],
                                              [vi("x"), vi("c", (), TP.BOOL)], [vi("y")]), True))
    wi = numpy_helper.from_array(np.array([3, 4], F32), "W")
    wj = numpy_helper.from_array(np.array([5, 6], F32), "W2")
    then_i = oh.make_graph([oh.make_node("Add", ["x", "W"], ["tb"])], "then", [], [vi("tb")], [wi])
    else_i = oh.make_graph([oh.make_node("Mul", ["x", "W2"], ["eb"])], "else", [], [vi("eb")], [wj])
    out.append(("subgraph-owns-initializer", mk([oh.make_node("If", ["c"], ["y"], then_branch=then_i, else_branch=else_i)],
                                                [vi("x"), vi("c", (), TP.BOOL)], [vi("y")]), True))
    out.append(("symbolic-dims", mk([oh.make_node("Relu", ["x"], ["y"])], [oh.make_tensor_value_info("x", TP.FLOAT, ["N"])],
                                    [oh.make_tensor_value_info("y", TP.FLOAT, ["N"])]), True))
    out.append(("custom-domain", mk([oh.make_node("Foo", ["x"], ["y"], domain="my.dom")], [vi("x")], [vi("y")],
                                    extra_imports=[oh.make_operatorsetid("my.dom", 2)]), False))
    # inner names that collide once prefixed and enumerated: a node T, a value T (becomes ..__T_0) and a value T_0
    out.append(("node-and-value-names-collide-when-enumerated",
                mk([oh.make_node("Relu", ["x"], ["T"], name="T"), oh.make_node("Neg", ["T"], ["T_0"]), oh.make_node("Abs", ["T_0"], ["y"])],
                   [vi("x")], [vi("y")]), True))
    # a domain that only nodes INSIDE a control-flow body of m use: its import is as much part of m as any other
    then_c = oh.make_graph([oh.make_node("Foo", ["x"], ["tb"], domain="my.dom")], "then", [], [vi("tb")])
    else_c = oh.make_graph([oh.make_node("Identity", ["x"], ["eb"])], "else", [], [vi("eb")])
    out.append(("custom-domain-in-branch", mk([oh.make_node("If", ["c"], ["y"], then_branch=then_c, else_branch=else_c)],
                                              [vi("x"), vi("c", (), TP.BOOL)], [vi("y")],
                                              extra_imports=[oh.make_operatorsetid("my.dom", 3)]), False))
    sp_vals = numpy_helper.from_array(np.array([5.0], F32), "sw")
    sp_idx = numpy_helper.from_array(np.array([1], np.int64), "sw_idx")
    sparse = onnx.helper.make_sparse_tensor(sp_vals, sp_idx, [2])
    out.append(("sparse-initializer", mk([oh.make_node("Add", ["x", "sw"], ["y"])], [vi("x")], [vi("y")], sparse=[sparse]), True))
    # older opsets: Softmax semantics changed at 13 (axis default and coercion to 2D), Squeeze axes attribute until 12
    out.append(("opset11-softmax", mk([oh.make_node("Softmax", ["x"], ["y"])], [vi("x", (2, 2, 2))], [vi("y", (2, 2, 2))], opset=11), True))
    out.append(("opset11-squeeze", mk([oh.make_node("Squeeze", ["x"], ["y"], axes=[0])], [vi("x", (1, 2))], [vi("y", (2,))], opset=11), True))
    # an older default opset next to a node of another domain (the shape sklearn converters produce): the default-domain part must
    # still be converted to the surrounding model's opset
    out.append(("opset11-softmax-with-ml-node",
                mk([oh.make_node("Softmax", ["x"], ["s"], axis=1),
                    oh.make_node("Scaler", ["s"], ["y"], domain="ai.onnx.ml", scale=[2.0], offset=[0.5])],
                   [vi("x", (2, 2, 2))], [vi("y", (2, 2, 2))], opset=11, extra_imports=[oh.make_operatorsetid("ai.onnx.ml", 1)]), True))
    # an older default opset next to an import of ANOTHER domain whose version number is at or above the surrounding model's default
    # opset (versions of different domains are unrelated numbers): the default-domain part is written for 11 and must still be converted
    out.append(("opset11-squeeze-with-unused-domain-import-v14",
                mk([oh.make_node("Squeeze", ["x"], ["y"], axes=[0])], [vi("x", (1, 2))], [vi("y", (2,))], opset=11,
                   extra_imports=[oh.make_operatorsetid("com.example.ext", 14)]), True))
    out.append(("opset11-softmax-with-unused-domain-import-v30",
                mk([oh.make_node("Softmax", ["x"], ["y"])], [vi("x", (2, 2, 2))], [vi("y", (2, 2, 2))], opset=11,
                   extra_imports=[oh.make_operatorsetid("com.example.ext", 30)]), True))
    # statically EMPTY dimensions in the declared types (0 is a dimension like any other: it is neither unknown nor a wildcard)
    out.append(("zero-dim-output", mk([oh.make_node("Slice", ["x", "starts", "ends"], ["y"])], [vi("x", (2, 3))], [vi("y", (0, 3))],
                                      [oh.make_tensor("starts", TP.INT64, (1,), [0]), oh.make_tensor("ends", TP.INT64, (1,), [0])]), True))
    out.append(("zero-dim-input", mk([oh.make_node("Concat", ["x", "extra"], ["y"], axis=0)], [vi("x", (2, 3)), vi("extra", (0, 3))], [vi("y", (2, 3))]), True))
    out.append(("opset13-relu", mk([oh.make_node("Relu", ["x"], ["y"])], [vi("x")], [vi("y")], opset=13), True))
    # an initializer (dense / sparse) of the MAIN graph that only nodes inside control-flow bodies read (captured outer value), at depth 1 and 2
    bias = numpy_helper.from_array(np.array([7, 9], F32), "Bias")
    then_b = oh.make_graph([oh.make_node("Add", ["x", "Bias"], ["tb"])], "then", [], [vi("tb")])
    else_b = oh.make_graph([oh.make_node("Sub", ["x", "Bias"], ["eb"])], "else", [], [vi("eb")])
    out.append(("main-initializer-read-only-inside-branches",
                mk([oh.make_node("If", ["c"], ["y"], then_branch=then_b, else_branch=else_b)], [vi("x"), vi("c", (), TP.BOOL)], [vi("y")], [bias]), True))
    inner_t = oh.make_graph([oh.make_node("Mul", ["x", "Bias"], ["it"])], "it", [], [vi("it")])
    inner_e = oh.make_graph([oh.make_node("Add", ["x", "sw"], ["ie"])], "ie", [], [vi("ie")])
    then_n = oh.make_graph([oh.make_node("If", ["c"], ["tb"], then_branch=inner_t, else_branch=inner_e)], "then", [], [vi("tb")])
    else_n = oh.make_graph([oh.make_node("Identity", ["x"], ["eb"])], "else", [], [vi("eb")])
    out.append(("main-initializers-read-only-at-depth-2",
                mk([oh.make_node("If", ["c"], ["y"], then_branch=then_n, else_branch=else_n)], [vi("x"), vi("c", (), TP.BOOL)], [vi("y")], [bias],
                   sparse=[sparse]), True))
    # OMITTED optional OUTPUTS (empty names) of several nodes: "" is no value at all - it is neither renamed nor shared
    rw = numpy_helper.from_array(np.full((1, 2, 2), 0.5, F32), "RW")
    rr = numpy_helper.from_array(np.full((1, 2, 2), 0.25, F32), "RR")
    out.append(("two-nodes-with-an-omitted-first-output",
                mk([oh.make_node("RNN", ["x", "RW", "RR"], ["", "h1"], hidden_size=2), oh.make_node("RNN", ["h1", "RW", "RR"], ["", "y"], hidden_size=2)],
                   [vi("x", (3, 1, 2))], [vi("y", (1, 1, 2))], [rw, rr]), True))
    out.append(("omitted-inner-and-trailing-outputs",
                mk([oh.make_node("RNN", ["x", "RW", "RR"], ["", "h1"], hidden_size=2), oh.make_node("RNN", ["h1", "RW", "RR"], ["y2"], hidden_size=2),
                    oh.make_node("RNN", ["h1", "RW", "RR", "", "", "h1"], ["", "h3"], hidden_size=2), oh.make_node("Add", ["y2", "h3"], ["y"])],
                   [vi("x", (3, 1, 2))], [oh.make_tensor_value_info("y", TP.FLOAT, (1, 1, 1, 2))], [rw, rr]), True))
    # MANY outputs (12: two-digit positions) with pairwise different values and alternating element types; output names in an order that
    # is neither alphabetical nor the order of the producing nodes
    names12 = [f"res_{c}" for c in "kbjdafchieg"] + ["res_l"]
    nodes12, outs12 = [], []
    for k, nm in enumerate(names12):
        nodes12.append(oh.make_node("Constant", [], [f"c{k}"], value=oh.make_tensor(f"c{k}", TP.FLOAT, (), [float(k + 1)])))
        if k % 2:
            nodes12 += [oh.make_node("Mul", ["x", f"c{k}"], [f"m{k}"]), oh.make_node("Cast", [f"m{k}"], [nm], to=TP.DOUBLE)]
            outs12.append(vi(nm, (2,), TP.DOUBLE))
        else:
            nodes12.append(oh.make_node("Mul", ["x", f"c{k}"], [nm]))
            outs12.append(vi(nm, (2,)))
    out.append(("twelve-outputs", mk(nodes12, [vi("x")], outs12), True))
    for tag, m, _ in out:
        onnx.checker.check_model(m)
    return out


def arg_for(info: onnx.ValueInfoProto):
    tt = info.type.tensor_type
    dt = onnx.helper.tensor_dtype_to_np_dtype(tt.elem_type)
    shape = tuple(d.dim_value if d.WhichOneof("value") == "dim_value" else 2 for d in tt.shape.dim)
    return B.argument(B.Tensor(dt, shape)), dt, shape


def declared_simple(tp: onnx.TypeProto):
    """(numpy dtype, shape) a tensor TypeProto declares: dim_value -> int (0 included), dim_param -> str, neither -> None; shape None if absent"""
    tt = tp.tensor_type
    dt = np.dtype(onnx.helper.tensor_dtype_to_np_dtype(tt.elem_type))
    if not tt.HasField("shape"):
        return dt, None
    return dt, tuple(int(d.dim_value) if d.WhichOneof("value") == "dim_value" else (str(d.dim_param) if d.WhichOneof("value") == "dim_param" else None)
                     for d in tt.shape.dim)


def type_cases(run, models):
    """Arguments whose type CANNOT match the declared input type (other element type, other rank, another static extent where the
    declaration is static - 0 included) must raise TypeError at the call; the declared types themselves are accepted and the returned
    Vars carry exactly the declared output types.  Returns (number of calls, histogram)."""
    hist = collections.Counter()
    n = 0
    for tag, m, _ in models:
        infos = [i for i in m.graph.input if i.type.HasField("tensor_type")]
        if len(infos) != len(m.graph.input):
            continue
        good = {}
        for info in infos:
            dt, shape = declared_simple(info.type)
            good[info.name] = (dt, tuple(2 if not isinstance(d, int) else d for d in shape) if shape is not None else (2,))
        for victim in infos:
            dt, shape = declared_simple(victim.type)
            gdt, gshape = good[victim.name]
            variants = [("element-type", np.dtype(np.int64) if dt != np.dtype(np.int64) else np.dtype(np.float32), gshape)]
            if shape is not None:
                variants.append(("rank", gdt, gshape + (1,)))
                for ax, d in enumerate(shape):
                    if isinstance(d, int):
                        variants.append((f"static-extent-{d}", gdt, gshape[:ax] + ((5,) if d == 0 else (d + 3,)) + gshape[ax + 1:]))
                        if d != 0:
                            variants.append((f"static-extent-{d}-vs-0", gdt, gshape[:ax] + (0,) + gshape[ax + 1:]))
            for what, vdt, vshape in variants:
                args = {k: B.argument(B.Tensor(*(good[k] if k != victim.name else (vdt, vshape)))) for k in good}
                n += 1
                try:
                    B.inline(m)(**args)
                    hist["accepted"] += 1
                    run.fail("impl", f"C08/incompatible-argument-accepted/{what.split('-')[0]}",
                             f"inline({tag}): input {victim.name!r} is declared {dt}{list(shape) if shape is not None else '[...]'} but an argument of type "
                             f"{vdt}{list(vshape)} was accepted instead of raising TypeError", {"tag": tag, "input": victim.name, "variant": what})
                except TypeError:
                    hist["TypeError/" + what.split("-")[0]] += 1
                except Exception as e:  # noqa: BLE001
                    hist["other"] += 1
                    run.fail("impl", "C08/bind-wrong-exception", f"an argument of the wrong type raised {type(e).__name__} instead of TypeError",
                             {"tag": tag, "input": victim.name, "variant": what})
        # the declared types themselves: accepted, and the results carry exactly the declared output types - also when one of the
        # arguments has NO type at all (the result of a custom operator without an inference hook): the output types are m's declaration
        for untyped in (None,) + tuple(good)[:2]:
          args = {k: (B.argument(B.Tensor(*good[k])) if k != untyped else _untyped_var(B.argument(B.Tensor(*good[k])))) for k in good}
          n += 1
          try:
            with warnings.catch_warnings():
                warnings.simplefilter("ignore")
                res = B.inline(m)(**args)
          except Exception as e:  # noqa: BLE001
            run.fail("impl", f"C08/call-rejected/{tag}", f"inline({tag})(arguments of the declared types{', one of them untyped' if untyped else ''}) raised "
                     f"{type(e).__name__}: {str(e)[:120]}", {"tag": tag, "untyped_argument": untyped})
            continue
          _check_declared(run, hist, tag, m, res, untyped)
    n += nontensor_boundary_cases(run, hist)
    return n, dict(hist)


def nontensor_boundary_cases(run, hist):
    """Sequence- and Optional-typed inputs of m are type-checked like tensors: another element type, a tensor for a sequence (and the
    reverse), a sequence for an optional must raise TypeError; arguments of the declared types are accepted and the declared (sequence /
    optional) output types are carried.  Returns the number of calls."""
    import spox.opset.ai.onnx.v17 as op17
    from spox import Optional as SOptional, Sequence as SSequence

    n = 0
    seq_f = SSequence(B.Tensor(F32, (None,)))
    xs, k = B.argument(seq_f), B.argument(B.Tensor(np.int64, ()))
    m_seq = B.build({"xs": xs, "k": k}, {"y": op17.concat_from_sequence(xs, axis=0), "z": op17.sequence_at(xs, k), "s": op17.sequence_insert(xs, op17.sequence_at(xs, k))})
    ox = B.argument(SOptional(B.Tensor(F32, (2,))))
    m_opt = B.build({"o": ox}, {"h": op17.optional_has_element(ox), "o2": op17.identity(ox)})
    a, i = B.argument(B.Tensor(F32, (3,))), B.argument(B.Tensor(np.int64, (3,)))
    good_seq, int_seq = op17.sequence_construct([a, a]), op17.sequence_construct([i, i])
    kk = op17.const(np.array(1, np.int64))
    good_opt = op17.optional(B.argument(B.Tensor(F32, (2,))))
    calls = [("seq/declared", m_seq, (good_seq, kk), True), ("seq/other-element-type", m_seq, (int_seq, kk), False),
             ("seq/tensor-for-sequence", m_seq, (a, kk), False), ("seq/sequence-for-tensor", m_seq, (good_seq, good_seq), False),
             ("opt/declared", m_opt, (good_opt,), True), ("opt/other-element-type", m_opt, (op17.optional(i),), False),
             ("opt/sequence-for-optional", m_opt, (good_seq,), False), ("opt/tensor-for-optional", m_opt, (a,), False)]
    for what, m, args, ok in calls:
        n += 1
        try:
            with warnings.catch_warnings():
                warnings.simplefilter("ignore")
                res = B.inline(m)(*args)
            if not ok:
                hist["accepted"] += 1
                run.fail("impl", f"C08/incompatible-argument-accepted/{what.split('/')[0]}", f"inline(m): {what}: an argument whose type cannot match the declared "
                         "input type was accepted instead of raising TypeError", {"variant": what})
                continue
            want = [B.render_onnx_type(o.type) for o in m.graph.output]
            got = [B.render_spox_type(v.type) for v in res.values()]
            if [w.replace("N", "?") for w in want] != got and want != got:
                run.fail("impl", "C08/output-types", f"inline(m) ({what}): declared output types {want} but the returned Vars have {got}", {"variant": what})
            else:
                hist["declared-types-carried/" + what.split("/")[0]] += 1
        except TypeError as e:
            if ok:
                run.fail("impl", f"C08/call-rejected/{what}", f"inline(m)(arguments of the declared types) raised TypeError: {str(e)[:120]}", {"variant": what})
            else:
                hist["TypeError/" + what.split("/")[0]] += 1
        except Exception as e:  # noqa: BLE001
            run.fail("impl", "C08/bind-wrong-exception", f"{what}: raised {type(e).__name__} instead of TypeError: {str(e)[:100]}", {"variant": what})
    return n


def _untyped_var(x):
    """A Var without a type: the output of a custom operator that has no type-inference hook."""
    from harness import opaque_node
    return opaque_node.untyped(x)


def _check_declared(run, hist, tag, m, res, untyped):
    if True:
        for o, v in zip(m.graph.output, res.values()):
            if not o.type.HasField("tensor_type"):
                continue
            ddt, dshape = declared_simple(o.type)
            # inline() documents that symbolic dimensions of m's inputs and outputs are stripped: a named dimension is carried as unknown
            dshape = tuple(d if isinstance(d, int) else None for d in dshape) if dshape is not None else None
            t = v.unwrap_tensor() if v.type is not None else None
            if t is None or np.dtype(t.dtype) != ddt or (tuple(t.shape) if t.shape is not None else None) != dshape:
                hist["output-type-differs"] += 1
                run.fail("impl", "C08/output-types", f"inline({tag}): output {o.name!r} is declared {ddt}{list(dshape) if dshape is not None else '[...]'} "
                         f"but the returned Var has type {v.type}" + (f" (argument {untyped!r} untyped)" if untyped else ""),
                         {"tag": tag, "output": o.name, "untyped_argument": untyped})
                break
        else:
            hist["declared-types-carried" + ("/untyped-argument" if untyped else "")] += 1


def rand_value(nprng, dt, shape):
    if np.dtype(dt) == np.dtype(bool):
        return np.array(nprng.rand(*shape) > 0.5) if shape else np.array(bool(nprng.rand() > 0.5))
    return (nprng.standard_normal(shape) * 2).astype(dt)


# ------------------------------------------------------------------------------------------------ binding correspondence


def binding_cases(run, models, n):
    """Random calling forms; returns list of dicts with the implementation's observed binding."""
    rng = run.rng
    cases = []
    for _ in range(n):
        tag, m, _ = rng.choice(models)
        in_names = [i.name for i in m.graph.input]
        defaults = [i.name for i in m.graph.initializer]
        argvars = {}
        pool = []
        for info in m.graph.input:
            v, _, _ = arg_for(info)
            argvars[info.name] = v
        npos = rng.randint(0, len(in_names) + (2 if rng.random() < 0.2 else 0))
        pos_names = [(in_names[i] if i < len(in_names) else None) for i in range(npos)]
        pos = []
        for i, nm in enumerate(pos_names):
            pos.append(argvars[nm] if nm is not None else B.argument(B.Tensor(F32, (2,))))
        kw = {}
        for nm in in_names:
            r = rng.random()
            covered = nm in pos_names
            if (not covered and r < 0.75) or (covered and r < 0.1):
                kw[nm] = argvars[nm] if not covered else B.argument(B.Tensor(F32, (2,)))
        if rng.random() < 0.12:
            kw["no_such_input"] = B.argument(B.Tensor(F32, (2,)))
        inner_only = [d for d in defaults if d not in in_names]
        if inner_only and rng.random() < 0.3:
            # a keyword named like an initializer that is NOT an input of the model: still an unknown argument
            kw[rng.choice(inner_only)] = B.argument(B.Tensor(F32, (2,)))
        before = m.SerializeToString(deterministic=True)
        try:
            res = B.inline(m)(*pos, **kw)
            node = next(iter(res.values()))._op
            slots = []
            for nm, v in zip(in_names, node.inputs.inputs):
                if any(v is p for p in pos):
                    slots.append("P%d" % next(i for i, p in enumerate(pos) if v is p))
                elif any(v is k for k in kw.values()):
                    slots.append("K" + next(kn for kn, k in kw.items() if v is k))
                elif isinstance(v._op, B._Initializer):
                    slots.append("D" + nm)
                else:
                    slots.append("?")
            obs = "OK " + ",".join(slots)
            out_types = [B.render_spox_type(v.type) for v in res.values()]
            decl = [B.render_onnx_type(o.type).replace("N", "?") for o in m.graph.output]
            tyok = out_types == [d if "[" not in d else d for d in decl] or all(a.split("[")[0] == b.split("[")[0] for a, b in zip(out_types, decl))
        except Exception as e:  # noqa: BLE001
            obs = "ERR " + type(e).__name__
            tyok = True
        cases.append(dict(tag=tag, in_names=in_names, defaults=defaults, npos=npos, kw=list(kw.keys()), obs=obs,
                          unchanged=(m.SerializeToString(deterministic=True) == before), types_ok=tyok))
    return cases


def binding_model(run, cases):
    header = ("From Coq Require Import List String Bool Arith.\nFrom Spox Require Import Base Inline.\nImport ListNotations.\nOpen Scope string_scope.\n"
              "Definition show_slot (s : slot string) := match s with Given a => a | Default n => \"D\" ++ n end.\n"
              "Definition show_bind (r : res (list (slot string))) := match r with inl l => \"OK \" ++ join \",\" (map show_slot l) | inr e => show_err e end.\n")
    exprs = []
    for c in cases:
        pos = coq_list([coq_str(f"P{i}") for i in range(c["npos"])])
        kw = coq_list([f"({coq_str(k)}, {coq_str('K' + k)})" for k in c["kw"]])
        exprs.append(f"show_bind (bind_args string {coq_list([coq_str(x) for x in c['in_names']])} {coq_list([coq_str(x) for x in c['defaults']])} {pos} {kw})")
    from harness.common import parse_coq_string
    return [parse_coq_string(x) for x in run.coq_eval("c08bind", header, exprs, shard=200)]


# ------------------------------------------------------------------------------------------------ semantic oracle


def compose(rng, m, mode):
    """Build a program around inline(m). Returns (ins, outs, reference evaluator via ORT on m)."""
    infos = list(m.graph.input)
    initnames = {i.name for i in m.graph.initializer}
    args, meta = {}, []
    for info in infos:
        if info.name in initnames and rng.random() < 0.5:
            continue  # leave to the default
        v, dt, shape = arg_for(info)
        args[info.name] = v
        meta.append((info.name, dt, shape))
    call = B.inline(m)
    r1 = call(**args)
    outs = {}
    compose.pre = None
    if mode == "once":
        outs = {f"o_{k}": v for k, v in r1.items()}
        plan = [("m", dict(args))]
    elif mode == "twice":
        r2 = call(**args)
        outs = {f"o1_{k}": v for k, v in r1.items()}
        outs.update({f"o2_{k}": v for k, v in r2.items()})
    elif mode == "rebuilt":
        # r1 is built ON ITS OWN first (see the caller: Case.pre); the program then holds a SECOND application of m that is reached
        # first, next to r1: what an earlier build named or reserved for r1's block must not survive into this build
        r2 = call(**args)
        outs = {f"o2_{k}": v for k, v in r2.items()}
        outs.update({f"o1_{k}": v for k, v in r1.items()})
        compose.pre = (dict(args), {f"o_{k}": v for k, v in r1.items()}, False)
        mode = "twice"
    elif mode == "renamed_rebuild":
        # the SAME application built twice in one process, first under other argument and output names: nothing the first build derived
        # from those names (renamed block, reserved names) may survive into the second
        outs = {f"o_{k}": v for k, v in r1.items()}
        compose.pre = ({f"p_{k}": v for k, v in args.items()}, {f"q_{k}": v for k, v in r1.items()}, False)
        mode = "once"
    elif mode == "in_if":
        cond = B.argument(B.Tensor(np.bool_, ()))
        args["__cond"] = cond
        meta.append(("__cond", np.bool_, ()))
        keys = list(r1.keys())
        rr = op.if_(cond, then_branch=lambda: list(call(**{k: v for k, v in args.items() if k != "__cond"}).values()),
                    else_branch=lambda: list(r1.values()))
        outs = {f"o_{k}": v for k, v in zip(keys, rr)}
    elif mode == "chained":
        first_out = list(r1.values())[0]
        first_in = infos[0]
        if B.render_spox_type(first_out.type) == B.render_spox_type(args.get(first_in.name, first_out).type) and first_in.name in args:
            a2 = dict(args)
            a2[first_in.name] = first_out
            r2 = call(**a2)
            outs = {f"o_{k}": v for k, v in r2.items()}
        else:
            outs = {f"o_{k}": v for k, v in r1.items()}
            mode = "once"
    return args, outs, meta, mode


def ort_reference(m, feeds, mode):
    """What m itself computes (onnxruntime on m), composed as the program composes it."""
    initd = {i.name: numpy_helper.to_array(i) for i in m.graph.initializer}
    names_in = [i.name for i in m.graph.input]
    names_out = [o.name for o in m.graph.output]

    def run_m(f):
        full = {k: f.get(k, initd.get(k)) for k in names_in}
        return dict(zip(names_out, B.ort_run(m, full)))

    base = {k: v for k, v in feeds.items() if k != "__cond"}
    r1 = run_m(base)
    if mode in ("once", "in_if"):
        return {f"o_{k}": v for k, v in r1.items()}
    if mode == "twice":
        d = {f"o1_{k}": v for k, v in r1.items()}
        d.update({f"o2_{k}": v for k, v in r1.items()})
        return d
    if mode == "chained":
        f2 = dict(base)
        f2[names_in[0]] = r1[names_out[0]]
        return {f"o_{k}": v for k, v in run_m(f2).items()}


def run(run: Run) -> int:
    run.check_theorems(PROPS, CONE, thorough_coqchk=(run.tier == "thorough"))
    quick = run.tier == "quick"
    rng = run.rng
    corners = corner_models()
    g = B.GenX(rng, features=("inline",))
    spox_models = []
    for _ in range(12 if quick else 80):
        m, n = g.inner_model()
        spox_models.append(("spox-built", m, True))
    models = corners + spox_models
    # (i) binding
    bcases = binding_cases(run, [x for x in models], 300 if quick else 3000)
    bmodel = binding_model(run, bcases)
    bhist = collections.Counter()
    n_bind_mis = 0
    for c, mo in zip(bcases, bmodel):
        bhist[c["obs"].split(" ")[0] + ("/" + c["obs"].split(" ")[1] if c["obs"].startswith("ERR") else "")] += 1
        if not c["unchanged"]:
            run.fail("impl", "C08/model-modified", "inline(m)(...) modified the model passed in", c)
        if not c["types_ok"]:
            run.fail("impl", "C08/output-types", "returned Vars do not carry m's declared output types", c)
        exp = mo if mo.startswith("OK") else "ERR"
        got = c["obs"] if c["obs"].startswith("OK") else "ERR"
        if exp != got:
            n_bind_mis += 1
            surplus = c["npos"] > len(c["in_names"])
            if surplus and c["obs"].startswith("OK"):
                run.fail("impl", "C08/surplus-positional-accepted", "more positional arguments than inputs are silently dropped instead of raising TypeError", c)
            else:
                run.fail("corr", f"C08/bind/{c['tag']}", "argument binding differs from the model", {**c, "model": mo})
        elif c["obs"].startswith("ERR") and c["obs"] != "ERR TypeError":
            run.fail("impl", "C08/bind-wrong-exception", f"bad call raised {c['obs']} instead of TypeError", c)
    n_type_calls, thist = type_cases(run, models)
    # (ii) emission + semantics
    cases, sem_bad, n_sem = [], 0, 0
    nprng = np.random.RandomState(run.seed)
    ehist = collections.Counter()
    reps = 2 if quick else 8
    for tag, m, runnable in models:
        for mode in ("once", "twice", "in_if", "chained", "rebuilt", "renamed_rebuild"):
            for _ in range(1 if tag == "spox-built" else reps if quick else reps):
                before = m.SerializeToString(deterministic=True)
                try:
                    args, outs, meta, mode2 = compose(rng, m, mode)
                except Exception as e:  # noqa: BLE001
                    run.fail("impl", f"C08/call-rejected/{tag}", f"inline({tag})(valid arguments) raised {type(e).__name__}: {str(e)[:120]}", {"tag": tag, "mode": mode})
                    continue
                c = B.Case(args, outs, False, {"tag": tag, "mode": mode2 if compose.pre is None else "rebuilt"})
                c.pre = compose.pre
                B.run_impl(c)
                older = any(i.domain in ("", "ai.onnx") and i.version != 17 for i in m.opset_import) and tag.startswith("opset")
                if older:
                    c.coq = None  # converted blocks: the converter's node structure is an oracle, no exact prediction
                cases.append(c)
                ehist[tag + "/" + ("model" if c.model_proto is not None else c.impl)] += 1
                if m.SerializeToString(deterministic=True) != before:
                    run.fail("impl", "C08/model-modified", "building around inline(m) modified m", {"tag": tag})
                if c.model_proto is None:
                    run.fail("impl", f"C08/build-fails/{tag}", f"a program around inline({tag}) does not build: {c.impl} {str(c.exc)[:150]}",
                             {"tag": tag, "mode": mode2, "case": B.describe(c)})
                    continue
                if not runnable:
                    continue
                feeds = {k: rand_value(nprng, dt, shape) for k, dt, shape in meta}
                try:
                    used = {i.name for i in c.model_proto.graph.input}
                    got = dict(zip(outs.keys(), B.ort_run(c.model_proto, {k: v for k, v in feeds.items() if k in used})))
                    ref = ort_reference(m, feeds, mode2)
                except Exception as e:  # noqa: BLE001
                    run.fail("impl", f"C08/ort-run-fails/{tag}", "onnxruntime cannot run the model built around inline(m): " + str(e)[:160], {"tag": tag, "mode": mode2})
                    continue
                n_sem += 1
                for k in got:
                    a, b = np.asarray(got[k]), np.asarray(ref[k])
                    if a.shape != b.shape or not np.allclose(a, b, rtol=1e-5, atol=1e-6, equal_nan=True):
                        sem_bad += 1
                        run.fail("impl", f"C08/wrong-value/{tag}", f"inline({tag}) output {k}: built model gives {a.tolist()} but m itself gives {b.tolist()}",
                                 {"tag": tag, "mode": mode2, "feeds": {kk: vv.tolist() for kk, vv in feeds.items()}})
                        break
    mism = B.correspondence(run, "c08", cases)
    for i in mism[:5]:
        run.fail("corr", f"C08/model-vs-impl/{cases[i].meta['tag']}", "model and implementation disagree on the emitted inlined block", B.describe(cases[i]))
    cov = {
        "evaluations": len(bcases) + len(cases) + n_type_calls, "distinct_nontrivial": len({c.impl for c in cases if c.model_proto is not None}),
        "rule": "calling forms: random positional prefixes (incl. surplus), keywords (incl. duplicates/unknown), defaults; models: "
                f"{len(corners)} hand-built corner shapes + {len(spox_models)} spox-built; compositions once/twice/inside If/chained/second build after a build of one application alone; distinct built models by rendering",
        "traces_validated_against_impl": (len(bcases) - n_bind_mis) + len([c for c in cases if c.coq is not None]) - len(mism),
        "disagreements_checked": len(mism) + n_bind_mis, "semantic_runs_ort_m_vs_built": n_sem, "semantic_mismatches": sem_bad,
        "type_boundary_calls": n_type_calls,
        "input_distribution": {"binding_outcomes": dict(bhist), "emission_outcomes": dict(ehist), "type_boundary_outcomes": thist},
        "samples": [bcases[0], B.describe(cases[0])],
    }
    return run.finish(cov, [
        "A: onnxruntime on m is the meaning of m; onnx.version_converter preserves meaning when a block is converted (oracle, not modelled)",
        "exact emission is predicted only for blocks that need no conversion; converted blocks are judged by the semantic oracle",
    ])


def replay(run: Run, case) -> int:
    print(json.dumps(case.get("detail"), indent=1, default=str)[:4000])
    return 1
