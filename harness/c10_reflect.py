"""C10 helpers: reflectors (numpy array / TensorProto / AttributeProto / Python value -> Gallina terms of Tensor.v,
TensorAttr.v), a protobuf wire reader (bit patterns of float fields without any float conversion), generators of
adversarial arrays."""

from __future__ import annotations

import struct

import ml_dtypes
import numpy as np

# numpy dtype name -> (Gallina elem, width in bits, ONNX data_type)
ELEMS = {
    "float32": ("F32", 32, 1), "uint8": ("U8", 8, 2), "int8": ("I8", 8, 3), "uint16": ("U16", 16, 4),
    "int16": ("I16", 16, 5), "int32": ("I32", 32, 6), "int64": ("I64", 64, 7), "str": ("Str", 0, 8),
    "bool": ("Bool", 1, 9), "float16": ("F16", 16, 10), "float64": ("F64", 64, 11), "uint32": ("U32", 32, 12),
    "uint64": ("U64", 64, 13), "complex64": ("C64", 64, 14), "complex128": ("C128", 128, 15),
    "bfloat16": ("BF16", 16, 16), "float8_e4m3fn": ("F8E4M3FN", 8, 17), "float8_e4m3fnuz": ("F8E4M3FNUZ", 8, 18),
    "float8_e5m2": ("F8E5M2", 8, 19), "float8_e5m2fnuz": ("F8E5M2FNUZ", 8, 20), "uint4": ("U4", 4, 21),
    "int4": ("I4", 4, 22), "float4_e2m1fn": ("F4E2M1", 4, 23), "float8_e8m0fnu": ("F8E8M0", 8, 24),
    "uint2": ("U2", 2, 25), "int2": ("I2", 2, 26),
}
CODE2NAME = {v[2]: k for k, v in ELEMS.items()}
NUMPY_NATIVE = ["float32", "uint8", "int8", "uint16", "int16", "int32", "int64", "bool", "float16", "float64",
                "uint32", "uint64", "complex64", "complex128"]
ORT_OK = {"float32", "uint8", "int8", "uint16", "int16", "int32", "int64", "bool", "float16", "float64", "uint32",
          "uint64", "str"}
CONSTANT13 = set(NUMPY_NATIVE) | {"str", "bfloat16"}
CONSTANT19 = CONSTANT13 | {"float8_e4m3fn", "float8_e4m3fnuz", "float8_e5m2", "float8_e5m2fnuz"}
CONSTANT21 = CONSTANT19 | {"uint4", "int4"}


def np_dtype(name: str) -> np.dtype:
    if name == "str":
        return np.dtype(str)
    if hasattr(ml_dtypes, name) and name not in NUMPY_NATIVE:
        return np.dtype(getattr(ml_dtypes, name))
    return np.dtype(name)


def dtype_name(dt) -> str | None:
    """Name of the ONNX-representable element type of a numpy dtype (byte order and aliases normalised), or None."""
    dt = np.dtype(dt)
    if dt.kind == "U":
        return "str"
    n = np.dtype(dt.type).name if dt.kind != "V" or dt.names is None else None
    return n if n in ELEMS and n != "str" else None


# ------------------------------------------------------------------------------------------------ arrays <-> payloads


def reflect_array(arr) -> dict:
    """Logical content of an array, read element by element in C order: {'dtype', 'shape', 'words' | 'strs'}."""
    arr = np.asarray(arr)
    name = dtype_name(arr.dtype)
    assert name is not None, arr.dtype
    shape = [int(d) for d in arr.shape]
    if name == "str":
        strs = [[ord(c) for c in str(arr[idx])] for idx in np.ndindex(*arr.shape)]
        return {"dtype": name, "shape": shape, "strs": strs}
    width = ELEMS[name][1]
    mask = (1 << width) - 1
    words = []
    for idx in np.ndindex(*arr.shape):
        s = arr[idx]
        if name == "bool":
            words.append(1 if bool(s) else 0)
        else:
            words.append(int.from_bytes(np.asarray(s).tobytes(), "little") & mask)
    return {"dtype": name, "shape": shape, "words": words}


def array_from(snap: dict, layout: str = "c"):
    """Rebuild an array with the logical content ``snap`` in the given memory layout."""
    name, shape = snap["dtype"], tuple(snap["shape"])
    dt = np_dtype(name)
    if name == "str":
        strs = ["".join(chr(c) for c in s) for s in snap["strs"]]
        base = np.array(strs, dtype=str).reshape(shape) if strs else np.zeros(shape, dtype="<U1")
    elif name == "bool":
        base = np.array(snap["words"], dtype=np.uint8).astype(bool).reshape(shape)
    else:
        nbytes = max(dt.itemsize, 1)
        buf = b"".join(int(w).to_bytes(nbytes, "little") for w in snap["words"])
        base = np.frombuffer(buf, dtype=dt).reshape(shape).copy()
    return apply_layout(base, layout)


def apply_layout(base, layout: str):
    if layout == "c":
        return base
    if layout == "readonly":
        a = base.copy()
        a.setflags(write=False)
        return a
    if layout == "fortran":
        return np.asfortranarray(base) if base.ndim >= 2 else base
    if layout == "bigendian":
        if base.dtype.itemsize > 1 and base.dtype.kind in "iufcU" and base.dtype.isnative and base.dtype.type.__module__ == "numpy":
            return base.byteswap().view(base.dtype.newbyteorder(">")) if base.dtype.kind != "U" else base.astype(base.dtype.newbyteorder(">"))
        return base
    if layout == "strided":  # every second element of a larger buffer along the last axis
        if base.ndim == 0:
            big = np.zeros((2,), dtype=base.dtype)
            big[1] = base
            return big[1:2].reshape(())
        shp = list(base.shape)
        shp[-1] = shp[-1] * 2 + 1
        big = np.zeros(shp, dtype=base.dtype)
        view = big[..., 1::2]
        view[...] = base
        return view
    if layout == "reversed":
        if base.ndim == 0:
            return base
        big = base[::-1].copy()
        return big[::-1]
    if layout == "transposed":  # a transposed view of the transposed copy: F-like strides, not a fresh buffer
        if base.ndim < 2:
            return base
        return np.ascontiguousarray(base.T).T
    if layout == "broadcast":  # stride-0 read-only view when all elements are equal along axis 0
        return base
    raise ValueError(layout)


LAYOUTS = ["c", "readonly", "fortran", "bigendian", "strided", "reversed", "transposed"]


def same_snapshot(a: dict, b: dict) -> bool:
    return a["dtype"] == b["dtype"] and a["shape"] == b["shape"] and a.get("words") == b.get("words") and a.get("strs") == b.get("strs")


# ------------------------------------------------------------------------------------------------ Gallina printing


def N(n: int) -> str:
    return str(int(n))


def Z(n: int) -> str:
    n = int(n)
    return f"({n})%Z"


def lst(items) -> str:
    return "[" + "; ".join(items) + "]"


def tensor_term(snap: dict) -> str:
    e = ELEMS[snap["dtype"]][0]
    dims = lst(N(d) for d in snap["shape"])
    if snap["dtype"] == "str":
        return f"(mkT {e} {dims} (PStr {lst(lst(N(c) for c in s) for s in snap['strs'])}))"
    return f"(mkT {e} {dims} (PNum {lst(N(w) for w in snap['words'])}))"


def coq_string(s: str) -> str:
    assert all(32 <= ord(c) < 127 for c in s), s
    return '"' + s.replace('"', '""') + '"%string'


# ------------------------------------------------------------------------------------------------ protobuf wire reader


def _varint(b: bytes, i: int):
    shift = v = 0
    while True:
        c = b[i]
        i += 1
        v |= (c & 0x7F) << shift
        if not c & 0x80:
            return v, i
        shift += 7


def wire_fields(b: bytes):
    """[(field number, wire type, value)] of one serialized message; value = int (varint/fixed) or bytes."""
    out, i = [], 0
    while i < len(b):
        key, i = _varint(b, i)
        fno, wt = key >> 3, key & 7
        if wt == 0:
            v, i = _varint(b, i)
        elif wt == 1:
            v = int.from_bytes(b[i:i + 8], "little")
            i += 8
        elif wt == 5:
            v = int.from_bytes(b[i:i + 4], "little")
            i += 4
        elif wt == 2:
            n, i = _varint(b, i)
            v = b[i:i + n]
            i += n
        else:
            raise ValueError(f"wire type {wt}")
        out.append((fno, wt, v))
    return out


def _signed64(v: int) -> int:
    return v - (1 << 64) if v >= 1 << 63 else v


def _packed_varints(b: bytes):
    out, i = [], 0
    while i < len(b):
        v, i = _varint(b, i)
        out.append(v)
    return out


def parse_tensor(ser: bytes) -> dict:
    """TensorProto bytes -> {'dtype': int, 'dims': [...], 'fields': {name: values}, 'name': str}; floats as bit patterns."""
    r = {"dtype": 0, "dims": [], "fields": {}, "name": "", "other": []}

    def add(name, vals):
        r["fields"].setdefault(name, []).extend(vals)

    for fno, wt, v in wire_fields(ser):
        if fno == 1:
            r["dims"] += [_signed64(x) for x in (_packed_varints(v) if wt == 2 else [v])]
        elif fno == 2:
            r["dtype"] = v
        elif fno == 4:
            add("float_data", [int.from_bytes(v[k:k + 4], "little") for k in range(0, len(v), 4)] if wt == 2 else [v])
        elif fno == 5:
            vals = _packed_varints(v) if wt == 2 else [v]
            add("int32_data", [_signed64(x) for x in vals])
        elif fno == 6:
            add("string_data", [list(v)])
        elif fno == 7:
            add("int64_data", [_signed64(x) for x in (_packed_varints(v) if wt == 2 else [v])])
        elif fno == 8:
            r["name"] = v.decode("utf8", "replace")
        elif fno == 9:
            r["fields"]["raw_data"] = list(v)
        elif fno == 10:
            add("double_data", [int.from_bytes(v[k:k + 8], "little") for k in range(0, len(v), 8)] if wt == 2 else [v])
        elif fno == 11:
            add("uint64_data", _packed_varints(v) if wt == 2 else [v])
        else:
            r["other"].append(fno)
    return r


FIELD_CTOR = {"float_data": "DFloat", "int32_data": "DInt32", "int64_data": "DInt64", "string_data": "DString",
              "double_data": "DDouble", "uint64_data": "DUint64", "raw_data": "DRaw"}


def proto_term(pt: dict, default_field: str) -> str | None:
    """Gallina proto of a parsed TensorProto; None if it has more than one data field (not expressible)."""
    fields = {k: v for k, v in pt["fields"].items() if k == "raw_data" or v}
    if len(fields) > 1:
        return None
    if not fields:
        name, vals = default_field, []
    else:
        ((name, vals),) = fields.items()
    ctor = FIELD_CTOR[name]
    if name in ("int32_data", "int64_data"):
        body = lst(Z(x) for x in vals)
    elif name == "string_data":
        body = lst(lst(N(c) for c in s) for s in vals)
    else:
        body = lst(N(x) for x in vals)
    return f"(mkP {N(pt['dtype'])} {lst(N(d) for d in pt['dims'])} ({ctor} {body}))"


def parse_attr(ser: bytes) -> dict:
    """AttributeProto bytes -> dict with name, type and the populated value fields (floats as bit patterns)."""
    r = {"name": "", "type": 0, "ints": [], "floats": [], "strings": [], "tensors": [], "has": set()}
    for fno, wt, v in wire_fields(ser):
        if fno == 1:
            r["name"] = v.decode("utf8")
        elif fno == 2:
            r["f"] = v
            r["has"].add("f")
        elif fno == 3:
            r["i"] = _signed64(v)
            r["has"].add("i")
        elif fno == 4:
            r["s"] = list(v)
            r["has"].add("s")
        elif fno == 5:
            r["t"] = v
            r["has"].add("t")
        elif fno == 6:
            r["g"] = v
            r["has"].add("g")
        elif fno == 7:
            r["floats"] += [int.from_bytes(v[k:k + 4], "little") for k in range(0, len(v), 4)] if wt == 2 else [v]
        elif fno == 8:
            r["ints"] += [_signed64(x) for x in (_packed_varints(v) if wt == 2 else [v])]
        elif fno == 9:
            r["strings"].append(list(v))
        elif fno == 10:
            r["tensors"].append(v)
        elif fno == 14:
            r["tp"] = v
            r["has"].add("tp")
        elif fno == 20:
            r["type"] = v
        elif fno == 21:
            r["ref"] = v
    return r


ATYPE = {1: "TFLOAT", 2: "TINT", 3: "TSTRING", 4: "TTENSOR", 5: "TGRAPH", 6: "TFLOATS", 7: "TINTS", 8: "TSTRINGS",
         9: "TTENSORS", 13: "TTYPE_PROTO"}


def f32_bits(x) -> int:
    return int(np.array(x, dtype=np.float32).view(np.uint32))


def f64_bits(x: float) -> int:
    return struct.unpack("<Q", struct.pack("<d", x))[0]


def f64_from_bits(b: int) -> float:
    return struct.unpack("<d", struct.pack("<Q", b))[0]


# ------------------------------------------------------------------------------------------------ adversarial contents

F32_SPECIAL = [0x00000000, 0x80000000, 0x3F800000, 0xBF800000, 0x7F800000, 0xFF800000, 0x7FC00000, 0xFFC00000,
               0x7FC00001, 0x7FFFFFFF, 0xFFC12345, 0x7F800001, 0xFF800001, 0x7FBFFFFF, 0xFF812345, 0x00000001,
               0x807FFFFF, 0x00800000, 0x7F7FFFFF, 0xFF7FFFFF, 0x3DCCCCCD, 0x4B800000]
F64_SPECIAL = [0x0, 0x8000000000000000, 0x3FF0000000000000, 0x7FF0000000000000, 0xFFF0000000000000,
               0x7FF8000000000000, 0xFFF8000000000001, 0x7FF0000000000001, 0xFFF4000000000000, 0x7FFFFFFFFFFFFFFF,
               0x0000000000000001, 0x800FFFFFFFFFFFFF, 0x0010000000000000, 0x7FEFFFFFFFFFFFFF, 0x3FB999999999999A]
F16_SPECIAL = [0x0000, 0x8000, 0x3C00, 0x7C00, 0xFC00, 0x7E00, 0xFE01, 0x7C01, 0xFD55, 0x7FFF, 0x0001, 0x83FF, 0x0400,
               0x7BFF]
BF16_SPECIAL = [0x0000, 0x8000, 0x3F80, 0x7F80, 0xFF80, 0x7FC0, 0xFFC1, 0x7F81, 0xFFA5, 0x7FFF, 0x0001, 0x807F, 0x0080,
                0x7F7F]
STR_POOL = ["", "a", "abc", "é", "ß", "日本", "🐍", "a🐍b", "ࠀ", "￿", "\U0010ffff", "\x7f\x80", "a\x00b",
            "é", "퟿", "x" * 40, " ", "\n\t", "naïve café", "\x00", "a\x00"]


def special_words(name: str):
    if name == "float32":
        return F32_SPECIAL
    if name == "float64":
        return F64_SPECIAL
    if name == "float16":
        return F16_SPECIAL
    if name == "bfloat16":
        return BF16_SPECIAL
    if name == "complex64":
        return [a | (b << 32) for a in F32_SPECIAL[:16] for b in (0x80000000, 0x7F800001, 0x7FC00001, 0x3F800000)]
    if name == "complex128":
        return [a | (b << 64) for a in F64_SPECIAL[:10] for b in (0x8000000000000000, 0x7FF0000000000001, 0x3FF0000000000000)]
    if name == "bool":
        return [0, 1]
    w = ELEMS[name][1]
    top = (1 << w) - 1
    sp = [0, 1, top, top - 1, 1 << (w - 1), (1 << (w - 1)) - 1, (1 << (w - 1)) + 1]
    if name == "float8_e5m2":
        sp += [0x7C, 0xFC, 0x7D, 0x7E, 0x7F, 0xFD, 0xFE, 0xFF, 0x7B, 0xFB]
    if name == "float8_e8m0fnu":
        sp += [0x00, 0x01, 0xFF, 0x7F]
    return [x & top for x in sp]


def gen_words(rng, name: str, n: int):
    w = ELEMS[name][1]
    sp = special_words(name)
    mode = rng.random()
    out = []
    for _ in range(n):
        if mode < 0.15:
            out.append(rng.getrandbits(w))
        elif mode < 0.30:
            out.append(rng.choice(sp))
        else:
            out.append(rng.choice(sp) if rng.random() < 0.6 else rng.getrandbits(w))
    return out


def gen_shape(rng):
    r = rng.random()
    if r < 0.03:          # arrays of a few KiB (code paths keyed on the size in bytes)
        return rng.choice([[300], [20, 20], [1200], [2, 3, 100]])
    if r < 0.14:
        return []
    if r < 0.30:
        return rng.choice([[0], [1], [2], [3], [5], [7], [16]])
    if r < 0.40:
        return rng.choice([[0, 3], [3, 0], [0, 0], [2, 0, 3], [0, 1, 2], [1, 0]])
    rank = rng.choice([1, 2, 2, 3, 3])
    return [rng.choice([1, 1, 2, 2, 3, 4]) for _ in range(rank)]


def gen_snapshot(rng, name: str, shape=None) -> dict:
    shape = gen_shape(rng) if shape is None else shape
    n = 1
    for d in shape:
        n *= d
    if name == "str":
        strs = []
        for _ in range(n):
            s = rng.choice(STR_POOL) if rng.random() < 0.8 else "".join(
                chr(rng.choice([rng.randrange(1, 128), rng.randrange(128, 0x800), rng.randrange(0x800, 0xD800),
                                rng.randrange(0xE000, 0x10000), rng.randrange(0x10000, 0x110000)]))
                for _ in range(rng.randrange(0, 6)))
            strs.append([ord(c) for c in s])
        # numpy's str_ arrays drop trailing NULs: the logical array is what numpy shows
        arr = array_from({"dtype": "str", "shape": shape, "strs": strs})
        return reflect_array(arr)
    return {"dtype": name, "shape": shape, "words": gen_words(rng, name, n)}
