"""C06 — reported types are sound: runtime values always conform to them.

Model: coq/Infer.v (the hand-written routines + a runtime dtype/shape specification from the ONNX documentation),
theorems: coq/props/C06.v.

A run does
  A  correspondence: every modelled routine (ai.onnx.ml ArrayFeatureExtractor … TreeEnsembleRegressor, Compress, the
     Loop carried-type patch, inline) is called through the REAL constructor on generated input types × attributes;
     the resulting Var.type(s) or exception class must equal the model's result (vm_compute) exactly;
  B  validation of the runtime specification and DIRECT ORACLE: the one-operator model is built with spox.build and
     run in onnxruntime for every admissible size of the unknown dims; the actual dtype/shape must equal rt_<Op>
     (assumption of the theorems) and must conform to the reported Var.type (property) – a non-conforming value is an
     `impl` failure;
  C  operators typed by ONNX's own inference (soundness validated only): random programs over ~45 standard
     operators incl. If / Loop / Scan, inlined models and functions; every exposable Var is a model output, the model
     is run on inputs covering the sizes {0,1,2,3} of every unknown dim, dtype/shape vs Var.type.
"""

from __future__ import annotations

import collections
import copy
import json
import os
import time
import warnings

import numpy as np

from harness.common import Run, split_top
from harness import c06_ops as O
from harness import c06_prog as P
from harness.c06_rt import Pool, run_model, run_reference

CONE = ["Infer.v", "InferFacts.v"]
PROPS = "props/C06.v"
HEADER = ("From Coq Require Import List NArith ZArith Bool String.\nFrom Spox Require Import Infer InferFacts.\n"
          "Import ListNotations.\nOpen Scope N_scope.\nOpen Scope string_scope.\n")
OUTNAMES = {"TreeEnsembleClassifier": ["labels", "scores"]}


def modules():
    import importlib

    ml = {v: importlib.import_module(f"spox.opset.ai.onnx.ml.v{v}") for v in (3, 4, 5)}
    op = {v: importlib.import_module(f"spox.opset.ai.onnx.v{v}") for v in (17, 18, 19, 20, 21)}
    return ml, op


def split_pair(term: str):
    term = term.strip()
    assert term.startswith("(") and term.endswith(")"), term[:100]
    return split_top(term[1:-1], ",")


def case_size(case):
    n = 0
    for t in case["ins"]:
        if t is not None and t[0] == "T" and t[2] is not None:
            n += 10 * len(t[2]) + sum(d if isinstance(d, int) else 1 for d in t[2])
    return n


# ------------------------------------------------------------------------------------------------ A + B: routines


def real_outcome(case, ml, op):
    xs = [O.make_var(t, f"x{i}") for i, t in enumerate(case["ins"])]
    with warnings.catch_warnings():
        warnings.simplefilter("ignore")
        try:
            outs = O.real_call(case, xs, ml, op)
        except Exception as e:  # noqa: BLE001
            return O.render_err(type(e).__name__), None
    tds = [O.td_of_type(o.type) for o in outs]
    return O.render_types(tds), tds


def routines(run: Run, pool: Pool, n_per_op: int, cov: dict):
    rng = run.rng
    ml, op = modules()
    cases = [copy.deepcopy(c) for c in O.CORPUS]
    for name in O.OPS:
        cases += [O.gen_case(rng, name) for _ in range(n_per_op)]
    hist = {"by_op": {}, "outcome": {}, "input_kind": {"untyped": 0, "sequence": 0, "rank_unknown": 0, "named_dim": 0, "unknown_dim": 0},
            "rank": {}, "elem": {}}
    impl_res, exprs, tds_out = [], [], []
    for k, c in enumerate(cases):
        c["mlv"], c["opv"] = (3, 4, 5)[k % 3], (17, 18, 19, 20, 21)[k % 5]
        if c["op"].startswith("TreeEnsemble") and c["mlv"] == 5:
            c["mlv"] = 4  # ai.onnx.ml v5 no longer has TreeEnsembleClassifier / TreeEnsembleRegressor
        r, tds = real_outcome(c, ml[c["mlv"]], op[c["opv"]])
        impl_res.append(r)
        tds_out.append(tds)
        rej = O.onnx_rejects_compress(c) if c["op"] == "Compress" else False
        c["onnx_rejects"] = rej
        exprs.append(O.model_expr(c, rej))
        hist["by_op"][c["op"]] = hist["by_op"].get(c["op"], 0) + 1
        oc = "typed" if (tds and any(t is not None for t in tds)) else ("untyped-result" if tds else r)
        hist["outcome"][oc] = hist["outcome"].get(oc, 0) + 1
        for t in c["ins"]:
            if t is None:
                hist["input_kind"]["untyped"] += 1
            elif t[0] == "S":
                hist["input_kind"]["sequence"] += 1
            else:
                hist["elem"][t[1]] = hist["elem"].get(t[1], 0) + 1
                if t[2] is None:
                    hist["input_kind"]["rank_unknown"] += 1
                else:
                    hist["rank"][len(t[2])] = hist["rank"].get(len(t[2]), 0) + 1
                    hist["input_kind"]["named_dim"] += any(isinstance(d, str) for d in t[2])
                    hist["input_kind"]["unknown_dim"] += any(d is None for d in t[2])
    model_res = [O.norm(r) for r in run.coq_eval("routines", HEADER, exprs, shard=300)]
    mism = [i for i, (a, b) in enumerate(zip(impl_res, model_res)) if a != b]
    seen = set()
    for i in sorted(mism, key=lambda i: case_size(cases[i])):
        key = f"C06/model-vs-impl/{cases[i]['op']}"
        if key in seen:
            continue
        seen.add(key)
        run.fail("corr", key, f"model and implementation disagree on the output types of {cases[i]['op']}",
                 {"case": cases[i], "impl": impl_res[i], "model": model_res[i], "model_term": exprs[i]})
    cov["routine_calls"] = len(cases)
    cov["routine_mismatches"] = len(mism)

    # ---- B: runtime
    limit = 6 if run.tier == "quick" else 16
    jobs, meta = [], []
    n_unbuildable = 0
    for i, c in enumerate(cases):
        if tds_out[i] is None or not O.buildable(c) or not any(t is not None for t in tds_out[i]):
            continue
        try:
            with warnings.catch_warnings():
                warnings.simplefilter("ignore")
                mb, outs, feeds = O.build_single(c, ml[c["mlv"]], op[c["opv"]])
        except Exception:  # noqa: BLE001
            n_unbuildable += 1  # e.g. the reported output type is not concrete, or build's own checks
            continue
        fl, info = [], []
        for asg in O.assignments(rng, c, limit):
            shapes = O.concrete_shapes(c, asg)
            f, vals = feeds(rng, shapes)
            fl.append(f)
            info.append((shapes, O.compress_k(c, vals) if c["op"] == "Compress" else 0))
        jobs.append((mb, fl, True))
        meta.append((i, info))
    t0 = time.time()
    results = pool.map(run_model, jobs)
    cov["routine_ort_wall_s"] = round(time.time() - t0, 1)
    rt_exprs, rt_meta = [], []
    stats = {"models": len(jobs), "not_buildable": n_unbuildable, "load_ok": 0, "load_stripped": 0, "load_err": 0, "crash": 0, "runs_ok": 0,
             "runs_err": 0, "no_kernel": 0, "by_op_runs_ok": {}}
    for (i, info), res in zip(meta, results):
        c = cases[i]
        if res["load"] in ("err", "crash"):
            stats["crash" if res["load"] == "crash" else "load_err"] += 1
            stats["no_kernel"] += "NOT_IMPLEMENTED" in res["load_msg"]
            if res["load"] == "crash":
                run.notes.append(f"onnxruntime aborted on {c['op']} {c['attrs']} (skipped)")
            continue
        stats["load_ok" if res["load"] == "ok" else "load_stripped"] += 1
        for (shapes, k), r in zip(info, res["runs"]):
            if r[0] != "ok":
                stats["runs_err"] += 1
                continue
            stats["runs_ok"] += 1
            stats["by_op_runs_ok"][c["op"]] = stats["by_op_runs_ok"].get(c["op"], 0) + 1
            vals = [(O.ELEMS[t[1]][2], s) for t, s in zip(c["ins"], shapes)]
            outs = r[1]
            rt_exprs.append("(" + O.rt_expr(c, vals, k) + ", all2b [" + "; ".join(O.coq_val(*o) for o in outs) + "] ["
                            + "; ".join(O.coq_ity(t) for t in tds_out[i]) + "])")
            rt_meta.append((i, shapes, outs, res["load"], res["load_msg"]))
    rt_res = run.coq_eval("runtime", HEADER, rt_exprs, shard=300)
    bad_spec, viol = {}, {}
    for (i, shapes, outs, load, load_msg), term in zip(rt_meta, rt_res):
        c = cases[i]
        spec, conf = split_pair(term)
        expect = O.norm("Some [" + "; ".join(O.coq_val(*o) for o in outs) + "]")
        if O.norm(spec) != expect:
            bad_spec.setdefault(c["op"], []).append((case_size(c), i, shapes, outs, O.norm(spec)))
        kinds = [O.conforms_py(o[0], o[1], t) for o, t in zip(outs, tds_out[i])]
        py_ok = all(k is None for k in kinds)
        if (conf.strip() == "true") != py_ok:
            run.fail("proof", "C06/conformance-checkers-disagree", "Python and Gallina conformance tests disagree",
                     {"case": c, "outs": outs, "types": tds_out[i], "coq": conf, "python": kinds})
        if not py_ok:
            names = OUTNAMES.get(c["op"], ["output"] * len(outs))
            j = next(j for j, k in enumerate(kinds) if k is not None)
            key = f"C06/{c['op']}/{kinds[j].replace('output', names[j])}"
            viol.setdefault(key, []).append((case_size(c) + sum(sum(s) for s in shapes), i, shapes, outs, load, load_msg))
    for opn, lst in bad_spec.items():
        _, i, shapes, outs, spec = min(lst, key=lambda x: x[:2])
        run.fail("proof", f"C06/rt_spec/{opn}", f"the runtime specification rt_{opn} (assumption of the theorems) does not describe onnxruntime",
                 {"case": cases[i], "input_shapes": shapes, "onnxruntime": outs, "rt_spec": spec, "occurrences": len(lst)})
    for key, lst in sorted(viol.items()):
        _, i, shapes, outs, load, load_msg = min(lst, key=lambda x: x[:2])
        c = cases[i]
        run.fail("impl", key, f"{c['op']}: a runtime value does not conform to the reported type",
                 {"kind": "routine", "case": c, "input_shapes": shapes, "reported": [O.norm(O.coq_ity(t)) for t in tds_out[i]],
                  "runtime": outs, "occurrences": len(lst),
                  "note": ("onnxruntime refuses the model as built (declared output type contradicts the operator): "
                           + load_msg[:200] + " — values observed with the declared output types erased") if load == "stripped" else ""})
    stats["rt_spec_evaluations"] = len(rt_exprs)
    stats["rt_spec_mismatches"] = sum(len(v) for v in bad_spec.values())
    stats["nonconforming_runs"] = sum(len(v) for v in viol.values())
    cov["routine_runtime"] = stats
    cov["routine_input_distribution"] = hist
    samples = []
    for i in (0, 3, 6, len(O.CORPUS) + 1, len(O.CORPUS) + n_per_op + 2):
        if i < len(cases):
            samples.append({"case": {k: v for k, v in cases[i].items() if k in ("op", "ins", "attrs")}, "impl": impl_res[i], "model": model_res[i]})
    return len(cases), len(cases) - len(mism), len(mism), samples, len(rt_exprs)


# ------------------------------------------------------------------------------------------------ LabelEncoder


def label_encoder_oracle(run: Run, pool: Pool, n: int, cov: dict):
    """LabelEncoder has no spox-side routine in this tree (ml/v3.py:244, ml/v4.py:61: ONNX's own inference), so there is
    nothing to model; its reported type is checked against onnxruntime directly."""
    import spox
    from spox import Tensor, argument

    rng = run.rng
    ml, _ = modules()
    kv = {"f32": ("floats", [0.5, 1.5]), "i64": ("int64s", [1, 2]), "str": ("strings", ["c0", "c1"])}
    jobs, meta, rejected = [], [], 0
    for k in range(n):
        ke, ve = rng.choice(list(kv)), rng.choice(list(kv))
        xe = ke if rng.random() < 0.85 else rng.choice(list(kv))
        shape = O.gen_shape(rng, p_unknown_rank=0.0)
        c = {"op": "LabelEncoder", "ins": [("T", xe, shape)], "attrs": {"keys": ke, "values": ve}}
        x = argument(Tensor(O.ELEMS[xe][0], shape))
        try:
            with warnings.catch_warnings():
                warnings.simplefilter("ignore")
                y = ml[(3, 4, 5)[k % 3]].label_encoder(x, **{f"keys_{kv[ke][0]}": kv[ke][1], f"values_{kv[ve][0]}": kv[ve][1]})
                m = spox.build({"in0": x}, {"out0": y})
        except Exception:  # noqa: BLE001
            rejected += 1
            continue
        fl, info = [], []
        for asg in O.assignments(rng, c, 5):
            shapes = O.concrete_shapes(c, asg)
            fl.append({"in0": O.feed_value(rng, xe, shapes[0], "data")})
            info.append(shapes)
        jobs.append((m.SerializeToString(), fl, True))
        meta.append((c, O.td_of_type(y.type), info))
    res = pool.map(run_model, jobs)
    ok = 0
    for (c, td, info), r in zip(meta, res):
        for shapes, rr in zip(info, r["runs"]):
            if rr[0] != "ok":
                continue
            ok += 1
            kind = O.conforms_py(rr[1][0][0], rr[1][0][1], td)
            if kind is not None:
                run.fail("impl", f"C06/LabelEncoder/{kind}", "LabelEncoder: a runtime value does not conform to the reported type",
                         {"kind": "other", "case": c, "input_shapes": shapes, "reported": O.norm(O.coq_ity(td)), "runtime": rr[1]})
    cov["label_encoder"] = {"calls": n, "rejected_by_constructor_or_build": rejected, "models": len(jobs), "runs_ok": ok}
    return ok


# ------------------------------------------------------------------------------------------------ inline correspondence


def inline_corr(run: Run, n: int, cov: dict):
    import onnx
    import spox
    from onnx import helper

    rng = run.rng
    elems = ["f32", "f32", "i64", "f64"]
    cases = [
        {"decl_in": [("T", "f32", ("N", 3))], "decl_out": [("T", "f32", ("N", 1)), ("T", "i64", None)], "args": [("T", "f32", (5, 3))]},
        {"decl_in": [("T", "f32", ("N", 3))], "decl_out": [("T", "f32", None)], "args": [("T", "f32", (5, 4))]},
        {"decl_in": [("T", "f32", (2, 3))], "decl_out": [("T", "f32", ("A", "B"))], "args": [None]},
    ]
    while len(cases) < n:
        k = rng.choice([1, 1, 2])
        di = [("T", rng.choice(elems), O.gen_shape(rng, p_unknown_rank=0.1)) for _ in range(k)]
        args = []
        for t in di:
            u = rng.random()
            if u < 0.5 and t[2] is not None:  # a more specific variant of the declared type
                args.append(("T", t[1], tuple(d if isinstance(d, int) else rng.choice([1, 2, 3, None, "K"]) for d in t[2])))
            elif u < 0.6:
                args.append(t)
            else:
                args.append(O.gen_td(rng, elems, p_untyped=0.1, p_seq=0.08, p_unknown_rank=0.15))
        do = [("T", rng.choice(elems), O.gen_shape(rng, p_unknown_rank=0.15)) for _ in range(rng.choice([1, 1, 2]))]
        cases.append({"decl_in": di, "decl_out": do, "args": args})
    impl_res, exprs = [], []
    for c in cases:
        ins = [helper.make_value_info(f"i{k}", O.td_to_spox(t)._to_onnx()) for k, t in enumerate(c["decl_in"])]
        outs = [helper.make_value_info(f"o{k}", O.td_to_spox(t)._to_onnx()) for k, t in enumerate(c["decl_out"])]
        nodes = [helper.make_node("Identity", ["i0"], [f"o{k}"]) for k in range(len(outs))]
        m = helper.make_model(helper.make_graph(nodes, "g", ins, outs), opset_imports=[helper.make_operatorsetid("", 17)])
        xs = [O.make_var(t, f"a{k}") for k, t in enumerate(c["args"])]
        try:
            with warnings.catch_warnings():
                warnings.simplefilter("ignore")
                res = spox.inline(m)(*xs)
            impl_res.append(O.render_types([O.td_of_type(v.type) for v in res.values()]))
        except Exception as e:  # noqa: BLE001
            impl_res.append(O.render_err(type(e).__name__))
        exprs.append("infer_Inline [" + "; ".join(O.coq_ty(t) for t in c["decl_in"]) + "] [" + "; ".join(O.coq_ty(t) for t in c["decl_out"])
                     + "] [" + "; ".join(O.coq_ity(t) for t in c["args"]) + "]")
    model_res = [O.norm(r) for r in run.coq_eval("inline", HEADER, exprs, shard=300)]
    mism = [i for i, (a, b) in enumerate(zip(impl_res, model_res)) if a != b]
    if mism:
        i = min(mism, key=lambda i: len(exprs[i]))
        run.fail("corr", "C06/model-vs-impl/inline", "model and implementation disagree on the output types of an inlined model",
                 {"case": cases[i], "impl": impl_res[i], "model": model_res[i], "model_term": exprs[i]})
    cov["inline_calls"] = {"n": len(cases), "rejected": sum(r.startswith("Err") for r in impl_res), "mismatches": len(mism)}
    return len(cases), len(mism), [{"case": cases[1], "impl": impl_res[1], "model": model_res[1]}]


# ------------------------------------------------------------------------------------------------ C: programs


def loop_corr_terms(prog, env, origin):
    """For every Loop node of a program: the model terms of the routine and what the implementation reported."""
    from spox._standard import StandardNode

    out, seen = [], set()
    for v, o in zip(env, origin):
        if o["op"] != "Loop" or v._op in seen:
            continue
        seen.add(v._op)
        node = v._op
        with warnings.catch_warnings():
            warnings.simplefilter("ignore")
            base = StandardNode.infer_output_types(node)
        names = list(node.outputs.get_vars())
        onnx_out = [O.td_of_type(base.get(nm)) for nm in names]
        body = node.attrs.body.value
        n = len(body.requested_arguments) - 2
        body_res = [O.td_of_type(r.type) for r in body.requested_results.values()]
        tin = [O.td_of_type(x.type) for x in node.inputs.v_initial]
        lst = lambda tds: "[" + "; ".join(O.coq_ity(t) for t in tds) + "]"  # noqa: E731
        reported = O.norm(lst([O.td_of_type(x.type) for x in node.outputs.get_vars().values()]))
        out.append({"fixed": f"infer_Loop_fixed {lst(onnx_out)} {n}%nat {lst(body_res)} {lst(tin)}",
                    "orig": f"infer_Loop_orig {lst(onnx_out)} {n}%nat {lst(body_res)}",
                    "reported": reported, "patched": type(node).infer_output_types is not StandardNode.infer_output_types,
                    "tin": tin, "tres": body_res[1:n + 1]})
    return out


def step_deps(s):
    d = list(s.get("args", []))
    if "M" in s:
        d.append(s["M"])
    for sub in s.get("then", []) + s.get("else", []):
        d += step_deps(sub)
    return d


def cone_of(prog, origin, var_index):
    """The sub-program that the Var depends on (steps re-indexed) — the replayable minimal program."""
    n_in = len(prog["inputs"])
    need_steps, todo = set(), [var_index]
    first = {}
    for idx, o in enumerate(origin):
        first.setdefault(o["step"], idx)

    while todo:
        i = todo.pop()
        k = origin[i]["step"]
        if k < 0 or k in need_steps:
            continue
        need_steps.add(k)
        todo += step_deps(prog["steps"][k])
    remap, new_steps, count = {i: i for i in range(n_in)}, [], n_in
    produced = {}
    for idx, o in enumerate(origin):
        produced.setdefault(o["step"], []).append(idx)

    def re(s):
        s = {k: v for k, v in s.items() if k != "_rejected"}
        s["args"] = [remap[i] for i in s["args"]]
        if "M" in s:
            s["M"] = remap[s["M"]]
        for br in ("then", "else"):
            if br in s:
                s[br] = [re(x) for x in s[br]]
        return s
    for k, s in enumerate(prog["steps"]):
        if k not in need_steps:
            continue
        try:
            new_steps.append(re(s))
        except KeyError:
            return None, None
        for idx in produced.get(k, []):
            remap[idx] = count
            count += 1
    return {"inputs": prog["inputs"], "opset": prog["opset"], "steps": new_steps}, remap.get(var_index)


def make_feeds(rng, prog, shapes, trip):
    f = {}
    n = len(prog["inputs"])
    for k, (t, s) in enumerate(zip(prog["inputs"], shapes)):
        if k == n - 3:  # the trip count / scalar int64
            f[f"in{k}"] = np.array(trip, dtype=np.int64)
        else:
            f[f"in{k}"] = O.feed_value(rng, t[1], s, "data")
    return f


def run_programs(run: Run, pool: Pool, progs, cov: dict, tag: str):
    """Interpret, build, run; returns (#programs built, #vars compared).  Reports impl failures."""
    import spox

    rng = run.rng
    _, opmods = modules()
    limit = 7 if run.tier == "quick" else 14
    jobs, meta = [], []
    stats = {"programs": len(progs), "built": 0, "build_failed": 0, "vars_exposed": 0, "steps": 0, "ops": {}, "loop_nodes": 0,
             "load_ok": 0, "load_stripped": 0, "load_err": 0, "runs_ok": 0, "runs_err": 0, "values_compared": 0, "unknown_dim_vars": 0}
    loop_terms = []
    feed_of = {}
    for pi, prog in enumerate(progs):
        ins, env, origin = P.interpret(prog, opmods)
        stats["steps"] += len(prog["steps"])
        for o in origin:
            stats["ops"][o["op"]] = stats["ops"].get(o["op"], 0) + 1
        for lt in loop_corr_terms(prog, env, origin):
            lt["prog"] = pi
            loop_terms.append(lt)
        exposed = [(i, v) for i, v in enumerate(env) if i >= len(ins) and P.exposable(v)]
        if not exposed:
            continue
        try:
            with warnings.catch_warnings():
                warnings.simplefilter("ignore")
                m = spox.build({f"in{k}": v for k, v in enumerate(ins)}, {f"v{i}": v for i, v in exposed})
        except Exception as e:  # noqa: BLE001
            stats["build_failed"] += 1
            stats.setdefault("build_errors", {})
            stats["build_errors"][type(e).__name__] = stats["build_errors"].get(type(e).__name__, 0) + 1
            continue
        stats["built"] += 1
        stats["vars_exposed"] += len(exposed)
        stats["unknown_dim_vars"] += sum(any(not isinstance(d, int) for d in v.type.shape) for _, v in exposed)
        feeds, info = [], []
        for a_i, asg in enumerate(P.input_assignments(rng, prog, limit)):
            shapes = P.input_shapes(prog, asg)
            trip = a_i % 4
            feeds.append(make_feeds(rng, prog, shapes, trip))
            info.append((shapes, trip))
        jobs.append((m.SerializeToString(), feeds, True))
        meta.append((pi, [(i, O.td_of_type(v.type)) for i, v in exposed], origin, info))
        for f, (shapes, trip) in zip(feeds, info):
            feed_of[(pi, tuple(map(tuple, shapes)), trip)] = f
    t0 = time.time()
    results = pool.map(run_model, jobs)
    stats["ort_wall_s"] = round(time.time() - t0, 1)
    viol = {}
    for (pi, exposed, origin, info), res in zip(meta, results):
        if res["load"] in ("err", "crash"):
            stats["load_err"] += 1
            if res["load"] == "crash":
                stats.setdefault("runtime_crashes", [])
                if len(stats["runtime_crashes"]) < 3:
                    stats["runtime_crashes"].append({"program": progs[pi], "what": res["load_msg"]})
            stats.setdefault("load_errors", [])
            if len(stats["load_errors"]) < 3:
                stats["load_errors"].append(res["load_msg"][:160])
            continue
        stats["load_ok" if res["load"] == "ok" else "load_stripped"] += 1
        name2 = {f"v{i}": (i, td) for i, td in exposed}
        for (shapes, trip), r in zip(info, res["runs"]):
            if r[0] != "ok":
                stats["runs_err"] += 1
                continue
            stats["runs_ok"] += 1
            badvars = {}
            for nm, o in zip(res["names"], r[1]):
                i, td = name2[nm]
                stats["values_compared"] += 1
                kind = O.conforms_py(o[0], o[1], td)
                if kind is not None:
                    badvars[i] = (kind, o, td)
            rt_shape = {k: tuple(s) for k, s in enumerate(shapes)}
            for nm, o in zip(res["names"], r[1]):
                rt_shape[name2[nm][0]] = tuple(o[1])
            for i, (kind, o, td) in sorted(badvars.items()):
                org = origin[i]
                prog = progs[pi]
                deps = step_deps(prog["steps"][org["step"]])
                if any(d in badvars for d in deps):
                    stats["derived_nonconforming"] = stats.get("derived_nonconforming", 0) + 1
                    continue  # an operand already violates its type: not the root cause
                if any(0 in rt_shape.get(d, ()) for d in deps):
                    kind = "empty-input"  # one mechanism whatever the symptom (rank / dim): an empty operand
                degenerate = any(0 in rt_shape.get(d, (1,)) or rt_shape.get(d, (1,)) == () for d in deps)
                if org["op"] == "Loop":
                    first = min(j for j, oo in enumerate(origin) if oo["step"] == org["step"])
                    carried = (i - first) < len(prog["steps"][org["step"]]["args"])
                    patched = prog["opset"] <= 18
                    key = ("C06/Loop/carried-type-from-body" if (carried and patched) else
                           f"C06/Loop@{prog['opset']}/{'carried' if carried else 'scan'}-{kind}")
                else:
                    key = f"C06/{org['op']}/{kind}"
                size = len(json.dumps(prog["steps"])) + 50 * trip + sum(sum(s) for s in shapes)
                viol.setdefault(key, []).append((size, pi, i, shapes, trip, o, td, res["load"], feed_of[(pi, tuple(map(tuple, shapes)), trip)],
                                                 degenerate))
    # Arbitration for operators typed by ONNX's own inference: when ONNX's reference implementation yields a value that
    # conforms to the reported type, ONNX is consistent with itself and it is onnxruntime that deviates from the
    # operator specification (observed on empty tensors and scalars) — recorded as an environment discrepancy, not as
    # a defect of spox.  Types computed by spox's own routines (Loop@<=18 carried, Compress, inline) are never arbitrated.
    env_notes = {}
    for key in sorted(viol):
        opn = key.split("/")[1]
        if opn in ("Loop", "Compress", "Inline") or not viol[key]:
            continue
        cands = sorted(viol[key], key=lambda x: x[:2])[:3]
        rjobs, keep = [], []
        for cand in cands:
            size, pi, i, shapes, trip, o, td, load, feed, degenerate = cand
            _, _, origin = P.interpret(progs[pi], opmods)
            small, new_i = cone_of(progs[pi], origin, i)
            if small is None:
                keep.append(cand)
                continue
            try:
                with warnings.catch_warnings():
                    warnings.simplefilter("ignore")
                    ins2, env2, _ = P.interpret(small, opmods)
                    m2 = spox.build({f"in{k}": v for k, v in enumerate(ins2)}, {"v": env2[new_i]})
                rjobs.append(((m2.SerializeToString(), [feed], False), cand))
            except Exception:  # noqa: BLE001
                keep.append(cand)
        rres = pool.map(run_reference, [j for j, _ in rjobs])
        n_env = n_undef = 0
        for (_, cand), rr in zip(rjobs, rres):
            ok = rr["load"] == "ok" and rr["runs"] and rr["runs"][0][0] == "ok"
            if ok and O.conforms_py(rr["runs"][0][1][0][0], rr["runs"][0][1][0][1], cand[6]) is None:
                n_env += 1
            elif rr["load"] == "ok" and rr["runs"] and rr["runs"][0][0] == "err" and cand[9]:
                # degenerate operand (empty or scalar) on which ONNX's reference implementation defines no value at all
                # (e.g. ArgMax over an empty axis, NonZero of a scalar, Concat of mismatching shapes one of which is
                # empty): onnxruntime is lenient there; no defined runtime value contradicts the type
                n_undef += 1
            else:
                keep.append(cand)
        if not keep:
            env_notes[key] = {"occurrences": len(viol[key]), "reference_conforms": n_env, "reference_defines_no_value": n_undef, "example": {
                "program": cone_of(progs[cands[0][1]], P.interpret(progs[cands[0][1]], opmods)[2], cands[0][2])[0],
                "input_shapes": cands[0][3], "reported": O.norm(O.coq_ity(cands[0][6])), "onnxruntime": cands[0][5]}}
            viol[key] = []
        else:
            viol[key] = keep
    stats["onnxruntime_deviates_from_onnx"] = env_notes
    for key, lst in sorted(viol.items()):
        if not lst:
            continue
        size, pi, i, shapes, trip, o, td, load, _feed, _dg = min(lst, key=lambda x: x[:2])
        prog = progs[pi]
        _, _, origin = P.interpret(prog, opmods)
        small, new_i = cone_of(prog, origin, i)
        run.fail("impl", key, f"{origin[i]['op']}: a runtime value does not conform to the reported type",
                 {"kind": "program", "program": small or prog, "var": new_i if small else i, "producing_step": origin[i],
                  "input_shapes": shapes, "trip_count": trip, "reported": O.norm(O.coq_ity(td)), "runtime": o, "occurrences": len(lst),
                  "full_program": prog if small else None, "note": "declared types erased for onnxruntime" if load == "stripped" else ""})
    # Loop routine correspondence (model of the repaired routine; the unrepaired one for diagnosis)
    n_loop_mism = 0
    if loop_terms:
        patched = [lt for lt in loop_terms if lt["patched"]]
        res = run.coq_eval(f"loop_{tag}", HEADER, [lt["fixed"] for lt in patched] + [lt["orig"] for lt in patched], shard=300)
        k = len(patched)
        for lt, fx, og in zip(patched, res[:k], res[k:]):
            lt["model_fixed"], lt["model_orig"] = O.norm(fx), O.norm(og)
        bad = [lt for lt in patched if lt["reported"] != lt["model_fixed"]]
        n_loop_mism = len(bad)
        if bad:
            lt = min(bad, key=lambda lt: len(lt["fixed"]))
            run.fail("corr", "C06/model-vs-impl/Loop", "the Loop carried-type routine differs from the model of the repaired routine"
                     + (" (it equals the unrepaired model: body result types)" if lt["reported"] == lt["model_orig"] else ""),
                     {"initial_types": lt["tin"], "body_result_types": lt["tres"], "impl": lt["reported"], "model_fixed": lt["model_fixed"],
                      "model_orig": lt["model_orig"], "program": progs[lt["prog"]]})
        stats["loop_nodes"] = len(loop_terms)
        stats["loop_nodes_patched_routine"] = k
        stats["loop_routine_mismatches"] = n_loop_mism
    stats["nonconforming_values"] = sum(len(v) for v in viol.values())
    cov[f"programs_{tag}"] = stats
    return stats, len([lt for lt in loop_terms if lt["patched"]]), n_loop_mism


LOOP_CORPUS = [
    # F18: carried float32[2], body concat(a, a)
    {"inputs": [("T", "f32", (2,)), ("T", "i64", ()), ("T", "bool", ()), ("T", "bool", (2,))], "opset": 17,
     "steps": [{"op": "Loop", "args": [0], "M": 1, "bodies": ["concat0"], "scan": "none"}]},
    # the Appendix-D merge is not enough: carried float32[2,2], body transpose(concat(a, a))
    {"inputs": [("T", "f32", (2, 2)), ("T", "i64", ()), ("T", "bool", ()), ("T", "bool", (2,))], "opset": 18,
     "steps": [{"op": "Loop", "args": [0], "M": 1, "bodies": ["concat-transpose"], "scan": "iter"}]},
    # tests/type_inference/test_loop.py
    {"inputs": [("T", "f64", (None,)), ("T", "i64", ("N", 2)), ("T", "i64", ()), ("T", "bool", ()), ("T", "bool", (2,))], "opset": 17,
     "steps": [{"op": "Loop", "args": [0, 1], "M": 2, "bodies": ["id", "add-self"], "scan": "iter"}]},
    {"inputs": [("T", "f32", (None, 3)), ("T", "i64", ()), ("T", "bool", ()), ("T", "bool", (2,))], "opset": 17,
     "steps": [{"op": "Loop", "args": [0], "M": 1, "bodies": ["concat0"], "scan": "sum"}]},
    {"inputs": [("T", "f32", (None,)), ("T", "i64", ()), ("T", "bool", ()), ("T", "bool", (2,))], "opset": 19,
     "steps": [{"op": "Loop", "args": [0], "M": 1, "bodies": ["const3"], "scan": "carried"}]},
]


def gen_loop_program(rng):
    k = rng.choice([1, 1, 2])
    shapes = [(2,), (3,), (None,), ("N",), (2, 2), (2, 3), (None, 3), (None, None), ("N", 2), (1,), ()]
    ins = [("T", rng.choice(["f32", "f32", "i64", "f64"]), rng.choice(shapes)) for _ in range(k)]
    bodies = [rng.choice(["id", "add-self", "concat0", "concat-transpose", "slice0", "flatten", "const3", "outer-add", "relu"]) for _ in ins]
    n = len(ins)
    return {"inputs": ins + [("T", "i64", ()), ("T", "bool", ()), ("T", "bool", (2,))], "opset": rng.choice([17, 17, 18, 19, 21]),
            "steps": [{"op": "Loop", "args": list(range(n)), "M": n, "bodies": bodies, "scan": rng.choice(["iter", "carried", "sum", "none"])}]}


# ------------------------------------------------------------------------------------------------ entry points


def _conforms(value, typ):
    t = typ.unwrap_tensor()
    if value.dtype != t.dtype:
        return f"dtype {value.dtype} != reported {t.dtype}"
    if t.shape is None:
        return ""
    if value.ndim != len(t.shape):
        return f"rank {value.ndim} != reported rank {len(t.shape)}"
    for k, (got, rep) in enumerate(zip(value.shape, t.shape)):
        if isinstance(rep, int) and got != rep:
            return f"dim {k}: runtime {got} != reported constant {rep}"
    return ""


def fixed_scenarios(run: Run):
    """Hand-written programs for corners the random generator does not reach: control flow with MORE THAN TEN results of pairwise
    different types (positional matching of result types), and a variadic list the caller goes on modifying after the call (the type was
    inferred from what the list held at the call).  Every requested Var is executed and its value checked against its reported type."""
    import warnings
    import onnxruntime as ort
    import spox.opset.ai.onnx.v17 as op17
    import spox.opset.ai.onnx.v19 as op19
    from spox import Tensor, argument, build

    n_checked = 0
    for op, tag in ((op17, "v17"), (op19, "v19")):
        scen = {}
        with warnings.catch_warnings():
            warnings.simplefilter("ignore")
            for n in (11, 13):
                cond = argument(Tensor(np.bool_, ()))
                xs = [argument(Tensor(np.float32, (k + 1,))) for k in range(n)]
                outs = op.if_(cond, then_branch=lambda: [op.add(x, x) for x in xs], else_branch=lambda: [op.neg(x) for x in xs])
                feeds = {"cond": np.array(True), **{f"x{k}": np.ones(k + 1, np.float32) for k in range(n)}}
                scen[f"if-{n}-results"] = ({"cond": cond, **{f"x{k}": x for k, x in enumerate(xs)}}, {f"r{k}": o for k, o in enumerate(outs)}, feeds)
                # Loop with n scan outputs of different widths
                xs = [argument(Tensor(np.float32, (k + 1,))) for k in range(n)]
                acc = argument(Tensor(np.float32, (2,)))
                res = op.loop(op.const(np.array(3, np.int64)), v_initial=[acc], body=lambda i, c, a: [c, a] + [op.neg(x) for x in xs])
                feeds = {"acc": np.ones(2, np.float32), **{f"x{k}": np.ones(k + 1, np.float32) for k in range(n)}}
                scen[f"loop-{n}-scan-outputs"] = ({"acc": acc, **{f"x{k}": x for k, x in enumerate(xs)}}, {f"r{k}": o for k, o in enumerate(res)}, feeds)
            # Loop with MANY carried values of pairwise different types (12 states + 2 scan outputs: positional order of the outputs
            # v_final_and_scan_outputs_0 .. _13 - two-digit suffixes), run for several trip counts
            for trips_val in (0, 1, 3):
                sts = [argument(Tensor(np.float32 if k % 2 else np.int64, (k + 1,))) for k in range(12)]
                trips = argument(Tensor(np.int64, ()))
                res = op.loop(trips, v_initial=sts, body=lambda i, c, *a: [c] + [op.add(v, v) for v in a] + [op.neg(a[0]), op.neg(a[11])])
                scen[f"loop-12-carried-values/trips={trips_val}"] = (
                    {"trips": trips, **{f"s{k:02d}": v for k, v in enumerate(sts)}}, {f"r{k:02d}": o for k, o in enumerate(res)},
                    {"trips": np.array(trips_val, np.int64), **{f"s{k:02d}": np.ones(k + 1, np.float32 if k % 2 else np.int64) for k in range(12)}})
            x = argument(Tensor(np.float32, (2,)))
            y = argument(Tensor(np.float32, (3,)))
            parts = [x, x]
            first = op.concat(parts, axis=0)
            parts.append(y)
            second = op.concat(parts, axis=0)
            parts.append(x)
            scen["variadic-list-modified-after-the-call"] = ({"x": x, "y": y}, {"first": first, "second": second},
                                                             {"x": np.ones(2, np.float32), "y": np.ones(3, np.float32)})
            # a function whose body is specialised to the static length of its argument, applied at two lengths (and a function that
            # is applied twice at ONE length): each call reported its own type; a model holds one definition per function - either
            # the build is refused, or every call's value conforms to the type reported for that call
            from spox._function import to_function
            half = to_function("FirstHalf" + tag, "verif.c06")(
                lambda v: [op.slice(v, op.const(np.array([0], np.int64)), op.const(np.array([v.unwrap_tensor().shape[0] // 2], np.int64)))])
            x = argument(Tensor(np.float32, (4,)))
            y = argument(Tensor(np.float32, (10,)))
            z = argument(Tensor(np.float32, (4,)))
            scen["function-specialised-to-the-argument-length"] = (
                {"x": x, "y": y, "z": z}, {"hx": list(half(x))[0], "hy": list(half(y))[0], "hz": list(half(z))[0]},
                {"x": np.ones(4, np.float32), "y": np.ones(10, np.float32), "z": np.ones(4, np.float32)})
            # inlined model with a SEQUENCE input: the types of inline(m)(...) are the ones m declares, which is sound only because the
            # argument is checked against m's declared input type - also for the ELEMENTS of a sequence.  A sequence whose elements have
            # another extent / rank / element type is either refused (TypeError) or every result conforms to its reported type.
            import onnx
            import onnx.helper as oh
            from spox import inline
            seq_f3 = oh.make_sequence_type_proto(oh.make_tensor_type_proto(onnx.TensorProto.FLOAT, (3,)))
            inner = oh.make_model(oh.make_graph(
                [oh.make_node("ConcatFromSequence", ["xs"], ["stacked"], axis=0, new_axis=1),
                 oh.make_node("Constant", [], ["zero"], value=oh.make_tensor("zero", onnx.TensorProto.INT64, (), [0])),
                 oh.make_node("SequenceAt", ["xs", "zero"], ["first"])], "inner", [oh.make_value_info("xs", seq_f3)],
                [oh.make_tensor_value_info("stacked", onnx.TensorProto.FLOAT, (None, 3)), oh.make_tensor_value_info("first", onnx.TensorProto.FLOAT, (3,))]),
                opset_imports=[oh.make_operatorsetid("", 17)], ir_version=8)
            for dt, esh, cnt in ((np.float32, (3,), 2), (np.float32, (5,), 2), (np.float32, (2, 3), 3), (np.float64, (3,), 2), (np.float32, (None,), 2)):
                elems = [argument(Tensor(dt, esh)) for _ in range(cnt)]
                try:
                    res = inline(inner)(op.sequence_construct(elems))
                except TypeError:
                    continue                                    # refusing is sound
                run_sh = tuple(3 if d is None else d for d in esh)     # an unknown extent is fed with what m declares (its precondition)
                scen[f"inline-sequence-argument/{np.dtype(dt).name}{list(esh)}x{cnt}"] = (
                    {f"e{k}": v for k, v in enumerate(elems)}, {k: op.identity(v) for k, v in res.items()},
                    {f"e{k}": np.full(run_sh, k, dtype=dt) for k in range(cnt)})
            # DEFAULT-VALUED inputs (a graph input that also has an initializer): the caller may feed another value, so nothing may be
            # concluded from the default about shapes computed from it (Reshape / ConstantOfShape / Expand / Tile targets)
            from spox._graph import arguments as _arguments
            for how, fed in (("default", None), ("override-same-size", np.array([3, 2], np.int64)), ("override", np.array([6, 1], np.int64))):
                xa, sh = _arguments(x=Tensor(np.float32, (None,)), shape=np.array([2, 3], np.int64))
                outs_ = {"reshaped": op.reshape(xa, sh), "filled": op.constant_of_shape(sh, value=np.array([7], np.int64)),
                         "expanded": op.expand(op.const(np.array([1.0], np.float32)), sh), "plus": op.add(sh, sh)}
                feeds_ = {"x": np.arange(6, dtype=np.float32)}
                if fed is not None:
                    feeds_["shape"] = fed
                scen[f"default-valued-input-feeds-a-shape/{how}"] = ({"x": xa, "shape": sh}, outs_, feeds_)
            # Loop whose body does NOT keep a carried type invariant (a carried value loses a constant extent) while ANOTHER carried
            # value is computed from it: after the second iteration the derived value has lost the extent too
            for n_val, trips_val in ((2, 2), (1, 3), (3, 2), (2, 1)):
                a0, b0 = argument(Tensor(np.float32, (3,))), argument(Tensor(np.float32, (3,)))
                nn, trips = argument(Tensor(np.int64, (1,))), argument(Tensor(np.int64, ()))
                a_fin, b_fin = op.loop(trips, v_initial=[a0, b0], body=lambda i, c, a, b: [
                    op.const(np.array(True)), op.slice(a, op.const(np.array([0], np.int64)), nn), op.add(a, op.const(np.array(0, np.float32)))])
                flat = op.const(np.array([-1], np.int64))
                scen[f"loop-carried-type-not-invariant/n={n_val},trips={trips_val}"] = (
                    {"a0": a0, "b0": b0, "n": nn, "trips": trips}, {"a_fin": op.reshape(a_fin, flat), "b_fin": op.reshape(b_fin, flat)},
                    {"a0": np.arange(3, dtype=np.float32), "b0": np.ones(3, np.float32), "n": np.array([n_val], np.int64), "trips": np.array(trips_val, np.int64)})
        for name, (ins, outs, feeds) in scen.items():
            try:
                with warnings.catch_warnings():
                    warnings.simplefilter("ignore")
                    # a model output needs a known rank: results reported with unknown rank are exposed through a flattening Reshape
                    # (their element type is still checked)
                    exposed = {k: (v if getattr(v.type, "shape", ()) is not None else op.reshape(v, op.const(np.array([-1], np.int64))))
                               for k, v in outs.items()}
                    m = build(ins, exposed)
                so = ort.SessionOptions()
                so.log_severity_level = 3
                sess = ort.InferenceSession(_strip_types(m), so)
                got = dict(zip([o.name for o in sess.get_outputs()], sess.run(None, feeds)))
            except Exception as e:  # noqa: BLE001
                # every fixed scenario is a legal program that builds and runs on the unchanged tree; when the ONNX checker or the runtime
                # refuses the model because a declared (= reported) type contradicts what it infers or computes, that IS the finding
                msg = f"{type(e).__name__}: {str(e)[:300]}"
                if name.startswith("function-specialised") and isinstance(e, RuntimeError) and "two different definitions" in str(e):
                    run.notes.append(f"fixed scenario {name}/{tag}: build refused (one definition per function) - sound")
                    continue
                typed = any(w in msg.lower() for w in ("type", "shape", "dimension", "rank", "incompatible", "mismatch"))
                run.fail("impl" if typed else "corr", f"C06/fixed/{name}/model-with-the-reported-types-is-refused",
                         f"{name} ({tag}): the program cannot be built / run with the types spox reported: {msg}",
                         {"scenario": name, "module": tag, "reported": {k: str(v.type) for k, v in outs.items()}})
                continue
            for k, v in outs.items():
                n_checked += 1
                d = _conforms(got[k], v.type)
                if d:
                    run.fail("impl", f"C06/fixed/{name}", f"{name} ({tag}): result {k} is reported {v.type} but at run time {d}",
                             {"scenario": name, "module": tag, "result": k, "reported": str(v.type), "runtime_shape": list(got[k].shape)})
                    break
    return n_checked


def _strip_types(m):
    """the model with the declared types of its outputs erased (a wrong declaration must not stop onnxruntime from computing)"""
    import onnx
    m2 = onnx.ModelProto()
    m2.CopyFrom(m)
    for o in m2.graph.output:
        o.type.tensor_type.ClearField("shape")
    del m2.graph.value_info[:]
    return m2.SerializeToString()


def body_arg_oracle(run):
    """Types declared for Scan body arguments (recorded while the programs were GENERATED, i.e. also for calls the constructor then
    rejected) against the shape the runtime hands the body: rank and every constant extent must agree."""
    seen, hist = set(), collections.Counter()
    for o in P.BODY_ARG_OBS:
        k = json.dumps(o, sort_keys=True)
        if k in seen:
            continue
        seen.add(k)
        hist[f"axis={o['axis']}"] += 1
        dshape, want = o["declared"][2], o["runtime_shape"]
        if dshape is None:
            continue
        bad = len(dshape) != len(want) or any(isinstance(d, int) and w is not None and d != w for d, w in zip(dshape, want))
        if bad or o["declared"][1] != o["operand"][1]:
            run.fail("impl", f"C06/scan/body-argument-type-unsound/axis={o['axis']}",
                     f"Scan (opset {o['opset']}, scan_input_axes=[{o['axis']}]) declares {o['declared']} for the scanned element of {o['operand']}, "
                     f"the runtime hands the body shape {want}", o)
    P.BODY_ARG_OBS.clear()
    return {"distinct": len(seen), "by_axis": dict(hist)}


def run(run: Run) -> int:
    run.check_theorems(PROPS, CONE, thorough_coqchk=(run.tier == "thorough"))
    quick = run.tier == "quick"
    cov: dict = {}
    pool = Pool(max(2, min(12, (os.cpu_count() or 4) - 2)))
    t = time.time()
    n_calls, n_ok, n_mism, samples, n_rt = routines(run, pool, 500 if quick else 3000, cov)
    n_le = label_encoder_oracle(run, pool, 80 if quick else 600, cov)
    cov["phase_wall_s"] = {"routines": round(time.time() - t, 1)}
    t = time.time()
    n_inl, n_inl_mism, inl_samples = inline_corr(run, 500 if quick else 4000, cov)
    cov["phase_wall_s"]["inline"] = round(time.time() - t, 1)
    t = time.time()
    _, opmods = modules()
    rng = run.rng
    loops = [copy.deepcopy(p) for p in LOOP_CORPUS] + [gen_loop_program(rng) for _ in range(300 if quick else 2500)]
    lstats, n_loop, n_loop_mism = run_programs(run, pool, loops, cov, "loop")
    cov["phase_wall_s"]["loop"] = round(time.time() - t, 1)
    t = time.time()
    progs = []
    for _ in range(1500 if quick else 8000):
        p = P.gen_program(rng, rng.choice([4, 6, 8, 10]), rng.choice([17, 17, 18, 19, 21]))
        progs.append(P.grow_program(rng, p, opmods))
    cov["scan_body_argument_types_checked"] = body_arg_oracle(run)
    pstats, n_loop2, n_loop_mism2 = run_programs(run, pool, progs, cov, "random")
    cov["phase_wall_s"]["random_programs"] = round(time.time() - t, 1)
    n_fixed = fixed_scenarios(run)
    cov["fixed_scenarios_values_checked"] = n_fixed
    distinct = len({json.dumps(p["steps"], sort_keys=True) for p in progs if len(p["steps"]) >= 3})
    cov.update({
        "evaluations": n_calls + n_inl + n_loop + n_loop2 + n_rt,
        "distinct_nontrivial": distinct + cov["routine_runtime"]["models"],
        "rule": "routine calls: generated (element type incl. unsupported ones, rank 0-3, constant/unknown/named dims, unknown rank, "
                "untyped, Sequence) x attribute values, distinct = one-operator models built and run; programs: random sequences of "
                f"4-10 accepted constructor calls over {len(P.VOCAB)} operators incl. If/Loop/Scan/inline/function, distinct by step "
                "list, non-trivial = at least 3 accepted steps",
        "traces_validated_against_impl": n_ok + (n_inl - n_inl_mism) + (n_loop - n_loop_mism) + (n_loop2 - n_loop_mism2),
        "disagreements_checked": n_mism + n_inl_mism + n_loop_mism + n_loop_mism2,
        "runtime_values_compared": cov["routine_runtime"]["runs_ok"] + n_le + lstats["values_compared"] + pstats["values_compared"],
        "samples": samples + inl_samples,
        "input_distribution": {"routines": cov.pop("routine_input_distribution"), "program_ops": pstats["ops"],
                               "program_opsets": {str(v): sum(p["opset"] == v for p in progs) for v in (17, 18, 19, 21)}},
    })
    return run.finish(cov, [
        "rt_<Op> (Infer.v Part 3) describes the dtype/shape of onnxruntime's result — validated in this run on every executed one-operator "
        "model (coverage.routine_runtime.rt_spec_evaluations comparisons); operator instances without an onnxruntime kernel "
        "(e.g. Binarizer/Imputer/LinearRegressor on double/int input) are covered by the theorems but not by a runtime observation",
        "Loop theorems: the body's typing is sound for arguments of the declared types and element types are static (ONNX graphs are "
        "statically typed); tensor-typed carried values only",
        "operators typed by ONNX's own inference (everything except the modelled routines) are validated by execution only, on the "
        "generated programs",
        "onnxruntime 1.30 CPU is the runtime of record; when it refuses a built model because a declared output type contradicts the "
        "operator, values are observed with the declared output types erased (reported in the failure note)",
    ])


def replay(run: Run, case) -> int:
    ml, opmods = modules()
    d = case["detail"]
    pool = Pool(1)
    rng = run.rng
    bad = False
    if d.get("kind") == "routine":
        c = d["case"]
        r, tds = real_outcome(c, ml[c.get("mlv", 3)], opmods[c.get("opv", 17)])
        print("case:", c["op"], c["ins"], c["attrs"])
        print("reported:", r)
        mb, outs, feeds = O.build_single(c, ml[c.get("mlv", 3)], opmods[c.get("opv", 17)])
        f, _ = feeds(rng, [tuple(s) for s in d["input_shapes"]])
        res = pool.map(run_model, [(mb, [f], True)])[0]
        print("onnxruntime:", res["load"], res["load_msg"][:200], res["runs"])
        if res["runs"] and res["runs"][0][0] == "ok":
            for o, t in zip(res["runs"][0][1], tds):
                k = O.conforms_py(o[0], o[1], t)
                print("  value", o, "vs type", t, "->", k or "conforms")
                bad |= k is not None
    elif d.get("kind") == "program":
        import spox

        prog = d["program"]
        ins, env, origin = P.interpret(prog, opmods)
        i = d["var"]
        v = env[i]
        print("program:", json.dumps(prog))
        print("var", i, "from", origin[i], "reported", v.type)
        m = spox.build({f"in{k}": x for k, x in enumerate(ins)}, {"v": v})
        f = make_feeds(rng, prog, [tuple(s) for s in d["input_shapes"]], d["trip_count"])
        res = pool.map(run_model, [(m.SerializeToString(), [f], True)])[0]
        print("onnxruntime:", res["load"], res["runs"])
        if res["runs"] and res["runs"][0][0] == "ok":
            o = res["runs"][0][1][0]
            k = O.conforms_py(o[0], o[1], O.td_of_type(v.type))
            print("  value", o, "->", k or "conforms")
            bad |= k is not None
    else:
        print(json.dumps(d, indent=1, default=str)[:3000])
        model = d.get("model_term")
        if model:
            print("model:", run.coq_eval("replay", HEADER, [model]))
        bad = True
    if bad:
        print(f"VIOLATION property=C06 replay={run.pid}")
    return 1 if bad else 0
